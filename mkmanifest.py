#!/usr/bin/env python3
"""Regenerates MANIFEST.json from the table below (developer tool)."""
import json, os
V = os.path.dirname(os.path.abspath(__file__))
props = [json.loads(l) for l in open(os.path.join(V, 'properties.jsonl'))]
ids = [p['id'] for p in props]

# id -> (level category, technique, level text, level note, design ref)
CLAIMED = {}
def claim(i, cat, tech, text, note, ref):
    CLAIMED[i] = (cat, tech, text, note, ref)

exec(open(os.path.join(V, 'manifest_claims.py')).read())

NOT_YET = {}
if os.path.exists(os.path.join(V, 'manifest_na.json')):
    NOT_YET = json.load(open(os.path.join(V, 'manifest_na.json')))

checks = []
for i in ids:
    if i not in CLAIMED:
        continue
    cat, tech, text, note, ref = CLAIMED[i]
    checks.append({
        "property_id": i,
        "quick_cmd": f"./check {i} quick",
        "thorough_cmd": f"./check {i} thorough",
        "evidence_file": f"/verif/evidence/{i}.json",
        "replay_cmd_template": f"./check {i} --replay {{path}}",
        "engine": "vh",
        "level_claimed": {"category": cat, "text": text, "design_ref": ref},
        "level_note": note,
        "technique": tech,
    })
na = [{"property_id": i, "reason": NOT_YET.get(i, "monitor not built yet in this session; see DESIGN.md section 3 for the planned runtime monitor")} for i in ids if i not in CLAIMED]
hooks_commits = []
hp = os.path.join(V, 'MANIFEST.hooks')
if os.path.exists(hp):
    for l in open(hp):
        l = l.strip()
        if l and not l.startswith('#'):
            hooks_commits.append(l.split()[0])
m = {
    "version": 1,
    "setup_cmd": "cd /verif/harness && cp /repo/go.sum go.sum && GOFLAGS=-mod=mod GOPROXY=off GOSUMDB=off GOTOOLCHAIN=local go build -tags verif -o /verif/.work/vh-setup ./cmd/vh && rm -f /verif/.work/vh-setup",
    "hooks": {
        "guard": "verif",
        "enable": "go build -tags verif (the harness module /verif/harness has `replace github.com/go-gts/gts => /repo`, so every check compiles /repo's working tree with the tag on)",
        "baseline_off_cmd": "cd /repo && GOFLAGS=-mod=mod GOPROXY=off GOSUMDB=off GOTOOLCHAIN=local go test -json -vet=off -count=1 -timeout 25m ./...",
        "source_commits": hooks_commits,
        "add_only": True,
    },
    "engines": [{
        "name": "vh", "path": "/verif/harness",
        "serves_properties": [c["property_id"] for c in checks],
        "kind_free_text": "Go runtime-monitoring harness: 16 deterministic shard processes run the real library/CLI on generated, systematic and fault-injected workloads; reference-model, snapshot/canary and history monitors judge every execution; known findings attributed by deviation models from KNOWN_FINDINGS.txt",
    }],
    "checks": checks,
    "not_applicable": na,
    "notes": "Technique family: runtime monitoring. ./check <id> [quick|thorough] rebuilds from /repo's working tree on every call. Exit 0 held / 1 violated (VIOLATION lines) / 3 inconclusive. KNOWN_FINDINGS.txt lists genuine defects that are pinned by existing tests or not small to repair; fixes are `fix:` commits in /repo.",
}
json.dump(m, open(os.path.join(V, 'MANIFEST.json'), 'w'), indent=1)
print("claimed:", [c["property_id"] for c in checks]); print("not claimed:", [n["property_id"] for n in na])
