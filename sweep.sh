#!/bin/bash
# sweep.sh [tier] [seed...] : runs every claimed check (developer tool)
cd "$(dirname "$0")"
TIER=${1:-quick}; shift
SEEDS=${@:-1}
ids=$(python3 -c "import json;print(' '.join(c['property_id'] for c in json.load(open('MANIFEST.json'))['checks']))")
rc=0
for s in $SEEDS; do for id in $ids; do
  out=$(VERIF_SEED=$s ./check $id $TIER 2>&1); code=$?
  echo "seed=$s exit=$code $(echo "$out" | grep -v '^KNOWN-FINDING' | tail -1 | cut -c1-170)"
  if [ $code -ne 0 ]; then rc=1; echo "$out" | grep -E '^(VIOLATION|INCONCLUSIVE|STALE)' | head -5 | cut -c1-250; fi
done; done
exit $rc
