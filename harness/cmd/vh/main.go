// vh is the driver of the runtime-monitoring harness. In parent mode it runs
// the known-finding witnesses, spawns the shard workers, merges their results,
// writes the evidence file and prints the verdict lines. In worker mode it
// runs one shard of one monitor.
package main

import (
	"bytes"
	"encoding/binary"
	"encoding/json"
	"flag"
	"fmt"
	"os"
	"os/exec"
	"path/filepath"
	"runtime"
	"sort"
	"strconv"
	"strings"
	"sync"
	"syscall"
	"time"

	"verifharness/fw"
	"verifharness/mon"
)

var (
	flagProp    = flag.String("prop", "", "property id")
	flagTier    = flag.String("tier", "quick", "quick|thorough")
	flagSeed    = flag.Int64("seed", 1, "seed")
	flagWorker  = flag.Int("worker", -1, "worker shard (internal)")
	flagSeq     = flag.Int64("seq", -1, "execute only this case sequence number (internal/replay)")
	flagWork    = flag.String("work", "", "work directory")
	flagVerif   = flag.String("verif", "/verif", "verif root")
	flagReplay  = flag.String("replay", "", "replay file")
	flagVerbose = flag.Bool("v", false, "verbose")
	flagShards  = flag.String("shards", "", "comma list of shards to run (debug)")
)

func main() {
	flag.Parse()
	m, ok := mon.All[*flagProp]
	if !ok {
		fmt.Fprintf(os.Stderr, "unknown property %q\n", *flagProp)
		os.Exit(3)
	}
	if *flagReplay != "" {
		os.Exit(replay(m))
	}
	if *flagWorker >= 0 {
		os.Exit(worker(m))
	}
	os.Exit(parent(m))
}

func loadKF() []fw.KFEntry {
	entries, err := fw.LoadKF(filepath.Join(*flagVerif, "KNOWN_FINDINGS.txt"))
	if err != nil {
		fmt.Fprintf(os.Stderr, "cannot read KNOWN_FINDINGS.txt: %v\n", err)
		os.Exit(3)
	}
	return entries
}

func worker(m fw.Monitor) int {
	if s := os.Getenv("VH_CPU_LIMIT"); s != "" {
		if n, err := strconv.Atoi(s); err == nil {
			lim := syscall.Rlimit{Cur: uint64(n), Max: uint64(n + 5)}
			syscall.Setrlimit(syscall.RLIMIT_CPU, &lim)
		}
	}
	kf := fw.KnownIDs(loadKF(), m.ID())
	// entries whose witness no longer fails suppress nothing (decided by the parent).
	for _, id := range strings.Split(os.Getenv("VH_STALE"), ",") {
		delete(kf, id)
	}
	c := fw.NewCtx(m.ID(), *flagTier, *flagSeed, *flagWorker, *flagWork, kf)
	c.ReplaySeq = *flagSeq
	c.Verbose = *flagVerbose
	m.Run(c)
	if err := c.Finish(); err != nil {
		fmt.Fprintf(os.Stderr, "worker %d: %v\n", *flagWorker, err)
		return 3
	}
	return 0
}

func replay(m fw.Monitor) int {
	b, err := os.ReadFile(*flagReplay)
	if err != nil {
		fmt.Fprintln(os.Stderr, err)
		return 3
	}
	var rf struct {
		Property string `json:"property"`
		Tier     string `json:"tier"`
		Seed     int64  `json:"seed"`
		fw.Violation
	}
	if err := json.Unmarshal(b, &rf); err != nil {
		fmt.Fprintln(os.Stderr, err)
		return 3
	}
	kf := fw.KnownIDs(loadKF(), m.ID())
	c := fw.NewCtx(m.ID(), rf.Tier, rf.Seed, rf.Shard, *flagWork, kf)
	c.ReplaySeq = rf.Seq
	c.Verbose = true
	fmt.Printf("replaying %s class=%s shard=%d seq=%d seed=%d tier=%s\n case: %s\n", rf.Property, rf.Class, rf.Shard, rf.Seq, rf.Seed, rf.Tier, rf.Case)
	m.Run(c)
	if len(c.Res().Violations) > 0 {
		for cl := range c.Res().Violations {
			fmt.Printf("VIOLATION property=%s replay=%s class=%s\n", m.ID(), *flagReplay, cl)
		}
		return 1
	}
	fmt.Println("replay: no violation reproduced")
	return 0
}

type workerOutcome struct {
	shard    int
	err      error
	timedOut bool
	stderr   string
}

func parent(m fw.Monitor) int {
	start := time.Now()
	id := m.ID()
	entries := loadKF()
	known := fw.KnownIDs(entries, id)
	work := *flagWork
	if work == "" {
		work = filepath.Join(*flagVerif, ".work", fmt.Sprintf("%s-%d", id, os.Getpid()))
	}
	os.MkdirAll(work, 0755)

	// 1. witnesses of listed known findings.
	declared := map[string]fw.Finding{}
	for _, f := range m.Findings() {
		declared[f.ID] = f
	}
	var kfLines []string
	stale := []string{}
	witnessState := map[string]string{}
	for _, e := range entries {
		if e.Kind != "known" || e.Property != id {
			continue
		}
		f, ok := declared[e.ID]
		if !ok {
			fmt.Printf("NOTE: known finding %s of %s has no attribution model in the harness; it suppresses nothing\n", e.ID, id)
			continue
		}
		var still bool
		var obs string
		p, val, _, _ := fw.Guard(func() { still, obs = f.Witness() })
		if p {
			still, obs = true, fmt.Sprintf("witness panicked: %v", val)
		}
		witnessState[e.ID] = obs
		if !still {
			stale = append(stale, e.ID)
			fmt.Printf("STALE-KNOWN-FINDING: property=%s %s: witness no longer fails (%s); entry suppresses nothing\n", id, e.ID, obs)
			delete(known, e.ID)
		}
	}

	// 2. workers.
	os.Setenv("VH_STALE", strings.Join(stale, ","))
	exe, _ := os.Executable()
	shards := []int{}
	if *flagShards != "" {
		for _, s := range strings.Split(*flagShards, ",") {
			n, _ := strconv.Atoi(s)
			shards = append(shards, n)
		}
	} else {
		for i := 0; i < fw.NShards; i++ {
			shards = append(shards, i)
		}
	}
	par := runtime.NumCPU()
	if s := os.Getenv("VERIF_PAR"); s != "" {
		if n, err := strconv.Atoi(s); err == nil && n > 0 {
			par = n
		}
	}
	watchdog := 25 * time.Minute
	if *flagTier == "thorough" {
		watchdog = 150 * time.Minute
	}
	sem := make(chan struct{}, par)
	outcomes := make([]workerOutcome, len(shards))
	var wg sync.WaitGroup
	for i, sh := range shards {
		wg.Add(1)
		go func(i, sh int) {
			defer wg.Done()
			sem <- struct{}{}
			defer func() { <-sem }()
			outcomes[i] = runWorker(exe, id, sh, work, watchdog, -1, false)
		}(i, sh)
	}
	wg.Wait()

	// 3. merge.
	merged := fw.Result{
		Buckets: map[string]int64{}, Violations: map[string]*fw.Violation{},
		Known: map[string]int64{}, KnownExample: map[string]string{},
		Skipped: map[string]int64{}, Hook: map[string]int64{},
	}
	hashes := map[uint64]struct{}{}
	overflow := false
	inconclusive := []string{}
	exh := map[string]int{}
	sharedSet, sharedCalls, sharedTrace := false, int64(0), uint64(0)
	for i, sh := range shards {
		oc := outcomes[i]
		rb, rerr := os.ReadFile(filepath.Join(work, fmt.Sprintf("result-%d.json", sh)))
		if oc.err != nil || rerr != nil {
			// worker died or hung: attribute to the case in its WAL.
			v := triageDeath(exe, id, sh, work, oc)
			if v != nil {
				if _, ok := merged.Violations[v.Class]; !ok {
					merged.Violations[v.Class] = v
				}
			} else {
				inconclusive = append(inconclusive, fmt.Sprintf("worker %d died (%v) and the death was not reproduced in isolation", sh, oc.err))
			}
			continue
		}
		var r fw.Result
		if err := json.Unmarshal(rb, &r); err != nil {
			inconclusive = append(inconclusive, fmt.Sprintf("worker %d result unreadable: %v", sh, err))
			continue
		}
		merged.Evaluations += r.Evaluations
		for k, v := range r.Buckets {
			merged.Buckets[k] += v
		}
		for k, v := range r.Known {
			merged.Known[k] += v
			if _, ok := merged.KnownExample[k]; !ok {
				merged.KnownExample[k] = r.KnownExample[k]
			}
		}
		for k, v := range r.Skipped {
			merged.Skipped[k] += v
		}
		for k, v := range r.Hook {
			merged.Hook[k] += v
		}
		for k, v := range r.Violations {
			if o, ok := merged.Violations[k]; ok {
				o.Count += v.Count
			} else {
				merged.Violations[k] = v
			}
		}
		if len(merged.Samples) < 8 {
			for _, s := range r.Samples {
				if len(merged.Samples) < 8 {
					merged.Samples = append(merged.Samples, s)
				}
			}
		}
		inconclusive = append(inconclusive, r.Inconclusive...)
		if len(r.Violations) == 0 && len(r.Inconclusive) == 0 {
			// (a shard that ended a case list early on a verdict is not compared.)
			if sharedSet && (r.SharedCalls != sharedCalls || r.SharedTrace != sharedTrace) {
				inconclusive = append(inconclusive, "the shards disagree on the enumeration of the shared cases (some were skipped or run twice)")
			}
			sharedSet, sharedCalls, sharedTrace = true, r.SharedCalls, r.SharedTrace
		}
		merged.Notes = append(merged.Notes, r.Notes...)
		for _, e := range r.Exhaustive {
			exh[e]++
		}
		overflow = overflow || r.HashOverflow
		hb, _ := os.ReadFile(filepath.Join(work, fmt.Sprintf("hashes-%d.bin", sh)))
		for j := 0; j+8 <= len(hb); j += 8 {
			hashes[binary.LittleEndian.Uint64(hb[j:])] = struct{}{}
		}
	}
	exhaustive := []string{}
	for e, n := range exh {
		if n == len(shards) {
			exhaustive = append(exhaustive, e)
		}
	}
	sort.Strings(exhaustive)
	merged.Notes = dedup(merged.Notes)
	inconclusive = dedup(inconclusive)

	// required buckets.
	emptyReq := []string{}
	for _, b := range m.RequiredBuckets(*flagTier) {
		if merged.Buckets[b] == 0 {
			emptyReq = append(emptyReq, b)
		}
	}
	if len(emptyReq) > 0 && *flagShards == "" {
		inconclusive = append(inconclusive, "required coverage buckets empty: "+strings.Join(emptyReq, ", "))
	}
	if merged.Evaluations == 0 {
		inconclusive = append(inconclusive, "nothing was observed")
	}

	// 4. verdict lines.
	for _, e := range entries {
		if e.Kind != "known" || e.Property != id || !known[e.ID] {
			continue
		}
		n := merged.Known[e.ID]
		kfLines = append(kfLines, fmt.Sprintf("KNOWN-FINDING: property=%s %s: %s (witness: %s; observed in workload %d times)", id, e.ID, e.Text, witnessState[e.ID], n))
	}
	for _, l := range kfLines {
		fmt.Println(l)
	}
	classes := make([]string, 0, len(merged.Violations))
	for k := range merged.Violations {
		classes = append(classes, k)
	}
	sort.Strings(classes)
	repDir := filepath.Join(*flagVerif, "replays", id)
	if len(classes) > 0 {
		os.MkdirAll(repDir, 0755)
	}
	for i, cl := range classes {
		v := merged.Violations[cl]
		path := filepath.Join(repDir, sanitize(cl)+".json")
		rf := map[string]interface{}{
			"property": id, "tier": *flagTier, "seed": *flagSeed,
			"class": v.Class, "shard": v.Shard, "seq": v.Seq, "case": v.Case,
			"expected": v.Expected, "observed": v.Observed, "stack": v.Stack,
			"extra": v.Extra, "count": v.Count,
		}
		b, _ := json.MarshalIndent(rf, "", " ")
		os.WriteFile(path, b, 0644)
		if i < 40 {
			fmt.Printf("VIOLATION property=%s replay=%s class=%s count=%d\n", id, path, cl, v.Count)
		}
	}

	// 5. evidence.
	wall := time.Since(start).Seconds()
	samples := merged.Samples
	if samples == nil {
		samples = []json.RawMessage{}
	}
	cov := map[string]interface{}{
		"evaluations":              merged.Evaluations,
		"distinct_nontrivial":      len(hashes),
		"rule":                     m.Rule(),
		"samples":                  samples,
		"exhaustive":               false,
		"exhaustive_subspaces":     exhaustive,
		"buckets":                  merged.Buckets,
		"required_buckets":         m.RequiredBuckets(*flagTier),
		"required_buckets_empty":   emptyReq,
		"hook_events":              merged.Hook,
		"known_findings_observed":  merged.Known,
		"known_findings_examples":  merged.KnownExample,
		"known_findings_stale":     stale,
		"skipped":                  merged.Skipped,
		"inconclusive":             inconclusive,
		"notes":                    merged.Notes,
		"violation_classes":        classes,
		"distinct_count_saturated": overflow,
		"shards":                   len(shards),
	}
	ev := map[string]interface{}{
		"property_id": id, "tier": *flagTier, "seed": *flagSeed,
		"level": m.Level(), "coverage": cov, "assumptions": m.Assumptions(),
		"wall_s": wall, "violations": len(classes),
	}
	eb, _ := json.MarshalIndent(ev, "", " ")
	// evidence describes runs against /repo itself; a run against a scratch
	// copy (self-test of a mutant) writes it next to its other scratch files.
	evDir := filepath.Join(*flagVerif, "evidence")
	if d := os.Getenv("VH_EVIDENCE_DIR"); d != "" {
		evDir = d
	}
	os.MkdirAll(evDir, 0755)
	if err := os.WriteFile(filepath.Join(evDir, id+".json"), eb, 0644); err != nil {
		fmt.Fprintf(os.Stderr, "cannot write evidence: %v\n", err)
		return 3
	}

	verdict := "held"
	code := 0
	switch {
	case len(classes) > 0:
		verdict, code = "violated", 1
	case len(inconclusive) > 0:
		verdict, code = "inconclusive", 3
	}
	fmt.Printf("%s %s tier=%s seed=%d: evaluations=%d distinct_nontrivial=%d violations=%d known_observed=%d wall=%.1fs\n",
		id, verdict, *flagTier, *flagSeed, merged.Evaluations, len(hashes), len(classes), sum(merged.Known), wall)
	for _, r := range inconclusive {
		fmt.Printf("INCONCLUSIVE: %s\n", r)
	}
	if os.Getenv("VH_KEEP_WORK") == "" {
		os.RemoveAll(work)
	}
	return code
}

func sum(m map[string]int64) int64 {
	var n int64
	for _, v := range m {
		n += v
	}
	return n
}

func dedup(in []string) []string {
	seen := map[string]bool{}
	out := []string{}
	for _, s := range in {
		if !seen[s] {
			seen[s] = true
			out = append(out, s)
		}
	}
	return out
}

func sanitize(s string) string {
	var b strings.Builder
	for _, r := range s {
		switch {
		case r >= 'a' && r <= 'z', r >= 'A' && r <= 'Z', r >= '0' && r <= '9', r == '-', r == '_', r == '.':
			b.WriteRune(r)
		default:
			b.WriteByte('_')
		}
	}
	out := b.String()
	if len(out) > 120 {
		out = out[:120]
	}
	return out
}

func runWorker(exe, id string, shard int, work string, watchdog time.Duration, seq int64, cpuLimit bool) workerOutcome {
	args := []string{"-prop", id, "-tier", *flagTier, "-seed", strconv.FormatInt(*flagSeed, 10),
		"-worker", strconv.Itoa(shard), "-work", work, "-verif", *flagVerif}
	if seq >= 0 {
		args = append(args, "-seq", strconv.FormatInt(seq, 10))
	}
	cmd := exec.Command(exe, args...)
	errPath := filepath.Join(work, fmt.Sprintf("stderr-%d.txt", shard))
	ef, _ := os.Create(errPath)
	defer ef.Close()
	cmd.Stdout = ef
	cmd.Stderr = ef
	cmd.Env = append(os.Environ(), "GOTRACEBACK=all")
	if cpuLimit {
		cmd.Env = append(cmd.Env, "VH_CPU_LIMIT=120")
	}
	if err := cmd.Start(); err != nil {
		return workerOutcome{shard: shard, err: err}
	}
	done := make(chan error, 1)
	go func() { done <- cmd.Wait() }()
	select {
	case err := <-done:
		return workerOutcome{shard: shard, err: err, stderr: errPath}
	case <-time.After(watchdog):
		cmd.Process.Signal(syscall.SIGQUIT)
		select {
		case <-done:
		case <-time.After(20 * time.Second):
			cmd.Process.Kill()
			<-done
		}
		return workerOutcome{shard: shard, err: fmt.Errorf("watchdog expired after %v", watchdog), timedOut: true, stderr: errPath}
	}
}

func timedOutOrKilled(oc workerOutcome) bool {
	return oc.timedOut || (oc.err != nil && strings.Contains(oc.err.Error(), "killed"))
}

// deathInCodeUnderTest: a worker death that cannot be tied to one case is a
// verdict only when the dying process's own report shows the runtime giving up
// inside the code under test - a panic or fatal error whose stack runs through
// go-gts/gts; anything else stays inconclusive.
func deathInCodeUnderTest(oc workerOutcome, shard int, seq int64, caseEnc string) *fw.Violation {
	b, err := os.ReadFile(oc.stderr)
	if err != nil || timedOutOrKilled(oc) {
		return nil
	}
	txt := string(b)
	if !(strings.Contains(txt, "panic:") || strings.Contains(txt, "fatal error:")) || !strings.Contains(txt, "github.com/go-gts/gts") {
		return nil
	}
	if len(txt) > 6000 {
		txt = txt[:6000]
	}
	return &fw.Violation{Class: "process-death-in-the-code-under-test", Shard: shard, Seq: seq, Case: caseEnc,
		Expected: "the process survives the workload", Observed: fmt.Sprintf("worker died: %v", oc.err), Stack: txt, Count: 1}
}

// triageDeath re-runs the case named by the dead worker's write-ahead log
// alone, under a CPU limit. Only a reproduced death is a violation.
func triageDeath(exe, id string, shard int, work string, oc workerOutcome) *fw.Violation {
	wb, err := os.ReadFile(filepath.Join(work, fmt.Sprintf("wal-%d.log", shard)))
	if err != nil || len(wb) == 0 {
		return deathInCodeUnderTest(oc, shard, -1, "(before the first case of this worker)")
	}
	parts := bytes.SplitN(wb, []byte{'\n'}, 2)
	seq, err := strconv.ParseInt(string(parts[0]), 10, 64)
	if err != nil {
		return deathInCodeUnderTest(oc, shard, -1, "(case unknown)")
	}
	caseEnc := ""
	if len(parts) > 1 {
		caseEnc = strings.TrimSpace(string(parts[1]))
	}
	sub := filepath.Join(work, fmt.Sprintf("triage-%d", shard))
	os.MkdirAll(sub, 0755)
	oc2 := runWorker(exe, id, shard, sub, 10*time.Minute, seq, true)
	if oc2.err == nil {
		// the isolated re-run survived; it may still have recorded a violation.
		rb, rerr := os.ReadFile(filepath.Join(sub, fmt.Sprintf("result-%d.json", shard)))
		if rerr == nil {
			var r fw.Result
			if json.Unmarshal(rb, &r) == nil {
				for _, v := range r.Violations {
					return v
				}
			}
		}
		// Not reproduced by the case alone: a death that depends on the history
		// of the process (a finalizer, state carried from earlier calls).
		return deathInCodeUnderTest(oc, shard, seq, caseEnc+"  (last case begun; the death did not recur when this case ran alone: it depends on what the process did before)")
	}
	tail := ""
	if b, err := os.ReadFile(oc2.stderr); err == nil {
		if len(b) > 6000 {
			b = b[:6000]
		}
		tail = string(b)
	}
	kind := "process-death"
	if oc2.timedOut || strings.Contains(oc2.err.Error(), "killed") || strings.Contains(tail, "SIGXCPU") {
		kind = "hang-or-cpu-budget"
	}
	if strings.Contains(tail, "stack overflow") || strings.Contains(tail, "goroutine stack exceeds") {
		kind = "stack-overflow"
	}
	return &fw.Violation{Class: kind, Shard: shard, Seq: seq, Case: caseEnc,
		Observed: fmt.Sprintf("worker died twice on this case: %v / %v", oc.err, oc2.err), Stack: tail, Count: 1}
}
