// Package fw is the runtime-monitoring framework shared by all monitors:
// deterministic sharding, case accounting, coverage buckets, violation
// classes, known-finding attribution and evidence assembly.
package fw

import (
	"encoding/binary"
	"encoding/json"
	"fmt"
	"hash/fnv"
	"math/rand"
	"os"
	"path/filepath"
	"runtime"
	"sort"
	"strings"
)

// NShards is fixed so the case list is a function of (seed, tier) only and
// never of the machine the check runs on.
const NShards = 16

// Monitor is one property's workload + oracle.
type Monitor interface {
	ID() string
	// Level is the MANIFEST level category.
	Level() string
	// Rule describes generation and the non-trivial/distinct rule.
	Rule() string
	// Assumptions lists what the check trusts.
	Assumptions() []string
	// RequiredBuckets are coverage buckets that must be non-empty for a
	// "held" verdict.
	RequiredBuckets(tier string) []string
	// Findings declares the known-finding ids this monitor can attribute,
	// each with a witness that reports whether the defect is still present.
	Findings() []Finding
	// Run executes the shard's share of the workload.
	Run(c *Ctx)
}

// Finding is one attributable defect.
type Finding struct {
	ID      string
	What    string
	Witness func() (stillFails bool, observed string)
}

// Violation is the first observed member of a violation class.
type Violation struct {
	Class    string                 `json:"class"`
	Shard    int                    `json:"shard"`
	Seq      int64                  `json:"seq"`
	Case     string                 `json:"case"`
	Expected string                 `json:"expected,omitempty"`
	Observed string                 `json:"observed,omitempty"`
	Stack    string                 `json:"stack,omitempty"`
	Extra    map[string]interface{} `json:"extra,omitempty"`
	Count    int64                  `json:"count"`
}

// Result is what one worker hands back to the parent.
type Result struct {
	Shard         int                   `json:"shard"`
	Evaluations   int64                 `json:"evaluations"`
	Buckets       map[string]int64      `json:"buckets"`
	Samples       []json.RawMessage     `json:"samples"`
	Violations    map[string]*Violation `json:"violations"`
	Known         map[string]int64      `json:"known"`
	KnownExample  map[string]string     `json:"known_example"`
	Skipped       map[string]int64      `json:"skipped"`
	Hook          map[string]int64      `json:"hook_events"`
	Inconclusive  []string              `json:"inconclusive"`
	Exhaustive    []string              `json:"exhaustive_subspaces"`
	Notes         []string              `json:"notes"`
	DistinctCount int64                 `json:"distinct_count_local"`
	HashOverflow  bool                  `json:"hash_overflow"`
	// SharedCalls / SharedTrace fingerprint the sequence numbers at which this
	// shard called NextShared: all shards must agree, or shared cases were
	// skipped or run twice (a data-dependent break between two NextShared calls).
	SharedCalls int64  `json:"shared_calls"`
	SharedTrace uint64 `json:"shared_trace"`
}

// Ctx is the per-worker context handed to Monitor.Run.
type Ctx struct {
	Prop    string
	Tier    string
	Seed    int64
	Shard   int
	WorkDir string
	Rng     *rand.Rand

	// Replay: when ReplaySeq >= 0 only that sequence number is executed.
	ReplaySeq int64
	Verbose   bool

	kf map[string]bool

	seq     int64
	res     Result
	hashes  map[uint64]struct{}
	maxHash int
	wal     *os.File
	curCase string

	held     *heldResult
	holdTick int
}

type heldResult struct {
	enc    string
	render func() string
	text   string
}

// Hold is called at the end of a case with a function that renders the values
// the code under test returned for it. The rendering is taken now and again
// after the next case has made its calls; a value that reads differently then
// was rewritten by a later call (results that alias a shared buffer, a cache,
// an argument). Every third case is held; the check of a held case happens at
// the next Hold call. In replay mode only one case runs, so such a violation
// is reproduced by replaying the shard up to the later of the two cases.
func (c *Ctx) Hold(enc string, render func() string) {
	if h := c.held; h != nil {
		c.held = nil
		var now string
		if p, val, _, _ := Guard(func() { now = h.render() }); p {
			now = fmt.Sprintf("panic while reading the held result: %v", val)
		}
		if now != h.text {
			c.Violate("result-changed-by-later-call", h.enc+"\n  -- then --\n"+enc, h.text, now)
		}
		c.res.Buckets["results-held-across-calls"]++
	}
	c.holdTick++
	if c.holdTick%3 != 0 || c.Replaying() {
		return
	}
	var text string
	if p, _, _, _ := Guard(func() { text = render() }); p {
		return
	}
	c.held = &heldResult{enc: enc, render: render, text: text}
}

// NewCtx creates a worker context.
func NewCtx(prop, tier string, seed int64, shard int, workDir string, kfIDs map[string]bool) *Ctx {
	h := fnv.New64a()
	fmt.Fprintf(h, "%s|%d|%d", prop, seed, shard)
	c := &Ctx{
		Prop: prop, Tier: tier, Seed: seed, Shard: shard, WorkDir: workDir,
		Rng:       rand.New(rand.NewSource(int64(h.Sum64() >> 1))),
		ReplaySeq: -1,
		kf:        kfIDs,
		hashes:    make(map[uint64]struct{}),
		maxHash:   4000000,
	}
	c.res = Result{
		Shard:        shard,
		Buckets:      map[string]int64{},
		Violations:   map[string]*Violation{},
		Known:        map[string]int64{},
		KnownExample: map[string]string{},
		Skipped:      map[string]int64{},
		Hook:         map[string]int64{},
	}
	return c
}

// Thorough reports whether the thorough tier is running.
func (c *Ctx) Thorough() bool { return c.Tier == "thorough" }

// Pick returns q in the quick tier and t in the thorough tier.
func (c *Ctx) Pick(q, t int) int {
	if c.Thorough() {
		return t
	}
	return q
}

// SubRng returns a PRNG whose stream depends on (prop, seed, name) but not on
// the shard: used by sweeps that every shard must enumerate identically.
func (c *Ctx) SubRng(name string) *rand.Rand {
	h := fnv.New64a()
	fmt.Fprintf(h, "%s|%d|%s", c.Prop, c.Seed, name)
	return rand.New(rand.NewSource(int64(h.Sum64() >> 1)))
}

// NextShared advances the case counter for a case every shard enumerates and
// reports whether this shard executes it.
func (c *Ctx) NextShared() bool {
	c.seq++
	c.res.SharedCalls++
	c.res.SharedTrace = c.res.SharedTrace*1099511628211 + uint64(c.seq)
	if c.ReplaySeq >= 0 {
		return c.seq == c.ReplaySeq
	}
	return int(c.seq%NShards) == c.Shard
}

// NextOwn advances the case counter for a case generated from the shard's own
// PRNG stream (every such case is executed by its shard).
func (c *Ctx) NextOwn() bool {
	c.seq++
	if c.ReplaySeq >= 0 {
		return c.seq == c.ReplaySeq
	}
	return true
}

// Seq is the current case sequence number in this shard.
func (c *Ctx) Seq() int64 { return c.seq }

// Replaying reports whether a single case is being re-executed.
func (c *Ctx) Replaying() bool { return c.ReplaySeq >= 0 }

// EnableWAL turns on the write-ahead case log (used where a case can kill or
// hang the process).
func (c *Ctx) EnableWAL() {
	if c.wal != nil || c.WorkDir == "" {
		return
	}
	f, err := os.Create(filepath.Join(c.WorkDir, fmt.Sprintf("wal-%d.log", c.Shard)))
	if err == nil {
		c.wal = f
	}
}

// Begin records the case about to be executed.
func (c *Ctx) Begin(enc string) {
	c.curCase = enc
	if c.wal != nil {
		c.wal.Seek(0, 0)
		c.wal.Truncate(0)
		fmt.Fprintf(c.wal, "%d\n%s\n", c.seq, enc)
	}
}

// Count records one executed case. enc is its canonical encoding (used for the
// distinct set when nontrivial).
func (c *Ctx) Count(enc string, nontrivial bool) {
	c.res.Evaluations++
	if nontrivial {
		if len(c.hashes) < c.maxHash {
			h := fnv.New64a()
			h.Write([]byte(enc))
			c.hashes[h.Sum64()] = struct{}{}
		} else {
			c.res.HashOverflow = true
		}
	}
	if len(c.res.Samples) < 4 && (c.res.Evaluations == 1 || c.res.Evaluations%997 == 0) {
		b, _ := json.Marshal(enc)
		c.res.Samples = append(c.res.Samples, b)
	}
}

// Sample adds a structured sample (at most a few are kept).
func (c *Ctx) Sample(v interface{}) {
	if len(c.res.Samples) >= 6 {
		return
	}
	b, err := json.Marshal(v)
	if err == nil {
		c.res.Samples = append(c.res.Samples, b)
	}
}

// Bucket increments a coverage bucket.
func (c *Ctx) Bucket(name string) { c.res.Buckets[name]++ }

// BucketN adds n to a coverage bucket.
func (c *Ctx) BucketN(name string, n int64) { c.res.Buckets[name] += n }

// Hook increments a hook-event counter.
func (c *Ctx) Hook(name string) { c.res.Hook[name]++ }

// Skip counts a case that was generated but not judged, with the reason.
func (c *Ctx) Skip(reason string) { c.res.Skipped[reason]++ }

// Note records a free-text note for the evidence file.
func (c *Ctx) Note(s string) {
	if len(c.res.Notes) < 20 {
		c.res.Notes = append(c.res.Notes, s)
	}
}

// Exhaustive records that a finite subspace was enumerated completely.
func (c *Ctx) Exhaustive(name string) {
	for _, e := range c.res.Exhaustive {
		if e == name {
			return
		}
	}
	c.res.Exhaustive = append(c.res.Exhaustive, name)
}

// Inconclusive records a reason the run cannot report "held".
func (c *Ctx) Inconclusive(reason string) {
	if len(c.res.Inconclusive) < 20 {
		c.res.Inconclusive = append(c.res.Inconclusive, reason)
	}
}

// KFEnabled reports whether KNOWN_FINDINGS.txt lists the given finding id as
// known for this property.
func (c *Ctx) KFEnabled(id string) bool { return c.kf[id] }

// Known records an observation attributed to a listed finding.
func (c *Ctx) Known(id, example string) {
	c.res.Known[id]++
	if _, ok := c.res.KnownExample[id]; !ok {
		c.res.KnownExample[id] = example
	}
}

// Violate records a violation of the given class.
func (c *Ctx) Violate(class, caseEnc, expected, observed string) {
	c.ViolateX(class, caseEnc, expected, observed, "", nil)
}

// ViolateX records a violation with a stack and extras.
func (c *Ctx) ViolateX(class, caseEnc, expected, observed, stack string, extra map[string]interface{}) {
	if v, ok := c.res.Violations[class]; ok {
		v.Count++
		return
	}
	if len(c.res.Violations) >= 200 {
		class = "overflow"
		if v, ok := c.res.Violations[class]; ok {
			v.Count++
			return
		}
	}
	c.res.Violations[class] = &Violation{
		Class: class, Shard: c.Shard, Seq: c.seq, Case: clip(caseEnc, 20000),
		Expected: clip(expected, 20000), Observed: clip(observed, 20000),
		Stack: stack, Extra: extra, Count: 1,
	}
	if c.Verbose {
		fmt.Printf("violation class=%s\n case=%s\n expected=%s\n observed=%s\n%s\n", class, caseEnc, expected, observed, stack)
	}
}

func clip(s string, n int) string {
	if len(s) > n {
		return s[:n] + "...(clipped)"
	}
	return s
}

// Guard runs fn and converts a panic into (panicked, value, site, stack).
// site is the list of innermost /repo function names (no line numbers).
func Guard(fn func()) (panicked bool, val interface{}, site string, stack string) {
	defer func() {
		if r := recover(); r != nil {
			panicked = true
			val = r
			site, stack = panicSite()
		}
	}()
	fn()
	return
}

func panicSite() (string, string) {
	pcs := make([]uintptr, 64)
	n := runtime.Callers(3, pcs)
	frames := runtime.CallersFrames(pcs[:n])
	var site []string
	var sb strings.Builder
	for {
		fr, more := frames.Next()
		fn := fr.Function
		if strings.Contains(fn, "github.com/go-gts/gts") {
			short := strings.TrimPrefix(fn, "github.com/go-gts/gts/")
			short = strings.TrimPrefix(short, "github.com/go-gts/")
			if len(site) < 3 {
				site = append(site, short)
			}
			fmt.Fprintf(&sb, "%s %s:%d\n", short, filepath.Base(fr.File), fr.Line)
		} else if len(site) == 0 && !strings.HasPrefix(fn, "runtime.") && !strings.Contains(fn, "verifharness") {
			fmt.Fprintf(&sb, "%s %s:%d\n", fn, filepath.Base(fr.File), fr.Line)
		}
		if !more {
			break
		}
	}
	return strings.Join(site, "<"), sb.String()
}

// Finish writes the worker's result files.
func (c *Ctx) Finish() error {
	c.res.DistinctCount = int64(len(c.hashes))
	if c.WorkDir == "" {
		return nil
	}
	b, err := json.Marshal(&c.res)
	if err != nil {
		return err
	}
	if err := os.WriteFile(filepath.Join(c.WorkDir, fmt.Sprintf("result-%d.json", c.Shard)), b, 0644); err != nil {
		return err
	}
	hb := make([]byte, 0, 8*len(c.hashes))
	var tmp [8]byte
	for h := range c.hashes {
		binary.LittleEndian.PutUint64(tmp[:], h)
		hb = append(hb, tmp[:]...)
	}
	if err := os.WriteFile(filepath.Join(c.WorkDir, fmt.Sprintf("hashes-%d.bin", c.Shard)), hb, 0644); err != nil {
		return err
	}
	if c.wal != nil {
		c.wal.Close()
		os.Remove(c.wal.Name())
	}
	return nil
}

// Res exposes the result (single-process use: replay and tests).
func (c *Ctx) Res() *Result { return &c.res }

// SortedKeys returns the sorted keys of a string-keyed counter map.
func SortedKeys(m map[string]int64) []string {
	ks := make([]string, 0, len(m))
	for k := range m {
		ks = append(ks, k)
	}
	sort.Strings(ks)
	return ks
}
