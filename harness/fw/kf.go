package fw

import (
	"bufio"
	"os"
	"strings"
)

// KFEntry is one line of KNOWN_FINDINGS.txt.
type KFEntry struct {
	Kind     string // "known" or "fixed"
	Property string
	ID       string
	Text     string
	Raw      string
}

// LoadKF parses the known-findings file. A missing file is an empty list.
// The file is only ever read, never written, by the machinery.
func LoadKF(path string) ([]KFEntry, error) {
	f, err := os.Open(path)
	if err != nil {
		if os.IsNotExist(err) {
			return nil, nil
		}
		return nil, err
	}
	defer f.Close()
	var out []KFEntry
	sc := bufio.NewScanner(f)
	sc.Buffer(make([]byte, 1<<20), 1<<20)
	for sc.Scan() {
		line := strings.TrimSpace(sc.Text())
		if line == "" || strings.HasPrefix(line, "#") {
			continue
		}
		var e KFEntry
		e.Raw = line
		switch {
		case strings.HasPrefix(line, "known:"):
			e.Kind = "known"
			line = strings.TrimSpace(strings.TrimPrefix(line, "known:"))
		case strings.HasPrefix(line, "fixed:"):
			e.Kind = "fixed"
			line = strings.TrimSpace(strings.TrimPrefix(line, "fixed:"))
		default:
			continue
		}
		head := line
		if i := strings.Index(line, "::"); i >= 0 {
			head = line[:i]
			e.Text = strings.TrimSpace(line[i+2:])
		}
		for _, tok := range strings.Fields(head) {
			if strings.HasPrefix(tok, "property=") {
				e.Property = strings.TrimPrefix(tok, "property=")
			}
			if strings.HasPrefix(tok, "id=") {
				e.ID = strings.TrimPrefix(tok, "id=")
			}
		}
		if e.Text == "" {
			e.Text = head
		}
		out = append(out, e)
	}
	return out, sc.Err()
}

// KnownIDs returns the ids listed as known (not fixed) for a property.
func KnownIDs(entries []KFEntry, prop string) map[string]bool {
	m := map[string]bool{}
	for _, e := range entries {
		if e.Kind == "known" && e.Property == prop && e.ID != "" {
			m[e.ID] = true
		}
	}
	return m
}
