module verifharness

go 1.21

require (
	github.com/go-gts/gts v0.0.0
	github.com/go-pars/pars v1.1.6
)

require (
	github.com/go-ascii/ascii v1.0.3 // indirect
	github.com/go-flip/flip v1.1.0 // indirect
	github.com/go-gts/flags v0.0.12 // indirect
	github.com/go-wrap/wrap v1.0.3 // indirect
)

replace github.com/go-gts/gts => /repo
