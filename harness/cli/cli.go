// Package cli drives the real gts binary (built from /repo's working tree
// with the verif tag) in a scratch environment: HOME, XDG_CACHE_HOME and
// TMPDIR point into a scratch directory, stdin is always bound, every
// invocation has a watchdog.
package cli

import (
	"bufio"
	"bytes"
	"context"
	"encoding/json"
	"os"
	"os/exec"
	"path/filepath"
	"syscall"
	"time"
)

// Env is one scratch environment (one cache directory).
type Env struct {
	Bin  string
	Root string
}

// Result of one invocation.
type Result struct {
	Stdout   []byte
	Stderr   []byte
	Exit     int
	Signaled bool
	TimedOut bool
	Err      error
}

// New creates the scratch directories under root.
func New(bin, root string) (*Env, error) {
	e := &Env{Bin: bin, Root: root}
	for _, d := range []string{"home", "cache", "tmp", "files"} {
		if err := os.MkdirAll(filepath.Join(root, d), 0755); err != nil {
			return nil, err
		}
	}
	return e, nil
}

// CacheDir is where gts keeps its entries.
func (e *Env) CacheDir() string { return filepath.Join(e.Root, "cache", "gts-cache") }

// TracePath is the H2 event log.
func (e *Env) TracePath() string { return filepath.Join(e.Root, "trace.jsonl") }

// File returns a path under the scratch files directory.
func (e *Env) File(name string) string { return filepath.Join(e.Root, "files", name) }

// ResetCache empties the cache directory and the trace.
func (e *Env) ResetCache() {
	os.RemoveAll(filepath.Join(e.Root, "cache"))
	os.MkdirAll(filepath.Join(e.Root, "cache"), 0755)
	os.Remove(e.TracePath())
	// stray temporary inputs of killed invocations.
	os.RemoveAll(filepath.Join(e.Root, "tmp"))
	os.MkdirAll(filepath.Join(e.Root, "tmp"), 0755)
}

// Run executes gts with the given arguments; stdin is always bound (nil means
// an empty stdin). extra are additional environment entries.
func (e *Env) Run(args []string, stdin []byte, extra []string, timeout time.Duration) Result {
	return e.run(args, stdin, -1, extra, timeout)
}

// RunFile is Run with stdin bound to a regular file (as in `gts cmd < file`)
// whose read position is offset bytes into it (0: the usual case; > 0: an
// earlier reader of the same descriptor has consumed a part).
func (e *Env) RunFile(args []string, stdin []byte, offset int, extra []string, timeout time.Duration) Result {
	return e.run(args, stdin, offset, extra, timeout)
}

func (e *Env) run(args []string, stdin []byte, offset int, extra []string, timeout time.Duration) Result {
	ctx, cancel := context.WithTimeout(context.Background(), timeout)
	defer cancel()
	cmd := exec.CommandContext(ctx, e.Bin, args...)
	cmd.Dir = filepath.Join(e.Root, "files")
	cmd.Env = append([]string{
		"HOME=" + filepath.Join(e.Root, "home"),
		"XDG_CACHE_HOME=" + filepath.Join(e.Root, "cache"),
		"TMPDIR=" + filepath.Join(e.Root, "tmp"),
		"PATH=/usr/bin:/bin",
		"GTS_VERIF_TRACE=" + e.TracePath(),
	}, extra...)
	if stdin == nil {
		stdin = []byte{}
	}
	cmd.Stdin = bytes.NewReader(stdin)
	if offset >= 0 {
		p := filepath.Join(e.Root, "stdin.dat")
		if err := os.WriteFile(p, stdin, 0644); err != nil {
			return Result{Exit: -1, Err: err}
		}
		f, err := os.Open(p)
		if err != nil {
			return Result{Exit: -1, Err: err}
		}
		defer f.Close()
		if _, err := f.Seek(int64(offset), 0); err != nil {
			return Result{Exit: -1, Err: err}
		}
		cmd.Stdin = f
	}
	var out, errb bytes.Buffer
	cmd.Stdout = &out
	cmd.Stderr = &errb
	err := cmd.Run()
	r := Result{Stdout: out.Bytes(), Stderr: errb.Bytes(), Err: err}
	if ctx.Err() == context.DeadlineExceeded {
		r.TimedOut = true
	}
	if cmd.ProcessState != nil {
		r.Exit = cmd.ProcessState.ExitCode()
		if ws, ok := cmd.ProcessState.Sys().(syscall.WaitStatus); ok && ws.Signaled() {
			r.Signaled = true
		}
	} else {
		r.Exit = -1
	}
	return r
}

// Event is one H1/H2 trace line.
type Event struct {
	Pid    int    `json:"pid"`
	Ev     string `json:"ev"`
	Point  string `json:"point"`
	Hit    int    `json:"hit"`
	Reason string `json:"reason"`
	File   string `json:"file"`
	Action string `json:"action"`
}

// ReadTrace returns the events logged since the trace was last truncated.
func (e *Env) ReadTrace() []Event {
	f, err := os.Open(e.TracePath())
	if err != nil {
		return nil
	}
	defer f.Close()
	var out []Event
	sc := bufio.NewScanner(f)
	sc.Buffer(make([]byte, 1<<20), 1<<20)
	for sc.Scan() {
		var ev Event
		if json.Unmarshal(sc.Bytes(), &ev) == nil {
			out = append(out, ev)
		}
	}
	return out
}

// TruncTrace empties the event log.
func (e *Env) TruncTrace() { os.Remove(e.TracePath()) }
