package gen

import (
	"fmt"
	"math/rand"
	"strings"
	"time"

	"github.com/go-gts/gts"
	"github.com/go-gts/gts/seqio"
)

// GBOpt tunes the GenBank record generator (model M4, core domain).
type GBOpt struct {
	MaxLen      int
	MaxFeatures int
	ContigOnly  bool // allow CONTIG-only records
}

var gbWords = []string{"SOURCE", "TITLE", "ORIGIN", "REFERENCE", "FEATURES", "Escherichia", "coli", "phage", "protein", "synthetic", "construct", "plasmid", "vector", "complete", "genome", "strain", "K-12", "hypothetical", "DNA", "sequence", "of", "the", "and", "region", "alpha", "beta", "3'", "(partial)", "cds,", "isolate:", "x=1", "a/b", "[v2]", "50%", "sp.", "100%d"}

func words(r *rand.Rand, n int) string {
	ss := make([]string, n)
	for i := range ss {
		ss[i] = gbWords[r.Intn(len(gbWords))]
	}
	return strings.Join(ss, " ")
}

func upper(r *rand.Rand, n int) string {
	b := make([]byte, n)
	for i := range b {
		b[i] = byte('A' + r.Intn(26))
	}
	return string(b)
}

var molecules = []gts.Molecule{gts.DNA, gts.RNA, gts.AA, gts.SingleStrandDNA, gts.DoubleStrandDNA}

// RandDate draws a valid calendar date, biased to month ends and leap days.
func RandDate(r *rand.Rand) seqio.Date {
	y := 1970 + r.Intn(131)
	switch r.Intn(6) {
	case 0:
		y = []int{2000, 2004, 1996, 2024, 2400, 1600}[r.Intn(6)]
		return seqio.Date{Year: y, Month: time.February, Day: 29}
	case 1:
		m := time.Month(1 + r.Intn(12))
		last := time.Date(y, m+1, 0, 0, 0, 0, 0, time.UTC).Day()
		return seqio.Date{Year: y, Month: m, Day: last}
	case 2:
		return seqio.Date{Year: y, Month: time.Month(1 + r.Intn(12)), Day: 1}
	}
	m := time.Month(1 + r.Intn(12))
	last := time.Date(y, m+1, 0, 0, 0, 0, 0, time.UTC).Day()
	return seqio.Date{Year: y, Month: m, Day: 1 + r.Intn(last)}
}

// qualifier names by kind. Unknown names carry their kind in the name so the
// process-global registries always learn the same kind for them.
var (
	quotedNames  = []string{"note", "gene", "product", "locus_tag", "db_xref", "function", "organism", "translation", "zq_custom", "zq_other"}
	literalNames = []string{"codon_start", "transl_table", "number", "citation", "zl_custom"}
	toggleNames  = []string{"pseudo", "partial", "ribosomal_slippage", "zt_custom"}
)

func quotedValue(r *rand.Rand) string {
	switch r.Intn(9) {
	case 7:
		// two paragraphs: an empty line inside the value, text after it.
		return words(r, 2) + "\n\n" + words(r, 3)
	case 8:
		return words(r, 1) + "\n\n" + words(r, 2) + "\n" + words(r, 1) + "\n\n" + words(r, 1)
	case 0:
		return ""
	case 1:
		return words(r, 12+r.Intn(10)) // long, not wrapped by the writer
	case 2:
		return words(r, 3) + "\n" + words(r, 4) // multi-line
	case 3:
		return words(r, 2) + "\n" + words(r, 2) + "\n" + words(r, 1)
	case 4:
		return "GO:" + fmt.Sprint(r.Intn(99999)) + "; x=y /z"
	default:
		return words(r, 1+r.Intn(4))
	}
}

// literalValue draws the value of an unquoted qualifier: mostly a number, also
// the parenthesised forms of the INSDC vocabulary, and values that hold a line
// break with the parentheses of the first line balanced or still open.
func literalValue(r *rand.Rand) string {
	a, b := 1+r.Intn(40), 50+r.Intn(40)
	switch r.Intn(8) {
	case 0:
		return fmt.Sprintf("(pos:%d..%d,aa:Met)", a, a+2)
	case 1:
		return fmt.Sprintf("%d..%d,\n%d..%d", a, a+3, b, b+3)
	case 2:
		return fmt.Sprintf("(pos:%d..%d,\naa:Sec)", a, a+2)
	case 3:
		return fmt.Sprintf("(%d)%d,\n%d", a, b, a+b)
	default:
		return fmt.Sprint(1 + r.Intn(11))
	}
}

// RandProps draws qualifiers of all three kinds, grouped by name (as
// Props.Add does), always starting with a unique /label.
func RandProps(r *rand.Rand, label string) gts.Props {
	p := gts.Props{}
	p.Add("label", label)
	n := r.Intn(5)
	for i := 0; i < n; i++ {
		switch r.Intn(4) {
		case 0:
			p.Add(literalNames[r.Intn(len(literalNames))], literalValue(r))
		case 1:
			name := toggleNames[r.Intn(len(toggleNames))]
			if !p.Has(name) {
				p.Add(name, "")
			}
		default:
			p.Add(quotedNames[r.Intn(len(quotedNames))], quotedValue(r))
		}
	}
	return p
}

var gbKeys = []string{"gene", "CDS", "misc_feature", "exon", "mRNA", "repeat_region", "primer_bind", "rep_origin", "sig_peptide", "misc_difference", "regulatory", "5'UTR", "3'UTR", "D-loop", "-10_signal"}

// RandGenBank draws a record of the core writable domain.
func RandGenBank(r *rand.Rand, o GBOpt, labelPrefix string) seqio.GenBank {
	L := 0
	if o.MaxLen > 0 {
		switch r.Intn(8) {
		case 0:
			L = 0
		case 1:
			L = []int{1, 9, 10, 11, 59, 60, 61, 119, 120, 121}[r.Intn(10)]
			if L > o.MaxLen {
				L = o.MaxLen
			}
		default:
			L = 1 + r.Intn(o.MaxLen)
		}
	}
	f := seqio.GenBankFields{
		LocusName: []string{"AB000001", "NC_001422", "pX", "locus_with_a_rather_long_name", "X"}[r.Intn(5)],
		Molecule:  molecules[r.Intn(len(molecules))],
		Topology:  []gts.Topology{gts.Linear, gts.Circular}[r.Intn(2)],
		Date:      RandDate(r),
	}
	if r.Intn(4) != 0 {
		f.Division = upper(r, 3)
	}
	switch r.Intn(5) {
	case 0:
	case 1:
		f.Definition = words(r, 3) + "\n" + words(r, 5)
		if r.Intn(3) == 0 {
			// a middle line that ends in blanks (they are text).
			f.Definition = words(r, 2) + "\n" + words(r, 2) + "  \n" + words(r, 2)
		}
	case 2:
		f.Definition = words(r, 14+r.Intn(10))
	case 3:
		f.Definition = words(r, 2) + "."
	default:
		f.Definition = words(r, 1+r.Intn(5))
	}
	if r.Intn(5) != 0 {
		f.Accession = "AB" + fmt.Sprint(100000+r.Intn(899999))
		if r.Intn(3) != 0 {
			f.Version = f.Accession + "." + fmt.Sprint(1+r.Intn(9))
		}
	}
	for i, n := 0, r.Intn(4); i < n; i++ {
		f.DBLink = append(f.DBLink, seqio.Pair{Key: []string{"BioProject", "BioSample", "Assembly", "Sequence Read Archive"}[i], Value: []string{"PRJNA" + fmt.Sprint(r.Intn(99999)), "SAMN0" + fmt.Sprint(r.Intn(9999)), "GCF_000005845.2", "", "ti:123456", "a:b:c"}[r.Intn(6)]})
	}
	for i, n := 0, r.Intn(9); i < n; i++ {
		f.Keywords = append(f.Keywords, words(r, 1+r.Intn(3)))
	}
	if len(f.Keywords) > 0 && r.Intn(4) == 0 {
		// an entry that ends in a period of its own, in the last place too.
		f.Keywords[len(f.Keywords)-1] = "unclassified Bacillus sp."
	}
	if r.Intn(5) != 0 {
		f.Source.Species = words(r, 1+r.Intn(5))
		f.Source.Name = words(r, 1+r.Intn(4))
		for i, n := 0, r.Intn(12); i < n; i++ {
			f.Source.Taxon = append(f.Source.Taxon, gbWords[r.Intn(len(gbWords))])
		}
		if len(f.Source.Taxon) > 0 && r.Intn(4) == 0 {
			f.Source.Taxon[len(f.Source.Taxon)-1] = "Bacillus spp."
		}
	}
	for i, n := 0, r.Intn(4); i < n; i++ {
		ref := seqio.Reference{Number: i + 1}
		if r.Intn(6) == 0 {
			// records with many references: two- and three-digit numbers.
			ref.Number = []int{10, 24, 99, 100, 101, 250, 999, 1000, 12345}[r.Intn(9)] + i
		}
		if L > 0 && r.Intn(3) != 0 {
			a := r.Intn(L)
			ref.Info = fmt.Sprintf("(%s %d to %d)", f.Molecule.Counter(), a+1, a+1+r.Intn(L-a))
		} else if r.Intn(2) == 0 {
			ref.Info = "(sites)"
		}
		if r.Intn(2) == 0 {
			ref.Authors = "Sanger,F., Coulson,A.R. and\nFriedmann,T."
		}
		if r.Intn(4) == 0 {
			ref.Group = words(r, 2)
		}
		if r.Intn(2) == 0 {
			ref.Title = words(r, 4+r.Intn(8))
			if r.Intn(3) == 0 {
				ref.Title += "\n" + words(r, 3)
			}
		}
		if r.Intn(2) == 0 {
			ref.Journal = "J. Mol. Biol. " + fmt.Sprint(r.Intn(300)) + " (2), 225-246 (1978)"
		}
		if r.Intn(3) == 0 {
			ref.Xref = map[string]string{"PUBMED": fmt.Sprint(100000 + r.Intn(899999))}
		}
		if r.Intn(4) == 0 {
			ref.Comment = words(r, 3)
			if r.Intn(3) == 0 {
				ref.Comment += "\n\n" + words(r, 2)
			}
		}
		f.References = append(f.References, ref)
	}
	for i, n := 0, r.Intn(3); i < n; i++ {
		cm := words(r, 2+r.Intn(6))
		if r.Intn(2) == 0 {
			cm += "\n" + words(r, 3)
		}
		if r.Intn(4) == 0 {
			cm += "\n\n" + words(r, 4) // paragraph break, as in RefSeq comments
		}
		if r.Intn(5) == 0 {
			// lines inside the value that end in blanks (the blanks are text).
			cm += " \n" + words(r, 2) + "  \n" + words(r, 1+r.Intn(3))
		}
		f.Comments = append(f.Comments, cm)
		if r.Intn(8) == 0 {
			f.Comments = append(f.Comments, "") // a COMMENT line with nothing on it
		}
	}
	for i, n := 0, r.Intn(3); i < n; i++ {
		f.Extra = append(f.Extra, seqio.GenBankExtraField([]string{"PRIMARY", "PROJECT", "SEGMENT", "BASE"}[r.Intn(4)], words(r, r.Intn(5))))
	}
	var tab []gts.Feature
	if L > 0 && o.MaxFeatures > 0 {
		nf := r.Intn(o.MaxFeatures + 1)
		lo := LocOpt{L: L, MaxParts: 4, MaxDepth: 2, Ambiguous: true, Sites: L > 1, Overlap: r.Intn(4) == 0}
		for i := 0; i < nf; i++ {
			key := gbKeys[r.Intn(len(gbKeys))]
			if i == 0 && r.Intn(2) == 0 {
				key = "source"
			}
			loc := RandLoc(r, lo)
			if key == "source" {
				loc = gts.Range(0, L)
			}
			tab = append(tab, gts.Feature{Key: key, Loc: loc, Props: RandProps(r, fmt.Sprintf("%s%d", labelPrefix, i))})
		}
	}
	gb := seqio.GenBank{Fields: f, Table: SortedTable(tab), Origin: seqio.NewOrigin(nil)}
	if L > 0 {
		b := make([]byte, L)
		letters := "acgtacgtacgtnrykm"
		if r.Intn(6) == 0 {
			// a protein or an aligned row: stops and gaps are residues too.
			letters = "ACDEFGHIKLMNPQRSTVWY*-.acgt"
		}
		for i := range b {
			b[i] = letters[r.Intn(len(letters))]
		}
		gb.Origin = seqio.NewOrigin(b)
	} else if o.ContigOnly && r.Intn(2) == 0 {
		a := r.Intn(1000)
		gb.Fields.Contig = seqio.Contig{Accession: "NC_0" + fmt.Sprint(10000+r.Intn(89999)) + "." + fmt.Sprint(1+r.Intn(3)), Region: gts.Segment{a, a + 1 + r.Intn(5000)}}
	}
	return gb
}
