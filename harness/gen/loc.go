// Package gen holds the seeded generators and the systematic enumerators.
package gen

import (
	"math/rand"

	"github.com/go-gts/gts"
)

// Leaves enumerates every contiguous location over residues [0,L):
// points, between-sites (0..L), ranges with every partial combination and
// ambiguous spans.
func Leaves(L int, allPartials, ambiguous bool) []gts.Location {
	var out []gts.Location
	for p := 0; p < L; p++ {
		out = append(out, gts.Point(p))
	}
	for g := 0; g <= L; g++ {
		out = append(out, gts.Between(g))
	}
	partials := []gts.Partial{gts.Complete}
	if allPartials {
		partials = []gts.Partial{gts.Complete, gts.Partial5, gts.Partial3, gts.PartialBoth}
	}
	for s := 0; s < L; s++ {
		for e := s + 1; e <= L; e++ {
			for _, pt := range partials {
				out = append(out, gts.PartialRange(s, e, pt))
			}
		}
	}
	if ambiguous {
		for s := 0; s < L; s++ {
			for e := s + 1; e <= L; e++ {
				out = append(out, gts.Ambiguous{Start: s, End: e})
			}
		}
	}
	return out
}

type span struct{ lo, hi int }

func spanOf(l gts.Location) span {
	switch v := l.(type) {
	case gts.Point:
		return span{int(v), int(v) + 1}
	case gts.Between:
		return span{int(v), int(v)}
	case gts.Ranged:
		return span{v.Start, v.End}
	case gts.Ambiguous:
		return span{v.Start, v.End}
	}
	return span{}
}

// listLeaves is the reduced leaf set used inside joins/orders of the
// systematic universe (keeps the enumeration small): points, sites, complete
// ranges; outer partial markers are added by the caller.
func listLeaves(L int) []gts.Location {
	var out []gts.Location
	for p := 0; p < L; p++ {
		out = append(out, gts.Point(p))
	}
	for g := 1; g < L; g++ {
		out = append(out, gts.Between(g))
	}
	for s := 0; s < L; s++ {
		for e := s + 2; e <= L; e++ {
			out = append(out, gts.Range(s, e))
		}
	}
	return out
}

// Universe enumerates a systematic set of locations over [0,L): all leaves,
// all strictly increasing gap>=1 joins and orders of 2..maxArity reduced
// leaves (with the outer ends optionally partial), one origin-spanning
// ordering of each 2-part list, and the complement of everything.
func Universe(L, maxArity int) []gts.Location {
	base := Leaves(L, true, true)
	ll := listLeaves(L)
	var lists [][]gts.Location
	var rec func(cur []gts.Location, from int)
	rec = func(cur []gts.Location, from int) {
		if len(cur) >= 2 {
			cp := make([]gts.Location, len(cur))
			copy(cp, cur)
			lists = append(lists, cp)
		}
		if len(cur) == maxArity {
			return
		}
		for _, l := range ll {
			sp := spanOf(l)
			if sp.lo < from {
				continue
			}
			nf := sp.hi + 1
			if sp.lo == sp.hi {
				nf = sp.hi + 1
			}
			rec(append(cur, l), nf)
		}
	}
	rec(nil, 0)
	for _, parts := range lists {
		base = append(base, gts.Join(parts...))
		base = append(base, gts.Order(parts...))
		// outer partial ends when the outer parts are ranges.
		first, fok := parts[0].(gts.Ranged)
		last, lok := parts[len(parts)-1].(gts.Ranged)
		if fok || lok {
			cp := make([]gts.Location, len(parts))
			copy(cp, parts)
			if fok {
				first.Partial = gts.Partial5
				cp[0] = first
			}
			if lok {
				last.Partial = gts.Partial3
				cp[len(cp)-1] = last
			}
			base = append(base, gts.Join(cp...))
		}
		if len(parts) == 2 {
			// origin-spanning spelling: high part first.
			base = append(base, gts.Join(parts[1], parts[0]))
		}
	}
	n := len(base)
	for i := 0; i < n; i++ {
		base = append(base, base[i].Complement())
	}
	return base
}

// LocOpt tunes the random location generator.
type LocOpt struct {
	L         int  // sequence length; coordinates stay within [0,L]
	MaxParts  int  // max list arity
	MaxDepth  int  // nesting depth of lists/complements
	Ambiguous bool // allow ambiguous spans
	Overlap   bool // allow overlapping / unsorted list members
	Sites     bool // allow between-sites
}

// RandLeaf draws a contiguous location inside [lo,hi) (hi>lo).
func RandLeaf(r *rand.Rand, lo, hi int, o LocOpt) gts.Location {
	n := hi - lo
	k := r.Intn(10)
	switch {
	case k == 0 && o.Sites:
		return gts.Between(lo + r.Intn(n+1))
	case k <= 2 || n == 1:
		return gts.Point(lo + r.Intn(n))
	case k == 3 && o.Ambiguous && n >= 2:
		s := lo + r.Intn(n-1)
		e := s + 2 + r.Intn(hi-s-1)
		return gts.Ambiguous{Start: s, End: e}
	default:
		s := lo + r.Intn(n)
		e := s + 1 + r.Intn(hi-s)
		pt := gts.Partial{}
		if r.Intn(4) == 0 {
			pt.Partial5 = true
		}
		if r.Intn(4) == 0 {
			pt.Partial3 = true
		}
		return gts.PartialRange(s, e, pt)
	}
}

// RandLoc draws a location over [0,L) built with the public constructors.
func RandLoc(r *rand.Rand, o LocOpt) gts.Location {
	return randLoc(r, o, o.MaxDepth)
}

func randLoc(r *rand.Rand, o LocOpt, depth int) gts.Location {
	if o.L < 1 {
		return gts.Between(0)
	}
	if depth <= 0 || r.Intn(3) == 0 {
		l := RandLeaf(r, 0, o.L, o)
		if r.Intn(4) == 0 {
			return l.Complement()
		}
		return l
	}
	switch r.Intn(5) {
	case 0:
		return randLoc(r, o, depth-1).Complement()
	default:
		k := 2 + r.Intn(max(1, o.MaxParts-1))
		parts := randParts(r, o, k, depth-1)
		var l gts.Location
		if r.Intn(4) == 0 {
			l = gts.Order(parts...)
		} else {
			l = gts.Join(parts...)
		}
		if r.Intn(3) == 0 {
			return l.Complement()
		}
		return l
	}
}

// randParts draws k list members. Without Overlap they are sorted,
// non-overlapping and separated by at least one residue (so no reduction
// fires); with Overlap anything goes.
func randParts(r *rand.Rand, o LocOpt, k, depth int) []gts.Location {
	if o.Overlap && r.Intn(3) == 0 {
		parts := make([]gts.Location, k)
		for i := range parts {
			if depth > 0 && r.Intn(6) == 0 {
				parts[i] = randLoc(r, o, depth-1)
			} else {
				parts[i] = RandLeaf(r, 0, o.L, o)
			}
		}
		return parts
	}
	// choose 2k cut points.
	if o.L < 2*k {
		k = max(1, o.L/2)
	}
	var parts []gts.Location
	lo := 0
	for i := 0; i < k; i++ {
		remain := k - i - 1
		maxHi := o.L - 2*remain
		if lo >= maxHi {
			break
		}
		s := lo + r.Intn(max(1, (maxHi-lo+1)/2))
		if s >= maxHi {
			s = maxHi - 1
		}
		e := s + 1 + r.Intn(max(1, (maxHi-s+1)/2))
		if e > maxHi {
			e = maxHi
		}
		l := RandLeaf(r, s, e, o)
		if depth > 0 && r.Intn(8) == 0 {
			l = l.Complement()
		}
		parts = append(parts, l)
		lo = e + 1
	}
	if len(parts) == 0 {
		parts = append(parts, RandLeaf(r, 0, o.L, o))
	}
	if o.Overlap && r.Intn(4) == 0 && len(parts) > 1 {
		// origin-spanning / unsorted spelling.
		r.Shuffle(len(parts), func(i, j int) { parts[i], parts[j] = parts[j], parts[i] })
	}
	return parts
}

func max(a, b int) int {
	if a > b {
		return a
	}
	return b
}

// UniqueBytes returns n pairwise distinct bytes that gts.Complement leaves
// unchanged (no IUPAC nucleotide letters), starting at offset off in the
// pool; n+off must be <= len(pool) (at most 220).
func UniqueBytes(off, n int) []byte {
	return append([]byte(nil), idPool[off:off+n]...)
}

// UniquePoolSize is how many unique complement-invariant ids exist.
var UniquePoolSize int

var idPool []byte

func init() {
	skip := map[byte]bool{}
	for _, c := range []byte("ACGTURYKMBDHVacgturykmbdhv") {
		skip[c] = true
	}
	// printable first so text formats can carry them, then the rest.
	for c := 33; c <= 126; c++ {
		if !skip[byte(c)] && c != '>' {
			idPool = append(idPool, byte(c))
		}
	}
	for c := 128; c < 256; c++ {
		idPool = append(idPool, byte(c))
	}
	UniquePoolSize = len(idPool)
}

// PrintableUnique is the number of leading pool entries that are printable
// ASCII (33..126, not '>' and not an IUPAC letter).
func PrintableUnique() int {
	n := 0
	for _, c := range idPool {
		if c >= 33 && c <= 126 {
			n++
		}
	}
	return n
}
