package gen

// Structure-aware mutation operators of the C07 workload (DESIGN Appendix D)
// and the base texts they are applied to.

import (
	"bytes"
	"fmt"
	"math/rand"
	"strconv"
	"strings"
	"time"

	"github.com/go-gts/gts"
	"github.com/go-gts/gts/seqio"
)

// C07TextOps are the line-aware operators on GenBank / FASTA / table text.
var C07TextOps = []string{
	"truncate", "delete-line", "dup-line", "swap-lines", "flip-byte",
	"indent-shrink", "indent-grow", "collapse-spaces", "drop-value",
	"rewrite-numbers", "declared-length", "crlf-all", "crlf-line",
	"splice", "remove-terminator", "dup-origin",
}

// C07DeclaredKinds are the rewrites of a declared LOCUS length.
var C07DeclaredKinds = []string{"minus1", "plus1", "minus60", "plus60", "zero", "1e9", "other"}

// c07Lines splits text into lines that keep their terminator ("\n" or "\r\n").
func c07Lines(text []byte) [][]byte {
	var out [][]byte
	for len(text) > 0 {
		i := bytes.IndexByte(text, '\n')
		if i < 0 {
			out = append(out, text)
			break
		}
		out = append(out, text[:i+1])
		text = text[i+1:]
	}
	return out
}

func c07Join(lines [][]byte) []byte {
	n := 0
	for _, l := range lines {
		n += len(l)
	}
	out := make([]byte, 0, n)
	for _, l := range lines {
		out = append(out, l...)
	}
	return out
}

// c07Body splits a line into body and terminator.
func c07Body(line []byte) (body, term []byte) {
	n := len(line)
	switch {
	case n >= 2 && line[n-2] == '\r' && line[n-1] == '\n':
		return line[:n-2], line[n-2:]
	case n >= 1 && line[n-1] == '\n':
		return line[:n-1], line[n-1:]
	}
	return line, nil
}

func c07Cat(parts ...[]byte) []byte {
	var out []byte
	for _, p := range parts {
		out = append(out, p...)
	}
	return out
}

// C07ToCRLF converts every bare LF to CRLF.
func C07ToCRLF(text []byte) []byte {
	out := make([]byte, 0, len(text)+len(text)/40+8)
	for i, b := range text {
		if b == '\n' && (i == 0 || text[i-1] != '\r') {
			out = append(out, '\r')
		}
		out = append(out, b)
	}
	return out
}

// C07ToLF converts every CRLF to LF.
func C07ToLF(text []byte) []byte {
	return bytes.ReplaceAll(text, []byte("\r\n"), []byte("\n"))
}

var c07InterestingBytes = []byte{' ', ' ', '\n', '\r', '\t', '"', '\\', ':', '/', '=', '.', ',', '(', ')', '0', '9', '-', '>', 'A', 'a', 0, 0x7f, 0x80, 0xff}

// spaceRuns lists [start,end) of the runs of spaces in body.
func c07SpaceRuns(body []byte) [][2]int {
	var out [][2]int
	for i := 0; i < len(body); {
		if body[i] != ' ' {
			i++
			continue
		}
		j := i
		for j < len(body) && body[j] == ' ' {
			j++
		}
		out = append(out, [2]int{i, j})
		i = j
	}
	return out
}

func c07RewriteNumber(r *rand.Rand, n int64) string {
	switch r.Intn(9) {
	case 0:
		return strconv.FormatInt(n+1, 10)
	case 1:
		return strconv.FormatInt(n-1, 10)
	case 2:
		return strconv.FormatInt(n+60, 10)
	case 3:
		return strconv.FormatInt(n-60, 10)
	case 4:
		return "0"
	case 5:
		return "1000000000"
	case 6:
		return strconv.FormatInt(r.Int63n(2*n+10), 10)
	case 7:
		return []string{"9223372036854775807", "9223372036854775808", "7000000000000000000", "99999999999999999999", "-1", "007", "4294967296"}[r.Intn(7)]
	}
	return strconv.FormatInt(n*60, 10)
}

// c07ReplaceNumber replaces digits [i,j) of body by s; keepWidth eats or adds
// spaces on the left so that the right edge of the number stays in place.
func c07ReplaceNumber(body []byte, i, j int, s string, keepWidth bool) []byte {
	if keepWidth {
		d := len(s) - (j - i)
		for d > 0 && i > 1 && body[i-1] == ' ' && body[i-2] == ' ' {
			i--
			d--
		}
		for d < 0 {
			s = " " + s
			d++
		}
	}
	return c07Cat(body[:i], []byte(s), body[j:])
}

// c07FindDeclared locates the digits of the declared length in a LOCUS line.
func c07FindDeclared(body []byte) (i, j int, ok bool) {
	if !bytes.HasPrefix(body, []byte("LOCUS")) {
		return
	}
	for _, unit := range []string{" bp", " aa"} {
		k := bytes.Index(body, []byte(unit))
		if k <= 0 {
			continue
		}
		j = k
		i = j
		for i > 0 && body[i-1] >= '0' && body[i-1] <= '9' {
			i--
		}
		if i < j {
			return i, j, true
		}
	}
	return 0, 0, false
}

// C07SetDeclared rewrites the declared length of the k-th LOCUS line.
func C07SetDeclared(text []byte, k int, val string, keepWidth bool) ([]byte, bool) {
	lines := c07Lines(text)
	for li, l := range lines {
		body, term := c07Body(l)
		i, j, ok := c07FindDeclared(body)
		if !ok {
			continue
		}
		if k > 0 {
			k--
			continue
		}
		lines[li] = c07Cat(c07ReplaceNumber(body, i, j, val, keepWidth), term)
		return c07Join(lines), true
	}
	return text, false
}

// c07OriginBlocks lists [first,last) line ranges of ORIGIN blocks (header line
// and the residue lines after it, up to the next line that starts in column 0
// with something other than a digit).
func c07OriginBlocks(lines [][]byte) [][2]int {
	var out [][2]int
	for i := 0; i < len(lines); i++ {
		if !bytes.HasPrefix(lines[i], []byte("ORIGIN")) {
			continue
		}
		j := i + 1
		for j < len(lines) && len(lines[j]) > 0 && (lines[j][0] == ' ' || (lines[j][0] >= '0' && lines[j][0] <= '9')) {
			j++
		}
		out = append(out, [2]int{i, j})
		i = j - 1
	}
	return out
}

// C07Apply applies one operator. other is a second text for "splice". ok is
// false when the operator does not apply to this text (nothing changed).
func C07Apply(r *rand.Rand, op string, text, other []byte) (out []byte, detail string, ok bool) {
	if len(text) == 0 {
		return text, "", false
	}
	lines := c07Lines(text)
	pickLine := func() int { return r.Intn(len(lines)) }
	switch op {
	case "truncate":
		k := r.Intn(len(text))
		if r.Intn(3) == 0 {
			// cut at a line boundary or just before the line end.
			li := pickLine()
			k = 0
			for i := 0; i < li; i++ {
				k += len(lines[i])
			}
			if r.Intn(2) == 0 {
				b, _ := c07Body(lines[li])
				k += len(b)
			}
		}
		return append([]byte(nil), text[:k]...), fmt.Sprintf("at=%d", k), true
	case "delete-line":
		i := pickLine()
		n := 1
		if r.Intn(4) == 0 {
			n += r.Intn(3)
		}
		if i+n > len(lines) {
			n = len(lines) - i
		}
		out := append(append([][]byte{}, lines[:i]...), lines[i+n:]...)
		return c07Join(out), fmt.Sprintf("line=%d n=%d", i, n), true
	case "dup-line":
		i := pickLine()
		at := i + 1
		if r.Intn(4) == 0 {
			at = r.Intn(len(lines) + 1)
		}
		l := lines[i]
		if _, term := c07Body(l); term == nil {
			l = c07Cat(l, []byte("\n"))
		}
		out := append(append(append([][]byte{}, lines[:at]...), l), lines[at:]...)
		return c07Join(out), fmt.Sprintf("line=%d to=%d", i, at), true
	case "swap-lines":
		if len(lines) < 2 {
			return text, "", false
		}
		i := r.Intn(len(lines) - 1)
		j := i + 1
		if r.Intn(2) == 0 {
			j = pickLine()
		}
		if i == j {
			return text, "", false
		}
		cp := append([][]byte{}, lines...)
		cp[i], cp[j] = cp[j], cp[i]
		return c07Join(cp), fmt.Sprintf("lines=%d,%d", i, j), true
	case "flip-byte":
		k := r.Intn(len(text))
		var b byte
		if r.Intn(2) == 0 {
			b = c07InterestingBytes[r.Intn(len(c07InterestingBytes))]
		} else {
			b = byte(r.Intn(256))
		}
		if b == text[k] {
			b ^= 0x20
		}
		cp := append([]byte(nil), text...)
		cp[k] = b
		return cp, fmt.Sprintf("at=%d byte=%d", k, b), true
	case "indent-shrink", "indent-grow", "collapse-spaces":
		// choose a line that has a run of spaces; prefer field/indent runs.
		for try := 0; try < 8; try++ {
			li := pickLine()
			body, term := c07Body(lines[li])
			runs := c07SpaceRuns(body)
			if len(runs) == 0 {
				continue
			}
			var run [2]int
			switch op {
			case "collapse-spaces":
				var wide [][2]int
				for _, q := range runs {
					if q[0] > 0 && q[1]-q[0] >= 2 {
						wide = append(wide, q)
					}
				}
				if len(wide) == 0 {
					continue
				}
				run = wide[r.Intn(len(wide))]
				nb := c07Cat(body[:run[0]+1], body[run[1]:])
				cp := append([][]byte{}, lines...)
				cp[li] = c07Cat(nb, term)
				return c07Join(cp), fmt.Sprintf("line=%d col=%d", li, run[0]), true
			default:
				// the leading run or the first interior one (the padding
				// after a field name / feature key); sometimes any run.
				run = runs[0]
				if r.Intn(6) == 0 {
					run = runs[r.Intn(len(runs))]
				}
			}
			var nb []byte
			var k int
			if op == "indent-shrink" {
				k = 1 + r.Intn(3)
				if k > run[1]-run[0] {
					k = run[1] - run[0]
				}
				nb = c07Cat(body[:run[0]], body[run[0]+k:])
			} else {
				k = 1 + r.Intn(4)
				nb = c07Cat(body[:run[0]], bytes.Repeat([]byte{' '}, k), body[run[0]:])
			}
			cp := append([][]byte{}, lines...)
			cp[li] = c07Cat(nb, term)
			return c07Join(cp), fmt.Sprintf("line=%d col=%d k=%d", li, run[0], k), true
		}
		return text, "", false
	case "drop-value":
		for try := 0; try < 8; try++ {
			li := pickLine()
			body, term := c07Body(lines[li])
			i := 0
			for i < len(body) && body[i] == ' ' {
				i++
			}
			j := i
			for j < len(body) && body[j] != ' ' {
				j++
			}
			if j == len(body) {
				continue
			}
			cp := append([][]byte{}, lines...)
			cp[li] = c07Cat(body[:j], term)
			return c07Join(cp), fmt.Sprintf("line=%d", li), true
		}
		return text, "", false
	case "rewrite-numbers":
		for try := 0; try < 8; try++ {
			li := pickLine()
			body, term := c07Body(lines[li])
			keep := r.Intn(2) == 0
			changed := false
			nb := append([]byte(nil), body...)
			for i := 0; i < len(nb); {
				if nb[i] < '0' || nb[i] > '9' {
					i++
					continue
				}
				j := i
				for j < len(nb) && nb[j] >= '0' && nb[j] <= '9' {
					j++
				}
				if j-i > 18 {
					i = j
					continue
				}
				n, _ := strconv.ParseInt(string(nb[i:j]), 10, 64)
				s := c07RewriteNumber(r, n)
				before := len(nb) - j
				nb = c07ReplaceNumber(nb, i, j, s, keep)
				i = len(nb) - before
				changed = true
			}
			if !changed {
				continue
			}
			cp := append([][]byte{}, lines...)
			cp[li] = c07Cat(nb, term)
			return c07Join(cp), fmt.Sprintf("line=%d keepwidth=%v", li, keep), true
		}
		return text, "", false
	case "declared-length":
		var idx []int
		for li, l := range lines {
			body, _ := c07Body(l)
			if _, _, ok := c07FindDeclared(body); ok {
				idx = append(idx, li)
			}
		}
		if len(idx) == 0 {
			return text, "", false
		}
		k := r.Intn(len(idx))
		body, term := c07Body(lines[idx[k]])
		i, j, _ := c07FindDeclared(body)
		if j-i > 18 {
			return text, "", false
		}
		n, _ := strconv.ParseInt(string(body[i:j]), 10, 64)
		kind := C07DeclaredKinds[r.Intn(len(C07DeclaredKinds))]
		var s string
		switch kind {
		case "minus1":
			s = strconv.FormatInt(n-1, 10)
		case "plus1":
			s = strconv.FormatInt(n+1, 10)
		case "minus60":
			s = strconv.FormatInt(n-60, 10)
		case "plus60":
			s = strconv.FormatInt(n+60, 10)
		case "zero":
			s = "0"
		case "1e9":
			s = "1000000000"
		default:
			switch r.Intn(6) {
			case 0:
				s = strconv.FormatInt(n-n%60, 10)
			case 1:
				s = strconv.FormatInt(n+60-n%60, 10)
			case 2:
				s = strconv.FormatInt(r.Int63n(2*n+100), 10)
			case 3:
				s = strconv.FormatInt(n*2, 10)
			case 4:
				s = strconv.FormatInt(n/2, 10)
			default:
				s = []string{"9223372036854775807", "7300000000000000000", "7000000000000000000", "99999999999999999999", "-1", "-60"}[r.Intn(6)]
			}
		}
		cp := append([][]byte{}, lines...)
		cp[idx[k]] = c07Cat(c07ReplaceNumber(body, i, j, s, r.Intn(4) != 0), term)
		return c07Join(cp), fmt.Sprintf("locus=%d kind=%s %d->%s", k, kind, n, s), true
	case "crlf-all":
		if bytes.Contains(text, []byte("\r\n")) {
			return C07ToLF(text), "to=LF", true
		}
		if !bytes.Contains(text, []byte("\n")) {
			return text, "", false
		}
		return C07ToCRLF(text), "to=CRLF", true
	case "crlf-line":
		for try := 0; try < 8; try++ {
			li := pickLine()
			body, term := c07Body(lines[li])
			if term == nil {
				continue
			}
			cp := append([][]byte{}, lines...)
			to := "CRLF"
			if len(term) == 2 {
				cp[li] = c07Cat(body, []byte("\n"))
				to = "LF"
			} else {
				cp[li] = c07Cat(body, []byte("\r\n"))
			}
			return c07Join(cp), fmt.Sprintf("line=%d to=%s", li, to), true
		}
		return text, "", false
	case "splice":
		if len(other) == 0 {
			return text, "", false
		}
		ol := c07Lines(other)
		i, j := len(lines), 0
		mode := "concat"
		switch r.Intn(4) {
		case 0:
			i, j = r.Intn(len(lines)+1), r.Intn(len(ol)+1)
			mode = "cut-both"
		case 1:
			i = r.Intn(len(lines) + 1)
			mode = "cut-first"
		case 2:
			j = r.Intn(len(ol) + 1)
			mode = "cut-second"
		}
		out := append(append([][]byte{}, lines[:i]...), ol[j:]...)
		return c07Join(out), fmt.Sprintf("%s first[:%d] second[%d:]", mode, i, j), true
	case "remove-terminator":
		var idx []int
		for li, l := range lines {
			body, _ := c07Body(l)
			if string(body) == "//" {
				idx = append(idx, li)
			}
		}
		if len(idx) == 0 {
			return text, "", false
		}
		i := idx[r.Intn(len(idx))]
		out := append(append([][]byte{}, lines[:i]...), lines[i+1:]...)
		return c07Join(out), fmt.Sprintf("line=%d", i), true
	case "dup-origin":
		blocks := c07OriginBlocks(lines)
		if len(blocks) == 0 {
			return text, "", false
		}
		b := blocks[r.Intn(len(blocks))]
		from := b[0]
		mode := "with-header"
		if r.Intn(3) == 0 && b[1] > b[0]+1 {
			from = b[0] + 1
			mode = "residue-lines-only"
		}
		out := append([][]byte{}, lines[:b[1]]...)
		out = append(out, lines[from:b[1]]...)
		out = append(out, lines[b[1]:]...)
		return c07Join(out), fmt.Sprintf("%s lines=%d..%d", mode, from, b[1]), true
	}
	return text, "", false
}

// ------------------------------------------------------------------ bases

var c07Words = []string{"alpha", "beta", "gamma", "delta", "protein", "kinase", "putative", "hypothetical", "phage", "coli", "K-12", "str.", "DNA", "binding", "region", "of", "the", "1", "22", "x"}

func c07Phrase(r *rand.Rand, lo, hi int) string {
	n := lo + r.Intn(hi-lo+1)
	ww := make([]string, n)
	for i := range ww {
		ww[i] = c07Words[r.Intn(len(c07Words))]
	}
	return strings.Join(ww, " ")
}

// C07Residues draws n residue letters.
func C07Residues(r *rand.Rand, n int) []byte {
	alpha := "acgt"
	switch r.Intn(6) {
	case 0:
		alpha = "ACGT"
	case 1:
		alpha = "acgtnrykmswbdhv"
	case 2:
		alpha = "ACDEFGHIKLMNPQRSTVWY"
	}
	p := make([]byte, n)
	for i := range p {
		p[i] = alpha[r.Intn(len(alpha))]
	}
	return p
}

// C07GenBankInfo describes a generated record.
type C07GenBankInfo struct {
	Residues int
	Features int
	Fields   []string
}

// C07RandGenBank writes a small GenBank record with seqio.GenBank.String():
// ORIGIN of 0..200 residues, 0..4 features with qualifiers, optional
// DBLINK/REFERENCE/COMMENT/CONTIG/extra fields.
func C07RandGenBank(r *rand.Rand, name string) ([]byte, C07GenBankInfo) {
	var n int
	switch r.Intn(8) {
	case 0:
		n = 0
	case 1:
		n = []int{1, 9, 10, 11, 59, 60, 61, 119, 120, 121, 133, 180, 200}[r.Intn(13)]
	default:
		n = r.Intn(201)
	}
	info := C07GenBankInfo{Residues: n}
	mol := []gts.Molecule{gts.DNA, gts.DNA, gts.RNA, gts.AA, gts.SingleStrandDNA, gts.DoubleStrandDNA}[r.Intn(6)]
	top := gts.Linear
	if r.Intn(3) == 0 {
		top = gts.Circular
	}
	f := seqio.GenBankFields{
		LocusName: name, Molecule: mol, Topology: top,
		Division:   []string{"UNA", "BCT", "PHG", "SYN", "CON"}[r.Intn(5)],
		Date:       seqio.Date{Year: 1990 + r.Intn(40), Month: time.Month(1 + r.Intn(12)), Day: 1 + r.Intn(28)},
		Definition: c07Phrase(r, 1, 6), Accession: name, Version: name + ".1",
		Source: seqio.Organism{Species: c07Phrase(r, 1, 3), Name: c07Phrase(r, 1, 3), Taxon: []string{"Viruses", "Monodnaviria", c07Words[r.Intn(len(c07Words))]}},
	}
	if r.Intn(3) == 0 {
		f.Definition = c07Phrase(r, 14, 24) // wraps over several lines
	}
	if r.Intn(2) == 0 {
		f.Keywords = []string{"RefSeq", c07Words[r.Intn(len(c07Words))]}[:1+r.Intn(2)]
	}
	if r.Intn(2) == 0 {
		info.Fields = append(info.Fields, "DBLINK")
		f.DBLink.Set("BioProject", fmt.Sprintf("PRJNA%d", r.Intn(100000)))
		if r.Intn(2) == 0 {
			f.DBLink.Set("BioSample", fmt.Sprintf("SAMN%08d", r.Intn(100000000)))
		}
	}
	if k := r.Intn(3); k > 0 {
		info.Fields = append(info.Fields, "REFERENCE")
		for i := 1; i <= k; i++ {
			ref := seqio.Reference{Number: i, Authors: "Sanger,F., Coulson,A.R. and " + c07Phrase(r, 1, 2), Title: c07Phrase(r, 2, 14), Journal: "J. Mol. Biol. 125 (2), 225-246 (1978)"}
			if n > 0 && r.Intn(3) != 0 {
				ref.Info = fmt.Sprintf("(%s 1 to %d)", mol.Counter(), n)
			}
			if r.Intn(2) == 0 {
				ref.Xref = map[string]string{"PUBMED": strconv.Itoa(100000 + r.Intn(900000))}
			}
			if r.Intn(4) == 0 {
				ref.Comment = c07Phrase(r, 2, 5)
			}
			if r.Intn(5) == 0 {
				ref.Group = "NCBI Genome Project"
			}
			f.References = append(f.References, ref)
		}
	}
	if r.Intn(3) == 0 {
		info.Fields = append(info.Fields, "COMMENT")
		f.Comments = append(f.Comments, c07Phrase(r, 3, 30))
		if r.Intn(3) == 0 {
			f.Comments = append(f.Comments, c07Phrase(r, 1, 4)+"\n"+c07Phrase(r, 1, 4))
		}
	}
	if r.Intn(5) == 0 {
		info.Fields = append(info.Fields, "EXTRA")
		f.Extra = append(f.Extra, seqio.GenBankExtraField([]string{"PRIMARY", "BASE", "PROJECT"}[r.Intn(3)], c07Phrase(r, 1, 4)))
	}
	if r.Intn(5) == 0 {
		info.Fields = append(info.Fields, "CONTIG")
		f.Contig = seqio.Contig{Accession: "U00096.3", Region: gts.Segment{0, 1 + r.Intn(5000)}}
	}
	var table gts.FeatureSlice
	nf := r.Intn(5)
	info.Features = nf
	L := n
	if L < 4 {
		L = 30
	}
	for i := 0; i < nf; i++ {
		var loc gts.Location
		if i == 0 && r.Intn(2) == 0 {
			loc = gts.Range(0, L)
		} else {
			loc = RandLoc(r, LocOpt{L: L, MaxParts: 3, MaxDepth: 2, Ambiguous: true, Sites: true})
		}
		key := RandKey(r, 0)
		if i == 0 {
			key = "source"
		}
		p := gts.Props{}
		for q := r.Intn(4); q > 0; q-- {
			switch r.Intn(7) {
			case 0:
				p.Add("note", c07Phrase(r, 1, 20))
			case 1:
				p.Add("gene", c07Words[r.Intn(len(c07Words))])
			case 2:
				p.Add("codon_start", strconv.Itoa(1+r.Intn(3)))
			case 3:
				p.Add("pseudo", "")
			case 4:
				p.Add("db_xref", fmt.Sprintf("GeneID:%d", r.Intn(1000000)))
			case 5:
				p.Add("translation", string(bytes.ToUpper(C07Residues(rand.New(rand.NewSource(r.Int63())), 20+r.Intn(120)))))
			default:
				p.Add("label", fmt.Sprintf("f%d", i))
			}
		}
		table = table.Insert(gts.NewFeature(key, loc, p))
	}
	gb := seqio.GenBank{Fields: f, Table: table, Origin: seqio.NewOrigin(C07Residues(r, n))}
	text := gb.String()
	if nf == 0 {
		// an empty table is printed as a header and a blank line (which the
		// reader rejects): leave the FEATURES field out instead.
		text = strings.Replace(text, "FEATURES             Location/Qualifiers\n\n", "", 1)
	}
	return []byte(text), info
}
