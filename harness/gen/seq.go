package gen

import (
	"fmt"
	"math/rand"

	"github.com/go-gts/gts"
)

var featureKeys = []string{"gene", "CDS", "misc_feature", "exon", "mRNA", "repeat_region", "primer_bind", "5'UTR", "3'UTR"}

// RandKey draws a feature key; sourceRate/100 of them are "source".
func RandKey(r *rand.Rand, sourcePct int) string {
	if r.Intn(100) < sourcePct {
		return "source"
	}
	return featureKeys[r.Intn(len(featureKeys))]
}

// LabelProps builds qualifiers with a unique /label plus a few extras.
func LabelProps(r *rand.Rand, label string) gts.Props {
	p := gts.Props{}
	p.Add("label", label)
	switch r.Intn(5) {
	case 4:
		// a multi-valued qualifier whose values are not in lexicographic order.
		p.Add("db_xref", "z:"+label, "a:"+label, "m:"+label)
	case 0:
		p.Add("note", "n"+label)
	case 1:
		p.Add("gene", "g"+label, "h"+label)
		p.Add("codon_start", "1")
	case 2:
		p.Add("pseudo", "")
	}
	if r.Intn(3) == 0 {
		// a qualifier of the INSDC vocabulary that an operation might be
		// tempted to treat specially (re-phase, re-orient, drop).
		p.Add(Vocabulary[r.Intn(len(Vocabulary))], VocabValues[r.Intn(len(VocabValues))])
	}
	return p
}

// Vocabulary: qualifier names with meaning attached to orientation, phase,
// position or content of the feature; VocabValues: values they take.
var Vocabulary = []string{"direction", "codon_start", "translation", "transl_except", "anticodon", "rpt_unit_range", "replace", "number", "estimated_length", "mol_type", "allele", "tag_peptide", "exception", "map"}

var VocabValues = []string{"left", "right", "RIGHT", "1", "2", "3", "MKVAAL", "(pos:5..7,aa:Met)", "3..9", "genomic DNA", "unknown"}

// RandTable draws n uniquely labelled features over [0,L). prefix keeps host
// and guest labels apart.
func RandTable(r *rand.Rand, n int, o LocOpt, prefix string, sourcePct int) []gts.Feature {
	ff := make([]gts.Feature, 0, n)
	for i := 0; i < n; i++ {
		loc := RandLoc(r, o)
		ff = append(ff, gts.Feature{Key: RandKey(r, sourcePct), Loc: loc, Props: LabelProps(r, fmt.Sprintf("%s%d", prefix, i))})
	}
	return ff
}

// SortedTable inserts the features one by one with FeatureSlice.Insert (the
// documented way to build a table).
func SortedTable(ff []gts.Feature) gts.FeatureSlice {
	var t gts.FeatureSlice
	for _, f := range ff {
		t = t.Insert(f)
	}
	return t
}

// CloneTable deep-copies a table (locations are immutable values except for
// list types, which are copied).
func CloneTable(ff []gts.Feature) []gts.Feature {
	out := make([]gts.Feature, len(ff))
	for i, f := range ff {
		out[i] = gts.Feature{Key: f.Key, Loc: CloneLoc(f.Loc), Props: f.Props.Clone()}
	}
	return out
}

// CloneLoc deep-copies a location value.
func CloneLoc(l gts.Location) gts.Location {
	switch v := l.(type) {
	case gts.Joined:
		c := make(gts.Joined, len(v))
		for i := range v {
			c[i] = CloneLoc(v[i])
		}
		return c
	case gts.Ordered:
		c := make(gts.Ordered, len(v))
		for i := range v {
			c[i] = CloneLoc(v[i])
		}
		return c
	case gts.Complemented:
		return gts.Complemented{Location: CloneLoc(v.Location)}
	default:
		return l
	}
}

// Label returns the /label of a feature ("" if none).
func Label(f gts.Feature) string {
	v := f.Props.Get("label")
	if len(v) == 0 {
		return ""
	}
	return v[0]
}
