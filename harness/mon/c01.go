package mon

import (
	"bytes"
	"fmt"
	"math/rand"
	"os"
	"path/filepath"
	"reflect"
	"regexp"
	"sort"
	"strconv"
	"strings"
	"time"

	"github.com/go-gts/gts"
	"github.com/go-gts/gts/seqio"

	"verifharness/cli"
	"verifharness/fw"
	"verifharness/gen"
	"verifharness/model"
)

type c01 struct{ base }

func init() { register(c01{}) }

func (c01) ID() string { return "C01" }
func (c01) Rule() string {
	return "records of the core writable domain from generator M4 (locus names, the five molecules, both topologies, optional 3-letter division, every kind of valid calendar date incl. 29-FEB and month ends, definitions with/without line breaks and trailing period, accession/version, 0..3 DBLINK pairs incl. empty values, keywords and taxonomy long enough to wrap, SOURCE/ORGANISM, 0..3 references with every sub-field optional, multi-line comments, extra fields, CONTIG-only records, sequence lengths 0..N incl. 1,9,10,11,59,60,61, feature tables of 0..n features with arbitrary INSDC locations and quoted/literal/toggle/multi-line/empty qualifiers), the real corpus (seqio/testdata), and records reached from those by pipelines of 1..4 operations drawn from insert/embed/delete/erase/slice(wrap-around too)/rotate/reverse/complement/concat (a step that panics belongs to another property: skipped and counted). For each record: write (w1) -> read -> write (w2): the reader accepts w1 and yields exactly one record, residues equal, feature table equal (keys, printed locations and atoms, qualifier names/values/order), every header field equal, w2 == w1 byte for byte; streams of 1..5 records: record j reads identically to the same record alone; after every parse the qualifier-name registries are sorted, pairwise disjoint and monotone. Also through the CLI: gts reverse | gts complement on w1 must both exit 0 and be read back. non-trivial: >=1 feature or CONTIG, and an optional field set; distinct: hash of w1. Unquoted qualifier values take the INSDC forms too (parenthesised, with a line break behind balanced and behind open parentheses); extra fields may have no value. Keyword and taxonomy lists may end in an entry with a period of its own; the word pool holds % signs. A sixth of the records are spelled with protein letters and the symbols * - . (residues like any other). DBLINK identifiers may hold colons; feature keys with an apostrophe or a hyphen (5'UTR, D-loop, -10_signal). In the CLI pipelines a printed join that the reader reduces further (the listed finding join-reduction-not-idempotent) is attributed by the same deviation model as at library level."
}
func (c01) RequiredBuckets(tier string) []string {
	return []string{"origin:generated", "origin:corpus", "origin:pipeline", "table:empty", "table:nonempty", "record:contig-only", "record:empty-sequence", "date:feb29", "stream:1", "stream:5",
		"qual:quoted", "qual:literal", "qual:toggle", "qual:multiline", "qual:empty-value", "op:insert", "op:embed", "op:delete", "op:erase", "op:slice", "op:slice-wrap", "op:rotate", "op:reverse", "op:complement", "op:concat",
		"cli:pipe", "registry-invariant-checked", "molecule:AA", "refs:3", "extended:qualifier-value-with-double-quote", "extended:registry-learns-toggle-then-drops-values", "origin:text-with-novel-qualifier-names"}
}
func (c01) Findings() []fw.Finding {
	w := func(build func() gts.Sequence, check func(seqio.GenBankFields, gts.FeatureSlice) (bool, string)) func() (bool, string) {
		return func() (bool, string) {
			var b bytes.Buffer
			seqio.NewWriter(&b, seqio.GenBankFile).WriteSeq(build())
			sc := seqio.NewAutoScanner(bytes.NewReader(b.Bytes()))
			if !sc.Scan() {
				return true, fmt.Sprintf("own output rejected: %v", sc.Err())
			}
			return check(sc.Value().Info().(seqio.GenBankFields), sc.Value().Features())
		}
	}
	base := func() seqio.GenBank {
		return seqio.GenBank{Fields: seqio.GenBankFields{LocusName: "W", Molecule: gts.DNA, Date: seqio.Date{Year: 2020, Month: 1, Day: 1}, Source: seqio.Organism{Species: "s", Name: "n"}},
			Table: gts.FeatureSlice{{Key: "gene", Loc: gts.Range(0, 4), Props: gts.Props{{"note", "x"}}}}, Origin: seqio.NewOrigin([]byte("acgtacgt"))}
	}
	long := strings.TrimSpace(strings.Repeat("Escherichia coli str. K-12 substr. MG1655 ", 3))
	return []fw.Finding{
		{ID: "join-reduction-not-idempotent", What: "a reduced join can still contain a repeat that re-parsing its print removes", Witness: func() (bool, string) {
			v := gts.Join(gts.Point(0), gts.Between(0), gts.Point(0))
			p, err := gts.AsLocation(v.String())
			if err != nil {
				return true, err.Error()
			}
			return p.String() != v.String(), fmt.Sprintf("Join(Point(0),Between(0),Point(0)) prints %s, which parses to %s", v, p)
		}},
		{ID: "qualifier-value-with-double-quote", What: "qualifier value containing a double quote", Witness: w(func() gts.Sequence {
			g := base()
			g.Table[0].Props = gts.Props{{"note", "say \"hi\" twice"}, {"gene", "after"}}
			return g
		}, func(f seqio.GenBankFields, t gts.FeatureSlice) (bool, string) {
			if len(t) == 1 && reflect.DeepEqual(t[0].Props, gts.Props{{"note", "say \"hi\" twice"}, {"gene", "after"}}) {
				return false, "read back intact"
			}
			return true, fmt.Sprintf("/note=\"say \"hi\" twice\" /gene=\"after\" read back as %d features %q", len(t), propsOf(t))
		})},
		{ID: "source-line-wrapped-not-restored", What: "SOURCE longer than 67 columns", Witness: w(func() gts.Sequence { g := base(); g.Fields.Source.Species = long; return g },
			func(f seqio.GenBankFields, t gts.FeatureSlice) (bool, string) {
				return f.Source.Species != long, fmt.Sprintf("species of %d characters read back as %q", len(long), f.Source.Species)
			})},
		{ID: "organism-line-wrapped-read-as-taxonomy", What: "ORGANISM longer than 67 columns", Witness: w(func() gts.Sequence { g := base(); g.Fields.Source.Name = long; return g },
			func(f seqio.GenBankFields, t gts.FeatureSlice) (bool, string) {
				return f.Source.Name != long, fmt.Sprintf("organism of %d characters read back as %q + taxonomy %q", len(long), f.Source.Name, f.Source.Taxon)
			})},
		{ID: "registry-learns-toggle-then-drops-values", What: "unknown qualifier name learned as toggle", Witness: func() (bool, string) {
			name := "zz_witness_flag"
			text := "LOCUS       W                          8 bp    DNA     linear   SYN 01-JAN-2020\nDEFINITION  x.\nACCESSION   \nVERSION     \nKEYWORDS    .\nSOURCE      s\n  ORGANISM  s\n            .\nFEATURES             Location/Qualifiers\n     gene            1..4\n                     /" + name + "\nORIGIN      \n        1 acgtacgt\n//\n"
			sc := seqio.NewAutoScanner(strings.NewReader(text))
			if !sc.Scan() {
				return true, "probe record not read"
			}
			g := base()
			g.Table[0].Props = gts.Props{{name, "a value"}}
			var b bytes.Buffer
			seqio.NewWriter(&b, seqio.GenBankFile).WriteSeq(g)
			return !strings.Contains(b.String(), "a value"), "after reading a table with /" + name + " as a toggle, /" + name + "=\"a value\" is written without its value"
		}},
	}
}

func propsOf(t gts.FeatureSlice) []gts.Props {
	var out []gts.Props
	for _, f := range t {
		out = append(out, f.Props)
	}
	return out
}

var digits = regexp.MustCompile(`[0-9]+`)

func errClass(err error) string {
	s := err.Error()
	if i := strings.LastIndex(s, "\n"); i >= 0 {
		s = s[i+1:]
	}
	s = digits.ReplaceAllString(s, "N")
	if len(s) > 60 {
		s = s[:60]
	}
	return s
}

func writeGB(seq gts.Sequence) (out []byte, err error, panicked bool, pv interface{}, site, stack string) {
	var b bytes.Buffer
	panicked, pv, site, stack = fw.Guard(func() { _, err = seqio.NewWriter(&b, seqio.GenBankFile).WriteSeq(seq) })
	return b.Bytes(), err, panicked, pv, site, stack
}

func readAll(text []byte) (recs []gts.Sequence, err error, panicked bool, pv interface{}, site, stack string) {
	panicked, pv, site, stack = fw.Guard(func() {
		sc := seqio.NewAutoScanner(bytes.NewReader(text))
		for i := 0; i < 1000 && sc.Scan(); i++ {
			recs = append(recs, sc.Value())
		}
		err = sc.Err()
	})
	return
}

type regSnap struct{ q, l, t []string }

func snapRegistries() regSnap {
	return regSnap{append([]string(nil), seqio.QuotedQualifierNames...), append([]string(nil), seqio.LiteralQualifierNames...), append([]string(nil), seqio.ToggleQualifierNames...)}
}

func (m c01) registryInvariant(c *fw.Ctx, before regSnap, enc string) {
	c.Bucket("registry-invariant-checked")
	now := snapRegistries()
	lists := map[string][]string{"quoted": now.q, "literal": now.l, "toggle": now.t}
	seen := map[string]string{}
	for kind, l := range lists {
		if !sort.StringsAreSorted(l) {
			c.Violate("registry:not-sorted:"+kind, enc, "sorted", strings.Join(l, ","))
		}
		for _, n := range l {
			if k2, ok := seen[n]; ok && k2 != kind {
				c.Violate("registry:name-in-two-lists", enc, "disjoint", n+" in "+k2+" and "+kind)
			}
			seen[n] = kind
		}
	}
	for _, pair := range [][2][]string{{before.q, now.q}, {before.l, now.l}, {before.t, now.t}} {
		set := map[string]bool{}
		for _, n := range pair[1] {
			set[n] = true
		}
		for _, n := range pair[0] {
			if !set[n] {
				c.Violate("registry:name-lost", enc, "monotone", n)
			}
		}
	}
}

func normStrs(s []string) []string {
	if len(s) == 0 {
		return nil
	}
	return s
}

func cmpFields(want, got seqio.GenBankFields, allowRegionInAccession bool) (string, string, string) {
	if want.LocusName != got.LocusName {
		return "locus-name", want.LocusName, got.LocusName
	}
	if want.Molecule != got.Molecule {
		return "molecule", string(want.Molecule), string(got.Molecule)
	}
	if want.Topology != got.Topology {
		return "topology", want.Topology.String(), got.Topology.String()
	}
	if want.Division != got.Division {
		return "division", want.Division, got.Division
	}
	if want.Date != got.Date {
		return "date", fmt.Sprint(want.Date), fmt.Sprint(got.Date)
	}
	if want.Definition != got.Definition {
		return "definition", want.Definition, got.Definition
	}
	if want.Accession != got.Accession {
		return "accession", want.Accession, got.Accession
	}
	if want.Version != got.Version {
		return "version", want.Version, got.Version
	}
	if len(want.DBLink) != len(got.DBLink) {
		return "dblink", fmt.Sprint(want.DBLink), fmt.Sprint(got.DBLink)
	}
	for i := range want.DBLink {
		if want.DBLink[i] != got.DBLink[i] {
			return "dblink", fmt.Sprint(want.DBLink), fmt.Sprint(got.DBLink)
		}
	}
	if !reflect.DeepEqual(normStrs(want.Keywords), normStrs(got.Keywords)) {
		return "keywords", fmt.Sprintf("%q", want.Keywords), fmt.Sprintf("%q", got.Keywords)
	}
	if want.Source.Species != got.Source.Species {
		return "source", want.Source.Species, got.Source.Species
	}
	if want.Source.Name != got.Source.Name {
		return "organism", want.Source.Name, got.Source.Name
	}
	if !reflect.DeepEqual(normStrs(want.Source.Taxon), normStrs(got.Source.Taxon)) {
		return "taxonomy", fmt.Sprintf("%q", want.Source.Taxon), fmt.Sprintf("%q", got.Source.Taxon)
	}
	if len(want.References) != len(got.References) {
		return "references-count", fmt.Sprint(len(want.References)), fmt.Sprint(len(got.References))
	}
	for i := range want.References {
		a, b := want.References[i], got.References[i]
		ax, bx := a.Xref["PUBMED"], b.Xref["PUBMED"]
		a.Xref, b.Xref = nil, nil
		if !reflect.DeepEqual(a, b) || ax != bx {
			return "reference", fmt.Sprintf("%+v pubmed=%s", a, ax), fmt.Sprintf("%+v pubmed=%s", b, bx)
		}
	}
	if !reflect.DeepEqual(normStrs(want.Comments), normStrs(got.Comments)) {
		return "comments", fmt.Sprintf("%q", want.Comments), fmt.Sprintf("%q", got.Comments)
	}
	if len(want.Extra) != len(got.Extra) {
		return "extra-count", fmt.Sprint(len(want.Extra)), fmt.Sprint(len(got.Extra))
	}
	for i := range want.Extra {
		if want.Extra[i].Name != got.Extra[i].Name || want.Extra[i].Value != got.Extra[i].Value {
			return "extra", fmt.Sprintf("%s=%q", want.Extra[i].Name, want.Extra[i].Value), fmt.Sprintf("%s=%q", got.Extra[i].Name, got.Extra[i].Value)
		}
	}
	if want.Contig != got.Contig {
		return "contig", fmt.Sprint(want.Contig), fmt.Sprint(got.Contig)
	}
	if !reflect.DeepEqual(want.Region, got.Region) {
		return "region", fmt.Sprint(want.Region), fmt.Sprint(got.Region)
	}
	return "", "", ""
}

func cmpTables(want, got gts.FeatureSlice) (string, string, string) {
	if len(want) != len(got) {
		return "feature-count", fmt.Sprint(len(want)), fmt.Sprint(len(got))
	}
	for i := range want {
		a, b := want[i], got[i]
		if a.Key != b.Key {
			return "feature-key", a.Key, b.Key
		}
		if model.SafeString(a.Loc) != model.SafeString(b.Loc) {
			return "feature-location-print", model.SafeString(a.Loc), model.SafeString(b.Loc)
		}
		if !reflect.DeepEqual(model.Parts(a.Loc), model.Parts(b.Loc)) {
			return "feature-location-atoms", model.SafeString(a.Loc), model.SafeString(b.Loc)
		}
		if len(a.Props) != len(b.Props) {
			return "qualifier-count", fmt.Sprintf("%q", a.Props), fmt.Sprintf("%q", b.Props)
		}
		for j := range a.Props {
			if !reflect.DeepEqual(a.Props[j], b.Props[j]) {
				cls := "qualifier"
				if len(a.Props[j]) > 0 {
					switch seqio.GetQualifierType(a.Props[j][0]) {
					case seqio.ToggleQualifier:
						cls = "qualifier-toggle"
					case seqio.LiteralQualifier:
						cls = "qualifier-literal"
					}
				}
				return cls, fmt.Sprintf("%q", a.Props[j]), fmt.Sprintf("%q", b.Props[j])
			}
		}
	}
	return "", "", ""
}

// roundTrip judges one record; it returns w1 (nil when not judged).
// extHook, when set, receives the violation class instead of c.Violate (used
// by the extended-domain cases to attribute listed findings).
var c01Hook func(class, enc, want, got string) bool

func c01Violate(c *fw.Ctx, class, enc, want, got string) {
	if c01Hook != nil && c01Hook(class, enc, want, got) {
		return
	}
	c.Violate(class, enc, want, got)
}

func (m c01) roundTrip(c *fw.Ctx, rec gts.Sequence, origin, desc string) []byte {
	info, ok := rec.Info().(seqio.GenBankFields)
	if !ok {
		c.Skip("record without GenBankFields info")
		return nil
	}
	enc0 := fmt.Sprintf("%s %s", origin, desc)
	w1, err, p, pv, site, stack := writeGB(rec)
	if p {
		c.Begin(enc0)
		c.Count(enc0, true)
		c.ViolateX("write:"+panicClass(site, pv)+":"+origin, enc0, "a reachable record can be written", fmt.Sprint(pv), stack, nil)
		return nil
	}
	if err != nil {
		c.Begin(enc0)
		c.Count(enc0, true)
		c01Violate(c, "write:error:"+origin, enc0, "written", err.Error())
		return nil
	}
	enc := enc0 + "\n" + string(w1)
	c.Begin(enc)
	tab := rec.Features()
	nontrivial := (len(tab) > 0 || info.Contig.Accession != "") && (info.Definition != "" || len(info.References) > 0 || len(info.Keywords) > 0)
	c.Count(string(w1), nontrivial)
	c.Bucket("origin:" + origin)
	if len(tab) == 0 {
		c.Bucket("table:empty")
	} else {
		c.Bucket("table:nonempty")
	}
	if gts.Len(rec) == 0 {
		c.Bucket("record:empty-sequence")
		if info.Contig.Accession != "" {
			c.Bucket("record:contig-only")
		}
	}
	if info.Date.Month == time.February && info.Date.Day == 29 {
		c.Bucket("date:feb29")
	}
	if info.Molecule == gts.AA {
		c.Bucket("molecule:AA")
	}
	if len(info.References) >= 3 {
		c.Bucket("refs:3")
	}
	for _, f := range tab {
		for _, pr := range f.Props {
			if len(pr) == 0 {
				continue
			}
			switch seqio.GetQualifierType(pr[0]) {
			case seqio.LiteralQualifier:
				c.Bucket("qual:literal")
			case seqio.ToggleQualifier:
				c.Bucket("qual:toggle")
			default:
				c.Bucket("qual:quoted")
			}
			for _, v := range pr[1:] {
				if strings.Contains(v, "\n") {
					c.Bucket("qual:multiline")
				}
				if v == "" {
					c.Bucket("qual:empty-value")
				}
			}
		}
	}
	before := snapRegistries()
	recs, rerr, p, pv, site, stack := readAll(w1)
	if p {
		c.ViolateX("read:"+panicClass(site, pv)+":"+origin, enc, "no panic", fmt.Sprint(pv), stack, nil)
		return nil
	}
	m.registryInvariant(c, before, enc0)
	if rerr != nil {
		c01Violate(c, "own-output-rejected:"+errClass(rerr), enc, "gts reads what gts wrote", rerr.Error())
		return nil
	}
	if len(recs) != 1 {
		c01Violate(c, "own-output-record-count", enc, "1 record", fmt.Sprint(len(recs)))
		return nil
	}
	got := recs[0]
	if !bytes.Equal(got.Bytes(), rec.Bytes()) && !(len(got.Bytes()) == 0 && len(rec.Bytes()) == 0) {
		c01Violate(c, "fidelity:residues", enc, clipS(string(rec.Bytes()), 300), clipS(string(got.Bytes()), 300))
		return nil
	}
	if cls, w, g := cmpTables(tab, got.Features()); cls != "" {
		if cls == "feature-location-print" && c.KFEnabled("join-reduction-not-idempotent") && len(tab) == len(got.Features()) {
			// deviation model (C06 finding): a reduced join that still holds a
			// repeat is reduced further by the parser; same residues, other print.
			okAll := true
			for i := range tab {
				a, b := tab[i].Loc, got.Features()[i].Loc
				if model.SafeString(a) == model.SafeString(b) {
					continue
				}
				raw := model.Bases(model.Den(a))
				aa, ab := model.CollapseDups(raw), model.CollapseDups(model.Bases(model.Den(b)))
				// the listed deviation only removes a repeated residue: the written
				// location must actually contain one, and nothing else may differ.
				if !model.EqualAtoms(aa, ab) || len(aa) == len(raw) || !model.OnlyRepeatedPointsRemoved(model.Parts(a), model.Parts(b)) {
					okAll = false
				}
			}
			if okAll {
				c.Known("join-reduction-not-idempotent", enc0)
				return nil
			}
		}
		c01Violate(c, "fidelity:"+cls, enc, w, g)
		return nil
	}
	ginfo, ok := got.Info().(seqio.GenBankFields)
	if !ok {
		c01Violate(c, "fidelity:info-type", enc, "GenBankFields", fmt.Sprintf("%T", got.Info()))
		return nil
	}
	if cls, w, g := cmpFields(info, ginfo, false); cls != "" {
		c01Violate(c, "fidelity:"+cls, enc, w, g)
		return nil
	}
	w2, err, p, pv, site, stack := writeGB(got)
	if p {
		c.ViolateX("rewrite:"+panicClass(site, pv), enc, "no panic", fmt.Sprint(pv), stack, nil)
		return nil
	}
	if err != nil || !bytes.Equal(w1, w2) {
		c01Violate(c, "not-a-fixed-point:"+origin, enc, "w2 == w1", firstDiff(w1, w2))
		return nil
	}
	return w1
}

func firstDiff(a, b []byte) string {
	la, lb := bytes.Split(a, []byte("\n")), bytes.Split(b, []byte("\n"))
	for i := 0; i < len(la) || i < len(lb); i++ {
		var x, y []byte
		if i < len(la) {
			x = la[i]
		}
		if i < len(lb) {
			y = lb[i]
		}
		if !bytes.Equal(x, y) {
			return fmt.Sprintf("line %d: w1=%q w2=%q", i+1, x, y)
		}
	}
	return "equal"
}

func (m c01) stream(c *fw.Ctx, ws [][]byte) {
	var all []byte
	for _, w := range ws {
		all = append(all, w...)
	}
	enc := fmt.Sprintf("stream of %d records\n%s", len(ws), clipS(string(all), 6000))
	c.Begin(enc)
	c.Count(string(all), len(ws) > 1)
	c.Bucket(fmt.Sprintf("stream:%d", len(ws)))
	recs, err, p, pv, site, stack := readAll(all)
	if p {
		c.ViolateX("stream:"+panicClass(site, pv), enc, "no panic", fmt.Sprint(pv), stack, nil)
		return
	}
	if err != nil || len(recs) != len(ws) {
		c.Violate("stream:framing-count", enc, fmt.Sprintf("%d records, no error", len(ws)), fmt.Sprintf("%d records, err=%v", len(recs), err))
		return
	}
	for j, r := range recs {
		wj, err, p, _, _, _ := writeGB(r)
		if p || err != nil || !bytes.Equal(wj, ws[j]) {
			c.Violate("stream:record-differs-from-alone", enc, fmt.Sprintf("record %d as written alone", j+1), firstDiff(ws[j], wj))
			return
		}
	}
}

// pipeline applies 1..4 random operations.
func (m c01) pipeline(c *fw.Ctx, r *rand.Rand, rec gts.Sequence, guest gts.Sequence) (gts.Sequence, string, bool) {
	desc := ""
	n := 1 + r.Intn(4)
	cur := rec
	for k := 0; k < n; k++ {
		L := gts.Len(cur)
		op := []string{"insert", "embed", "delete", "erase", "slice", "slice-wrap", "rotate", "reverse", "complement", "concat"}[r.Intn(10)]
		var next gts.Sequence
		var step string
		p, pv, _, _ := fw.Guard(func() {
			switch op {
			case "insert":
				i := r.Intn(L + 1)
				step = fmt.Sprintf("insert(%d)", i)
				next = gts.Insert(cur, i, guest)
			case "embed":
				i := r.Intn(L + 1)
				step = fmt.Sprintf("embed(%d)", i)
				next = gts.Embed(cur, i, guest)
			case "delete", "erase":
				i := r.Intn(L + 1)
				nn := r.Intn(L - i + 1)
				step = fmt.Sprintf("%s(%d,%d)", op, i, nn)
				if op == "delete" {
					next = gts.Delete(cur, i, nn)
				} else {
					next = gts.Erase(cur, i, nn)
				}
			case "slice":
				if L < 1 {
					step = "slice(skip)"
					next = cur
					return
				}
				s := r.Intn(L)
				e := s + 1 + r.Intn(L-s)
				if r.Intn(6) == 0 {
					e = s // zero-length slice (gts split ^)
				}
				step = fmt.Sprintf("slice(%d,%d)", s, e)
				next = gts.Slice(cur, s, e)
			case "slice-wrap":
				if L < 2 {
					step = "slice-wrap(skip)"
					next = cur
					return
				}
				s := 1 + r.Intn(L-1)
				e := r.Intn(s)
				step = fmt.Sprintf("slice(%d,%d)", s, e)
				next = gts.Slice(cur, s, e)
			case "rotate":
				if L < 1 {
					step = "rotate(skip)"
					next = cur
					return
				}
				nn := r.Intn(4*L+1) - 2*L
				step = fmt.Sprintf("rotate(%d)", nn)
				next = gts.Rotate(cur, nn)
			case "reverse":
				step = "reverse"
				next = gts.Reverse(cur)
			case "complement":
				step = "complement"
				next = gts.Complement(cur)
			case "concat":
				step = "concat"
				next = gts.Concat(cur, guest)
			}
		})
		if p {
			c.Skip("pipeline step panics (another property's concern): " + op + ": " + digits.ReplaceAllString(fmt.Sprint(pv), "N"))
			return nil, "", false
		}
		if !strings.Contains(step, "skip") {
			c.Bucket("op:" + op)
		}
		desc += step + ";"
		cur = next
	}
	return cur, desc, true
}

func (m c01) Run(c *fw.Ctx) {
	r := c.Rng
	repo := os.Getenv("VERIF_REPO_DIR")
	if repo == "" {
		repo = "/repo"
	}
	// corpus.
	var corpus []gts.Sequence
	names, _ := filepath.Glob(filepath.Join(repo, "seqio", "testdata", "*"))
	sort.Strings(names)
	for _, n := range names {
		if strings.HasSuffix(n, ".fasta") {
			continue
		}
		b, err := os.ReadFile(n)
		if err != nil {
			continue
		}
		recs, rerr, p, _, _, _ := readAll(b)
		if p || rerr != nil || len(recs) == 0 {
			if c.NextShared() {
				c.Begin("corpus " + filepath.Base(n))
				c.Count("corpus "+filepath.Base(n), true)
				c.Violate("corpus-file-not-read", "corpus "+filepath.Base(n), "read", fmt.Sprint(rerr))
			}
			continue
		}
		for j, rec := range recs {
			corpus = append(corpus, rec)
			if c.NextShared() {
				// a corpus record must carry the residues its LOCUS line declares.
				if m2 := regexp.MustCompile(`(?m)^LOCUS\s+\S+\s+(\d+) bp`).FindAllSubmatch(b, -1); j < len(m2) {
					var decl int
					fmt.Sscan(string(m2[j][1]), &decl)
					if decl != gts.Len(rec) && rec.Info().(seqio.GenBankFields).Contig.Accession == "" {
						c.Begin("corpus " + filepath.Base(n))
						c.Count("corpus-length "+filepath.Base(n), true)
						c.Violate("corpus-record-length", "corpus "+filepath.Base(n), fmt.Sprintf("%d residues (LOCUS)", decl), fmt.Sprint(gts.Len(rec)))
					}
				}
				m.roundTrip(c, rec, "corpus", fmt.Sprintf("%s#%d", filepath.Base(n), j+1))
			}
		}
	}
	if len(corpus) == 0 {
		c.Inconclusive("no corpus record could be read")
	}
	N := c.Pick(1500, 40000)
	maxLen := c.Pick(200, 5000)
	maxFeat := c.Pick(6, 40)
	var recent [][]byte
	for it := 0; it < N; it++ {
		c.NextOwn()
		seed := r.Int63()
		if c.Replaying() && c.Seq() != c.ReplaySeq {
			continue
		}
		rr := rand.New(rand.NewSource(seed))
		ml := maxLen
		if rr.Intn(3) != 0 {
			ml = 200
		}
		gb := gen.RandGenBank(rr, gen.GBOpt{MaxLen: ml, MaxFeatures: maxFeat, ContigOnly: true}, "h")
		w1 := m.roundTrip(c, gb, "generated", fmt.Sprintf("seed=%d", seed))
		if w1 != nil {
			recent = append(recent, w1)
			if len(recent) > 5 {
				recent = recent[1:]
			}
		}
		// pipeline from a generated or corpus record.
		var start gts.Sequence = gb
		if len(corpus) > 0 && rr.Intn(4) == 0 {
			start = corpus[rr.Intn(len(corpus))]
			if gts.Len(start) > 20000 {
				start = gb
			}
		}
		guest := gts.Sequence(gen.RandGenBank(rr, gen.GBOpt{MaxLen: 30, MaxFeatures: 2}, "g"))
		if rr.Intn(2) == 0 {
			guest = gts.New(nil, nil, []byte("acgtacgt"))
		}
		if out, desc, ok := m.pipeline(c, rr, start, guest); ok {
			m.roundTrip(c, out, "pipeline", fmt.Sprintf("seed=%d %s", seed, desc))
		}
		if it%7 == 0 && len(recent) > 0 {
			k := 1 + rr.Intn(len(recent))
			if it%35 == 0 && len(recent) == 5 {
				k = 5
			}
			m.stream(c, recent[len(recent)-k:])
		}
	}
	m.cliPipe(c, recent)
	m.textOrigin(c)
	m.extended(c)
}

// textOrigin feeds the reader record texts that gts did not write itself -
// feature tables using qualifier names no registry knows yet, in each of the
// three spellings (quoted, literal, value-less), LF and CRLF - and then demands
// the round trip of the record that was read: what the first sighting of a
// name yields must be what every later reading yields.
func (m c01) textOrigin(c *fw.Ctx) {
	n := c.Pick(12, 300)
	for k := 0; k < n; k++ {
		if !c.NextOwn() {
			continue
		}
		tag := fmt.Sprintf("%d_%d_%d", c.Seed, c.Shard, k)
		if c.Seed < 0 {
			tag = "m" + tag[1:]
		}
		quals := []string{
			fmt.Sprintf("/zzq_%s=\"first sight quoted\"", tag),
			fmt.Sprintf("/zzl_%s=%d", tag, 3+k),
			fmt.Sprintf("/zzt_%s", tag),
		}
		// vary which novel kinds appear and in which order.
		var lines []string
		for i := 0; i < 3; i++ {
			j := (i + k) % 3
			if (k>>uint(i))&1 == 0 || i == k%3 {
				lines = append(lines, "                     "+quals[j])
			}
		}
		text := "LOCUS       TXT                       20 bp    DNA     linear   SYN 29-FEB-2020\n" +
			"DEFINITION  text origin.\nACCESSION   TXT1\nVERSION     TXT1.1\nKEYWORDS    .\nSOURCE      s\n  ORGANISM  s\n            .\n" +
			"FEATURES             Location/Qualifiers\n     gene            1..10\n                     /label=\"t0\"\n" + strings.Join(lines, "\n") + "\n" +
			"     CDS             complement(3..9)\n" + strings.Join(lines, "\n") + "\n" +
			"ORIGIN      \n        1 acgtacgtac gtacgtacgt\n//\n"
		if k%2 == 1 {
			text = strings.ReplaceAll(text, "\n", "\r\n")
		}
		recs, err, p, pv, site, stack := readAll([]byte(text))
		enc := "text-origin record\n" + text
		if p {
			c.Begin(enc)
			c.Count(enc, true)
			c.ViolateX("text-origin:"+panicClass(site, pv), enc, "no panic", fmt.Sprint(pv), stack, nil)
			continue
		}
		if err != nil || len(recs) != 1 {
			c.Begin(enc)
			c.Count(enc, true)
			c.Violate("text-origin:not-read", enc, "1 record", fmt.Sprintf("%d records, err=%v", len(recs), err))
			continue
		}
		c.Bucket("origin:text-with-novel-qualifier-names")
		m.roundTrip(c, recs[0], "text", "novel qualifier names "+tag)
	}
}

// extended runs the extended-domain records of DESIGN section 2 (M4): shapes
// gts can write but that are outside the core generator, each reported under
// its own finding id and never mixed with the core claim.
func (m c01) extended(c *fw.Ctx) {
	mk := func() seqio.GenBank {
		return seqio.GenBank{Fields: seqio.GenBankFields{LocusName: "EXT", Molecule: gts.DNA, Topology: gts.Linear, Date: seqio.Date{Year: 2020, Month: 2, Day: 29},
			Definition: "extended domain", Accession: "EXT001", Version: "EXT001.1", Source: seqio.Organism{Species: "synthetic construct", Name: "synthetic construct", Taxon: []string{"other sequences"}}},
			Table:  gts.FeatureSlice{{Key: "gene", Loc: gts.Range(0, 10), Props: gts.Props{{"label", "e0"}, {"note", "plain"}}}},
			Origin: seqio.NewOrigin([]byte("acgtacgtacgtacgtacgt"))}
	}
	long := strings.Repeat("Escherichia coli str. K-12 substr. MG1655 ", 3)
	cases := []struct {
		id, what string
		classes  []string // violation classes the listed finding may produce
		build    func() gts.Sequence
	}{
		{"qualifier-value-with-double-quote", "a qualifier value containing a double quote is written unescaped and read back truncated", []string{"fidelity:qualifier", "fidelity:qualifier-count", "fidelity:feature-count", "own-output-rejected:"},
			func() gts.Sequence {
				g := mk()
				g.Table[0].Props = gts.Props{{"label", "e0"}, {"note", "say \"hi\" twice"}, {"gene", "after"}}
				return g
			}},
		{"source-line-wrapped-not-restored", "a SOURCE line longer than 67 columns is wrapped by the writer and read back with the line break inside the species", []string{"fidelity:source"},
			func() gts.Sequence { g := mk(); g.Fields.Source.Species = strings.TrimSpace(long); return g }},
		{"organism-line-wrapped-read-as-taxonomy", "an ORGANISM line longer than 67 columns is wrapped by the writer and its continuation is read back as taxonomy", []string{"fidelity:organism", "fidelity:taxonomy"},
			func() gts.Sequence { g := mk(); g.Fields.Source.Name = strings.TrimSpace(long); return g }},
	}
	for _, k := range cases {
		if !c.NextShared() {
			continue
		}
		kk := k
		hit := false
		c01Hook = func(class, enc, want, got string) bool {
			for _, pre := range kk.classes {
				if strings.HasPrefix(class, pre) {
					hit = true
					if c.KFEnabled(kk.id) {
						c.Known(kk.id, enc)
						return true
					}
					c.Violate("extended:"+kk.id, enc, want, got)
					return true
				}
			}
			return false
		}
		c.Bucket("extended:" + k.id)
		m.roundTrip(c, k.build(), "extended", k.id)
		c01Hook = nil
		_ = hit
	}
	// history dependence: an unknown qualifier name first seen as a toggle makes
	// the writer drop the value of the same name afterwards.
	if c.NextShared() {
		id := "registry-learns-toggle-then-drops-values"
		name := fmt.Sprintf("zz_flag_%d", c.Shard)
		tbl := "     gene            1..10\n                     /" + name + "\n"
		text := "LOCUS       EXT                       20 bp    DNA     linear   SYN 29-FEB-2020\nDEFINITION  x.\nACCESSION   E\nVERSION     E.1\nKEYWORDS    .\nSOURCE      s\n  ORGANISM  s\n            .\nFEATURES             Location/Qualifiers\n" + tbl + "ORIGIN      \n        1 acgtacgtac gtacgtacgt\n//\n"
		if recs, err, p, _, _, _ := readAll([]byte(text)); !p && err == nil && len(recs) == 1 {
			g := mk()
			g.Table[0].Props = gts.Props{{"label", "e0"}, {name, "a value"}}
			c01Hook = func(class, enc, want, got string) bool {
				if strings.HasPrefix(class, "fidelity:qualifier") {
					if c.KFEnabled(id) {
						c.Known(id, enc)
					} else {
						c.Violate("extended:"+id, enc, want, got)
					}
					return true
				}
				return false
			}
			c.Bucket("extended:" + id)
			m.roundTrip(c, g, "extended", id)
			c01Hook = nil
		} else {
			c.Note("registry-conflict probe record was not read: " + fmt.Sprint(err))
		}
	}
}

// cliPipe observes "gts CLI stdout piped into gts CLI stdin": every record-
// writing subcommand is run (--no-cache) on the GenBank text of generated
// records, alone and as a two-record stream; what it prints must be read back
// by the library (and round trip like any other reachable record), hold as
// many records as went in for the commands that map records one to one - also
// when the locator selects nothing in the last record - and be accepted by a
// second gts command.
func (m c01) cliPipe(c *fw.Ctx, ws [][]byte) {
	bin := os.Getenv("GTS_BIN")
	if bin == "" || len(ws) == 0 {
		c.Inconclusive("GTS_BIN not set or nothing to pipe")
		return
	}
	env, err := cli.New(bin, filepath.Join(c.WorkDir, fmt.Sprintf("c01cli-%d", c.Shard)))
	if err != nil {
		c.Inconclusive(err.Error())
		return
	}
	defer os.RemoveAll(env.Root)
	type stage struct {
		args   []string
		oneOne bool // one output record per input record
		pass   bool // a pass-through command: failing on a written record is C01's business
	}
	firsts := []stage{
		{[]string{"clear"}, true, true}, {[]string{"reverse"}, true, true}, {[]string{"complement"}, true, true}, {[]string{"sort"}, true, true},
		{[]string{"select", "CDS"}, true, true}, {[]string{"select", "-v", "gene"}, true, true},
		{[]string{"delete", "zz_no_such_key"}, true, false}, {[]string{"delete", "-e", "zz_no_such_key"}, true, false}, {[]string{"delete", "gene"}, true, false},
		{[]string{"rotate", "zz_no_such_key"}, true, false}, {[]string{"insert", "zz_no_such_key", "@acgt"}, true, false}, {[]string{"insert", "gene", "@acgt"}, true, false},
		{[]string{"define", "misc_feature", "1..1"}, true, false}, {[]string{"search", "@acg"}, true, false},
		{[]string{"define", "misc_feature", "1..1", "-q", "note=ratio a=b, c=d", "-q", "gene=x/y"}, true, false}, {[]string{"search", "@acg", "-q", "note=k=v"}, true, false},
		{[]string{"extract", "gene"}, false, false}, {[]string{"split", "gene"}, false, false}, {[]string{"join"}, false, false}, {[]string{"pick", "1"}, false, false},
	}
	seconds := [][]string{{"clear"}, {"sort"}, {"complement"}, {"reverse"}}
	for i, w := range ws {
		for j, st := range firsts {
			if !c.NextOwn() {
				continue
			}
			in := w
			nin := 1
			if (i+j)%2 == 1 {
				in = append(append([]byte{}, ws[(i+1)%len(ws)]...), w...)
				nin = 2
			}
			second := seconds[(i+j)%len(seconds)]
			enc := fmt.Sprintf("cli: gts %s | gts %s  (%d input records)\n%s", strings.Join(st.args, " "), second[0], nin, clipS(string(in), 6000))
			c.Begin(enc)
			c.Count(fmt.Sprintf("cli|%v|%s|%d|%s", st.args, second[0], nin, in), true)
			c.Bucket("cli:pipe")
			c.Bucket("cli:pipe " + st.args[0])
			a := env.Run(append(append([]string{}, st.args...), "--no-cache"), in, nil, 60*time.Second)
			if a.Exit != 0 || a.TimedOut {
				if st.pass {
					c.Violate("cli:first-stage-fails:"+st.args[0], enc, "exit 0", fmt.Sprintf("exit %d %s", a.Exit, clipS(string(a.Stderr), 500)))
				} else {
					c.Skip("gts " + st.args[0] + " does not process this record (the edit itself is judged by C02-C04/C15)")
				}
				continue
			}
			recs, rerr, pn, pv, _, _ := readAll(a.Stdout)
			if pn || rerr != nil {
				c.Violate("cli:output-not-read-back:"+st.args[0], enc, "the output of gts is read back", fmt.Sprintf("%d records, err=%v panic=%v", len(recs), rerr, pv))
				continue
			}
			if st.oneOne && len(recs) != nin {
				c.Violate("cli:records-lost-or-added:"+st.args[0], enc, fmt.Sprintf("%d records", nin), fmt.Sprintf("%d records", len(recs)))
				continue
			}
			// what gts printed is a fixed point of read-then-write: nothing in
			// the text is dropped or respelled by the reader.
			var again bytes.Buffer
			wok := true
			for _, rc := range recs {
				w, werr, wp, _, _, _ := writeGB(rc)
				if werr != nil || wp {
					wok = false
					break
				}
				again.Write(w)
			}
			if wok && !bytes.Equal(again.Bytes(), a.Stdout) {
				if c.KFEnabled("join-reduction-not-idempotent") && c01OnlyJoinsReducedFurther(a.Stdout, again.Bytes()) {
					c.Known("join-reduction-not-idempotent", enc)
					continue
				}
				c.Violate("cli:output-not-a-fixed-point:"+st.args[0], enc, clipS(string(a.Stdout), 3000), clipS(again.String(), 3000))
				continue
			}
			c.Bucket("cli:output-fixed-point")
			b := env.Run(append(append([]string{}, second...), "--no-cache"), a.Stdout, nil, 60*time.Second)
			if b.Exit != 0 || b.TimedOut {
				c.Violate("cli:second-stage-rejects-gts-output:"+second[0], enc, "exit 0", fmt.Sprintf("exit %d %s", b.Exit, clipS(string(b.Stderr), 500)))
				continue
			}
			if r2, err2, pn2, _, _, _ := readAll(b.Stdout); pn2 || err2 != nil || len(r2) != len(recs) {
				c.Violate("cli:pipe-output-not-read", enc, fmt.Sprintf("%d records", len(recs)), fmt.Sprintf("%d records err=%v", len(r2), err2))
				continue
			}
			// what gts printed is a reachable record like any other.
			if len(recs) > 0 && j%3 == 0 {
				m.roundTrip(c, recs[len(recs)-1], "cli-output", fmt.Sprintf("gts %s output, record %d", strings.Join(st.args, " "), len(recs)))
			}
		}
	}
}

// c01LiteralLoc reads a location text as it stands - no reduction, a literal
// value - so that what gts printed can be compared with what it reads back.
func c01LiteralLoc(s string) (gts.Location, bool) {
	pos := 0
	var parse func() (gts.Location, bool)
	num := func() (int, bool) {
		st := pos
		for pos < len(s) && s[pos] >= '0' && s[pos] <= '9' {
			pos++
		}
		if st == pos {
			return 0, false
		}
		n, err := strconv.Atoi(s[st:pos])
		return n, err == nil
	}
	list := func() ([]gts.Location, bool) {
		var out []gts.Location
		for {
			l, ok := parse()
			if !ok {
				return nil, false
			}
			out = append(out, l)
			if pos < len(s) && s[pos] == ',' {
				pos++
				continue
			}
			if pos < len(s) && s[pos] == ')' {
				pos++
				return out, true
			}
			return nil, false
		}
	}
	parse = func() (gts.Location, bool) {
		switch {
		case strings.HasPrefix(s[pos:], "complement("):
			pos += len("complement(")
			l, ok := parse()
			if !ok || pos >= len(s) || s[pos] != ')' {
				return nil, false
			}
			pos++
			return gts.Complemented{Location: l}, true
		case strings.HasPrefix(s[pos:], "join("):
			pos += len("join(")
			ll, ok := list()
			return gts.Joined(ll), ok
		case strings.HasPrefix(s[pos:], "order("):
			pos += len("order(")
			ll, ok := list()
			return gts.Ordered(ll), ok
		}
		p5 := false
		if pos < len(s) && s[pos] == '<' {
			p5 = true
			pos++
		}
		a, ok := num()
		if !ok {
			return nil, false
		}
		switch {
		case strings.HasPrefix(s[pos:], ".."):
			pos += 2
			p3 := false
			if pos < len(s) && s[pos] == '>' {
				p3 = true
				pos++
			}
			b, ok := num()
			if !ok || b < a {
				return nil, false
			}
			return gts.Ranged{Start: a - 1, End: b, Partial: gts.Partial{Partial5: p5, Partial3: p3}}, true
		case pos < len(s) && s[pos] == '^':
			pos++
			if _, ok := num(); !ok {
				return nil, false
			}
			return gts.Between(a), true
		case pos < len(s) && s[pos] == '.':
			pos++
			b, ok := num()
			if !ok {
				return nil, false
			}
			return gts.Ambiguous{a - 1, b}, true
		}
		if p5 {
			return nil, false
		}
		return gts.Point(a - 1), true
	}
	l, ok := parse()
	return l, ok && pos == len(s)
}

var c01KeyLine = regexp.MustCompile(`^     (\S+) +(\S+)$`)

// c01OnlyJoinsReducedFurther: two flat-file texts differ in the location column
// of feature key lines only, and every such pair is the listed deviation
// join-reduction-not-idempotent (the reader re-joins a printed join that still
// holds a repeated residue; same residues, other print).
func c01OnlyJoinsReducedFurther(a, b []byte) bool {
	la, lb := strings.Split(string(a), "\n"), strings.Split(string(b), "\n")
	if len(la) != len(lb) {
		return false
	}
	n := 0
	for i := range la {
		if la[i] == lb[i] {
			continue
		}
		ma, mb := c01KeyLine.FindStringSubmatch(la[i]), c01KeyLine.FindStringSubmatch(lb[i])
		if ma == nil || mb == nil || ma[1] != mb[1] {
			return false
		}
		x, ok1 := c01LiteralLoc(ma[2])
		y, ok2 := c01LiteralLoc(mb[2])
		if !ok1 || !ok2 {
			return false
		}
		raw := model.Bases(model.Den(x))
		xa, ya := model.CollapseDups(raw), model.CollapseDups(model.Bases(model.Den(y)))
		if !model.EqualAtoms(xa, ya) || len(xa) == len(raw) || !model.OnlyRepeatedPointsRemoved(model.Parts(x), model.Parts(y)) {
			return false
		}
		n++
	}
	return n > 0
}
