// Package mon holds one monitor (workload + oracle + coverage buckets) per
// property.
package mon

import (
	"fmt"
	"strings"

	"github.com/go-gts/gts"

	"verifharness/fw"
	"verifharness/model"
)

// All maps property ids to monitors.
var All = map[string]fw.Monitor{}

func register(m fw.Monitor) { All[m.ID()] = m }

// base supplies defaults.
type base struct{}

func (base) Level() string { return "exploration" }
func (base) Assumptions() []string {
	return []string{"Go toolchain", "the harness's reference models (harness/model), written independently of /repo"}
}
func (base) RequiredBuckets(tier string) []string { return nil }
func (base) Findings() []fw.Finding               { return nil }

// locKind names the top-level shape of a location for buckets.
func locKind(loc gts.Location) string {
	switch v := loc.(type) {
	case gts.Point:
		return "point"
	case gts.Between:
		return "site"
	case gts.Ranged:
		if v.Partial.Partial5 || v.Partial.Partial3 {
			return "prange"
		}
		return "range"
	case gts.Ambiguous:
		return "ambiguous"
	case gts.Joined:
		return "join"
	case gts.Ordered:
		return "order"
	case gts.Complemented:
		return "c-" + locKind(v.Location)
	case nil:
		return "nil"
	}
	return "other"
}

func strandOf(pp []model.Part) string {
	f, r := false, false
	for _, p := range pp {
		if p.Rev {
			r = true
		} else {
			f = true
		}
	}
	switch {
	case f && r:
		return "mixed"
	case r:
		return "rev"
	}
	return "fwd"
}

func panicClass(site string, val interface{}) string {
	s := fmt.Sprint(val)
	cat := "panic"
	switch {
	case strings.Contains(s, "index out of range"):
		cat = "index"
	case strings.Contains(s, "slice bounds"):
		cat = "slice-bounds"
	case strings.Contains(s, "nil pointer"):
		cat = "nil-deref"
	case strings.Contains(s, "divide by zero"):
		cat = "div0"
	case strings.Contains(s, "negative Repeat"):
		cat = "neg-repeat"
	case strings.Contains(s, "Ranged bounds"):
		cat = "ranged-bounds"
	case strings.Contains(s, "regexp"):
		cat = "regexp"
	case strings.Contains(s, "makeslice"):
		cat = "makeslice"
	}
	if site == "" {
		site = "outside-repo"
	}
	return "panic:" + cat + "@" + site
}

// heldSeq renders everything observable of a result (for fw.Ctx.Hold).
func heldSeq(seqs ...gts.Sequence) string {
	var b strings.Builder
	for _, s := range seqs {
		if s == nil {
			b.WriteString("<nil>\n")
			continue
		}
		fmt.Fprintf(&b, "%q %v\n", s.Bytes(), s.Info())
		for _, f := range s.Features() {
			fmt.Fprintf(&b, " %s %s %q\n", f.Key, model.SafeString(f.Loc), f.Props)
		}
	}
	return b.String()
}
