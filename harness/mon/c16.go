package mon

import (
	"bytes"
	"fmt"
	"math/rand"
	"strings"

	"github.com/go-gts/gts"
	"github.com/go-gts/gts/seqio"

	"verifharness/fw"
	"verifharness/model"
)

// C16 — ORIGIN block layout is exact for every sequence length.
//
// Oracle: model.OriginBlock / model.OriginLen / model.OriginRead (closed-form
// layout model, harness/model/c16_layout.go).

type c16 struct{ base }

func init() { register(c16{}) }

func (c16) ID() string { return "C16" }

func (c16) Rule() string {
	return "systematic: every length n in 0..1300 (quick) / 0..11999 plus a fixed sample up to 100200 (thorough), each with two residue strings " +
		"(the rolling printable alphabet 33..126 starting at n, and by n mod 3 a single repeated byte / acgt / digits) as a positive case, and with five malformed twins " +
		"(declared length one less / one more than the residues present, a wrong index on one line [7 variants], a missing separator space, a non-printable byte in a residue position), every twin as LF and as CRLF text; " +
		"the two length functions alone for every n up to 200000 (quick) / 5000000 (thorough) in ranges of 1000; " +
		"seeded: lengths biased to multiples of 10/60 +-1 up to 3000 (quick) / 20000 (thorough), residues drawn from a random subset of 33..126, positive or one random malformation (length deltas 1..70). " +
		"Oracle (closed-form layout model): NewOrigin(p).String() == model block; len == toOriginLength(n) == 10*ceil(n/60)+ceil(n/10)+n; fromOriginLength(len) == n; Len() == n before and after Bytes(); Bytes() == p; " +
		"an undecoded Origin over the model block has Len() == n and Bytes() == p; the fast validator accepts the LF block, the slow parser accepts the LF block and its CRLF twin and the Origin it yields decodes to p; " +
		"a hand-written minimal GenBank record with that ORIGIN read through seqio.NewAutoScanner gives Len == n and Bytes == p for LF and CRLF; malformed twins: both paths must reject and nothing may panic (the scanner is only watched for panics on them); a twin whose declared length ends at a line end with whole surplus lines after it (an intact block for the block readers) is read as a record with LF and with CRLF line ends: both must be rejected, or both read with the same residues. " +
		"index widths: NewOrigin of 10^(w-1)+81 residues for w = 5..9 must equal the model block byte for byte, report Len() == n and decode to the residues. streams: 2..4 hand-written records (LF: fast path, CRLF: slow path) scanned to the end first, then every record decoded: Len() and Bytes() of each must be its own. non-trivial: at least one residue (n >= 1) or a length-function range; distinct: canonical case text (kind, n, alphabet, sub-seed, malformation parameters). After decoding, the scanned record is derived through WithFeatures / WithTopology / WithInfo: Len, residues and printed block unchanged; a sixth malformed twin has an empty line before line k. Records that name a CONTIG and carry residues as well are written and read back. A seventh twin pads one line or every line with 1..9 blanks: the LF record and its CRLF twin are read alike (judged at record level only). After a stream was decoded, 700 bytes are appended to the first record's residues and a prefix of them is handed back through WithBytes; half of the streams carry a remark behind ORIGIN. Every malformed twin also stands in a record with a CONTIG line (still an error); records declaring 0 bp over a block of n <= 130 residues are errors with LF and CRLF."
}

func (c16) Assumptions() []string {
	return []string{
		"Go toolchain",
		"the closed-form layout model harness/model/c16_layout.go, written from the format definition",
		"hook H3 (seqio/export_verif.go) forwards to the unexported functions unchanged",
		"pars.State delivers the bytes of the reader it was given (the CRLF handling of pars.Line is part of the system under test)",
	}
}

var c16NegKinds = []string{"too-many", "too-few", "wrong-index", "missing-sep", "non-printable", "empty-line", "trailing-blanks"}
var c16IdxVariants = []string{"plus1", "zero-based", "plus60", "left-aligned", "zero-padded", "8-columns", "10-columns"}
var c16BadBytes = []byte{0, 9, 31, 32, 127, 128, 255}

const (
	c16KFShort    = "origin-slow-path-short-line-panic"
	c16KFOverlong = "origin-slow-path-accepts-overlong-line"
)

func (c16) RequiredBuckets(tier string) []string {
	var out []string
	for r := 0; r < 10; r++ {
		out = append(out, fmt.Sprintf("mod10|%d", r))
	}
	for _, r := range []int{0, 1, 9, 10, 11, 59} {
		out = append(out, fmt.Sprintf("mod60|%d", r))
	}
	maxW := 4
	if tier == "thorough" {
		maxW = 6
	}
	for w := 1; w <= maxW; w++ {
		out = append(out, fmt.Sprintf("idxw|%d", w))
	}
	out = append(out, "n|0", "eol|LF", "eol|CRLF", "path|fast", "path|slow", "scan|LF", "scan|CRLF", "api|fresh-origin", "api|undecoded-origin", "lenfn", "scan|derived-after-decoding")
	for _, k := range c16NegKinds {
		out = append(out, "neg|"+k+"|LF", "neg|"+k+"|CRLF")
	}
	for _, v := range c16IdxVariants {
		out = append(out, "idxvar|"+v)
	}
	for _, b := range c16BadBytes {
		out = append(out, fmt.Sprintf("badbyte|%d", b))
	}
	out = append(out, "sep|first-of-line", "sep|inner", "record|contig-only", "record|contig-and-origin", "record|long", "idxw-large|5", "idxw-large|6", "idxw-large|7", "idxw-large|8", "idxw-large|9", "stream:collected-then-decoded", "stream:slow-path", "stream:fast-path", "stream:origin-line-with-a-remark", "malformed:intact-declared-block-then-surplus-lines", "malformed:block-in-a-record-with-CONTIG", "malformed:declared-empty-with-a-block")
	for b := 33; b <= 126; b++ {
		out = append(out, fmt.Sprintf("res|%d", b))
	}
	return out
}

func (c16) Findings() []fw.Finding {
	return []fw.Finding{
		{ID: c16KFShort, What: "the slow ORIGIN parser indexes past the end of a line that holds fewer residues than the declared length needs", Witness: func() (bool, string) {
			rec := c16Record(6, []byte("        1 abcde\n"), false)
			var ok bool
			var err error
			p, val, site, _ := fw.Guard(func() {
				s := seqio.NewAutoScanner(bytes.NewReader(rec))
				ok = s.Scan()
				err = s.Err()
			})
			if p {
				return true, fmt.Sprintf("scanning a record declared 6 bp whose ORIGIN line holds 5 residues panics: %v at %s", val, site)
			}
			return false, fmt.Sprintf("scanning a record declared 6 bp whose ORIGIN line holds 5 residues: no panic (Scan=%v err=%v)", ok, err)
		}},
		{ID: c16KFOverlong, What: "the slow ORIGIN parser ignores everything after the last expected residue of a line, so it accepts blocks the fast validator rejects", Witness: func() (bool, string) {
			var tok []byte
			var err error
			p, val, _, _ := fw.Guard(func() { tok, err = seqio.VerifSlowOrigin([]byte("        1 abcde\n//\n"), 4) })
			if p {
				return false, fmt.Sprintf("slow parser on a 5-residue line declared 4: panic %v", val)
			}
			if err == nil {
				return true, fmt.Sprintf("slow parser on `        1 abcde` declared 4 residues accepts and yields %q; the fast validator rejects the same block", tok)
			}
			return false, "slow parser on `        1 abcde` declared 4 residues rejects: " + err.Error()
		}},
	}
}

// ---------------------------------------------------------------- residues

// c16Residues builds the residue string named by (n, alpha, sub).
func c16Residues(n int, alpha string, sub int64) []byte {
	p := make([]byte, n)
	switch {
	case alpha == "roll":
		for i := range p {
			p[i] = byte(33 + (int64(i)+sub)%94)
		}
	case alpha == "one":
		for i := range p {
			p[i] = byte(33 + sub%94)
		}
	case alpha == "dna":
		x := uint64(sub)*2862933555777941757 + 3037000493
		for i := range p {
			x = x*6364136223846793005 + 1442695040888963407
			p[i] = "acgt"[x>>62]
		}
	case alpha == "digits":
		for i := range p {
			p[i] = byte('0' + (int64(i)*7+sub)%10)
		}
	case strings.HasPrefix(alpha, "rand"):
		k := 1
		fmt.Sscanf(alpha, "rand%d", &k)
		r := rand.New(rand.NewSource(sub))
		perm := r.Perm(94)
		for i := range p {
			p[i] = byte(33 + perm[r.Intn(k)])
		}
	}
	return p
}

// c16Record writes a minimal GenBank record by hand around an ORIGIN block.
// c16OriginRemark is put behind ORIGIN on the ORIGIN line when set (the format
// allows free text there; the block starts on the next line all the same).
var c16OriginRemark string

func c16Record(declared int, block []byte, crlf bool) []byte {
	var b bytes.Buffer
	fmt.Fprintf(&b, "LOCUS       C16SEQ %20d bp    DNA     linear   UNA 01-JAN-2020\n", declared)
	b.WriteString("DEFINITION  origin layout probe.\nACCESSION   C16SEQ\nVERSION     C16SEQ.1\n")
	if declared > 0 {
		fmt.Fprintf(&b, "FEATURES             Location/Qualifiers\n     source          1..%d\n", declared)
	}
	b.WriteString("ORIGIN      " + c16OriginRemark + "\n")
	b.Write(block)
	b.WriteString("//\n")
	if crlf {
		return model.CRLF(b.Bytes())
	}
	return b.Bytes()
}

// c16Diff summarises the first difference of two byte strings.
func c16Diff(want, got []byte) (string, string) {
	i := 0
	for i < len(want) && i < len(got) && want[i] == got[i] {
		i++
	}
	win := func(b []byte) string {
		lo, hi := i-24, i+24
		if lo < 0 {
			lo = 0
		}
		if hi > len(b) {
			hi = len(b)
		}
		if lo > hi {
			lo = hi
		}
		return fmt.Sprintf("%q", b[lo:hi])
	}
	return fmt.Sprintf("%d bytes; around offset %d: %s", len(want), i, win(want)),
		fmt.Sprintf("%d bytes; first difference at offset %d: %s", len(got), i, win(got))
}

func (c16) lenBuckets(c *fw.Ctx, n int) {
	c.Bucket(fmt.Sprintf("mod10|%d", n%10))
	c.Bucket(fmt.Sprintf("mod60|%d", n%60))
	c.Bucket(fmt.Sprintf("idxw|%d", model.OriginIndexWidth(n)))
	if n == 0 {
		c.Bucket("n|0")
	}
}

// ---------------------------------------------------------------- positive

// positive runs every equality of the statement on one residue string.
func (m c16) positive(c *fw.Ctx, n int, alpha string, sub int64) {
	enc := fmt.Sprintf("layout n=%d residues=%s/%d", n, alpha, sub)
	c.Begin(enc)
	c.Count(enc, n >= 1)
	m.lenBuckets(c, n)
	p := c16Residues(n, alpha, sub)
	var seen [256]bool
	for _, b := range p {
		seen[b] = true
	}
	for b := 33; b <= 126; b++ {
		if seen[b] {
			c.Bucket(fmt.Sprintf("res|%d", b))
		}
	}
	block := model.OriginBlock(p)
	wantLen := model.OriginLen(n)
	if len(block) != wantLen {
		c.Violate("harness:model-inconsistent", enc, fmt.Sprint(wantLen), fmt.Sprint(len(block)))
		return
	}
	bad := func(class string, want, got []byte) {
		w, g := c16Diff(want, got)
		c.Violate(class, enc, w, g)
	}
	badInt := func(class string, want, got int) {
		c.Violate(class, enc, fmt.Sprint(want), fmt.Sprint(got))
	}

	// 1. formatting, size arithmetic, decoding, Len without decoding.
	c.Bucket("api|fresh-origin")
	{
		var str0, str1, str2 string
		var len0, len1, toLen, fromLen int
		var dec []byte
		in := append([]byte(nil), p...)
		// other residues of the same length, for the decoded value to hold next.
		p2 := make([]byte, n)
		for i := range p2 {
			p2[i] = byte(33 + (int(p[i])-33+17+i)%93)
			if p2[i] == '>' {
				p2[i] = '!'
			}
		}
		pn, val, site, stack := fw.Guard(func() {
			o := seqio.NewOrigin(in)
			len0 = o.Len()
			str0 = o.String()
			toLen = seqio.VerifToOriginLength(n)
			fromLen = seqio.VerifFromOriginLength(len(block))
			dec = append([]byte(nil), o.Bytes()...)
			len1 = o.Len()
			str1 = o.String()
			// a decoded Origin is its residues: given other residues of the
			// same length it lays those out.
			if o.Parsed {
				o.Buffer = append([]byte(nil), p2...)
				str2 = o.String()
			} else {
				str2 = string(model.OriginBlock(p2))
			}
		})
		if pn {
			c.ViolateX("origin-api:"+panicClass(site, val), enc, "no panic", fmt.Sprint(val), stack, nil)
			return
		}
		okAPI := false
		switch {
		case str0 != string(block):
			bad("format:block-differs-from-layout", block, []byte(str0))
		case toLen != wantLen:
			badInt("size:toOriginLength", wantLen, toLen)
		case fromLen != n:
			badInt("size:fromOriginLength", n, fromLen)
		case len0 != n:
			badInt("len:before-decoding", n, len0)
		case !bytes.Equal(dec, p):
			bad("decode:bytes-differ", p, dec)
		case len1 != n:
			badInt("len:after-decoding", n, len1)
		case str1 != string(block):
			bad("format:block-after-decoding", block, []byte(str1))
		case str2 != string(model.OriginBlock(p2)):
			bad("format:block-of-reassigned-residues", model.OriginBlock(p2), []byte(str2))
		default:
			okAPI = true
		}
		if !okAPI {
			return
		}
	}
	// 2. an Origin holding the (model) block undecoded, as the reader builds it.
	c.Bucket("api|undecoded-origin")
	{
		var len0, len1 int
		var dec []byte
		var str1 string
		pn, val, site, stack := fw.Guard(func() {
			u := &seqio.Origin{Buffer: append([]byte(nil), block...), Parsed: false}
			len0 = u.Len()
			dec = u.Bytes()
			len1 = u.Len()
			str1 = u.String()
		})
		if pn {
			c.ViolateX("origin-undecoded:"+panicClass(site, val), enc, "no panic", fmt.Sprint(val), stack, nil)
			return
		}
		switch {
		case len0 != n:
			badInt("undecoded:len-before-decoding", n, len0)
			return
		case !bytes.Equal(dec, p):
			bad("undecoded:bytes-differ", p, dec)
			return
		case len1 != n:
			badInt("undecoded:len-after-decoding", n, len1)
			return
		case str1 != string(block):
			bad("undecoded:block-after-decoding", block, []byte(str1))
			return
		}
	}

	// 2b. decoding one Origin must not disturb a copy that shares its block
	// (the reader hands out records whose Origin shares the scanner's buffer;
	// seqio.GenBank is copied by value all over the library).
	c.Bucket("api|decode-does-not-clobber-shared-block")
	{
		shared := append([]byte(nil), block...)
		a := &seqio.Origin{Buffer: shared, Parsed: false}
		b := *a
		var decA, decB []byte
		var strB string
		pn, val, site, stack := fw.Guard(func() {
			decA = a.Bytes()
			strB = b.String()
			decB = b.Bytes()
		})
		if pn {
			c.ViolateX("origin-shared-block:"+panicClass(site, val), enc, "no panic", fmt.Sprint(val), stack, nil)
			return
		}
		switch {
		case !bytes.Equal(decA, p):
			bad("shared-block:first-decode-differs", p, decA)
			return
		case strB != string(block):
			bad("shared-block:undecoded-copy-prints-differently-after-the-other-was-decoded", block, []byte(strB))
			return
		case !bytes.Equal(decB, p):
			bad("shared-block:second-decode-differs", p, decB)
			return
		case !bytes.Equal(shared, block):
			bad("shared-block:block-bytes-changed-by-decoding", block, shared)
			return
		}
	}

	// 3. both reading paths on the same block; the slow path also on the CRLF twin.
	crlf := model.CRLF(block)
	{
		var err error
		c.Bucket("path|fast")
		pn, val, site, stack := fw.Guard(func() { err = seqio.VerifValidateOrigin(append([]byte(nil), block...), n) })
		if pn {
			c.ViolateX("fast:"+panicClass(site, val), enc, "no panic", fmt.Sprint(val), stack, nil)
			return
		}
		if err != nil {
			c.Violate("fast:rejects-well-formed-block", enc, "accept", strings.ReplaceAll(err.Error(), "\n", " "))
			return
		}
		if n > 0 {
			pn, _, _, _ = fw.Guard(func() { err = seqio.VerifValidateOrigin(append(append([]byte(nil), crlf...), "//\r\n"...), n) })
			switch {
			case pn:
				c.Bucket("fast-on-crlf|panics")
			case err == nil:
				c.Bucket("fast-on-crlf|accepts")
			default:
				c.Bucket("fast-on-crlf|rejects")
			}
		}
	}
	for _, eol := range []string{"LF", "CRLF"} {
		text := block
		if eol == "CRLF" {
			text = crlf
		}
		c.Bucket("path|slow")
		c.Bucket("eol|" + eol)
		if !m.slowAccepts(c, enc, "slow-"+eol, append([]byte(nil), text...), n, p) {
			return
		}
	}

	// 4. the public reader.
	for _, eol := range []string{"LF", "CRLF"} {
		c.Bucket("scan|" + eol)
		rec := c16Record(n, block, eol == "CRLF")
		var ok bool
		var serr error
		var isNil bool
		var len0, len1 int
		var dec []byte
		derivedBad := ""
		pn, val, site, stack := fw.Guard(func() {
			s := seqio.NewAutoScanner(bytes.NewReader(rec))
			ok = s.Scan()
			serr = s.Err()
			v := s.Value()
			if !ok || v == nil {
				isNil = v == nil
				return
			}
			len0 = gts.Len(v)
			dec = v.Bytes()
			len1 = gts.Len(v)
			// records derived from the decoded one (what every command that
			// looks at the residues and then re-annotates does): the same
			// length, residues and block.
			for name, w := range map[string]gts.Sequence{
				"WithFeatures": gts.WithFeatures(v, v.Features()),
				"WithTopology": gts.WithTopology(v, gts.Circular),
				"WithInfo":     gts.WithInfo(v, v.Info()),
			} {
				if gts.Len(w) != n || !bytes.Equal(w.Bytes(), p) || gts.Len(w) != n {
					derivedBad = fmt.Sprintf("%s of the decoded record: Len %d, %d residues", name, gts.Len(w), len(w.Bytes()))
				} else if st, isStr := w.(fmt.Stringer); isStr && n > 0 && !strings.Contains(st.String(), "\n"+string(block)+"//") {
					derivedBad = name + " of the decoded record prints another ORIGIN block"
				}
			}
		})
		if !pn && derivedBad != "" {
			c.Violate(cl16(eol)+":record-derived-after-decoding", enc, fmt.Sprintf("Len %d, the residues and the block of the record", n), derivedBad)
			return
		}
		c.Bucket("scan|derived-after-decoding")
		cl := "scan-" + eol
		switch {
		case pn:
			c.ViolateX(cl+":"+panicClass(site, val), enc, "no panic", fmt.Sprint(val), stack, nil)
		case !ok || serr != nil:
			c.Violate(cl+":record-rejected", enc, "record read", fmt.Sprintf("Scan=%v Err=%v", ok, serr))
		case isNil:
			c.Violate(cl+":no-value", enc, "a sequence", "nil")
		case len0 != n:
			badInt(cl+":len-before-decoding", n, len0)
		case !bytes.Equal(dec, p):
			bad(cl+":bytes-differ", p, dec)
		case len1 != n:
			badInt(cl+":len-after-decoding", n, len1)
		default:
			continue
		}
		return
	}
}

func cl16(eol string) string { return "scan-" + eol }

// slowAccepts demands that the slow parser accepts text as d residues equal to
// want (decoded the way the reader does: an undecoded Origin over the token).
func (m c16) slowAccepts(c *fw.Ctx, enc, cl string, text []byte, d int, want []byte) bool {
	var tok, dec []byte
	var err error
	var ln int
	pn, val, site, stack := fw.Guard(func() {
		tok, err = seqio.VerifSlowOrigin(text, d)
		if err == nil {
			o := &seqio.Origin{Buffer: tok, Parsed: false}
			ln = o.Len()
			dec = o.Bytes()
		}
	})
	switch {
	case pn:
		c.ViolateX(cl+":"+panicClass(site, val), enc, "no panic", fmt.Sprint(val), stack, nil)
	case err != nil:
		c.Violate(cl+":rejects-well-formed-block", enc, "accept", strings.ReplaceAll(err.Error(), "\n", " "))
	case ln != d:
		c.Violate(cl+":len", enc, fmt.Sprint(d), fmt.Sprint(ln))
	case !bytes.Equal(dec, want):
		w, g := c16Diff(want, dec)
		c.Violate(cl+":residues-differ", enc, w, g)
	default:
		return true
	}
	return false
}

// ---------------------------------------------------------------- negative

// c16Neg is one malformation of the block of n residues.
type c16Neg struct {
	kind  string
	delta int // too-many / too-few: residues present minus / plus delta are declared
	line  int // wrong-index: 0-based line
	vari  int // wrong-index: variant
	group int // missing-sep: 0-based group of ten
	pos   int // non-printable: 0-based residue
	b     byte
}

func (k c16Neg) String() string {
	switch k.kind {
	case "too-many", "too-few":
		return fmt.Sprintf("%s delta=%d", k.kind, k.delta)
	case "wrong-index":
		return fmt.Sprintf("wrong-index line=%d variant=%s", k.line, c16IdxVariants[k.vari])
	case "missing-sep":
		return fmt.Sprintf("missing-sep group=%d", k.group)
	case "empty-line":
		return fmt.Sprintf("empty-line before line=%d", k.line)
	case "trailing-blanks":
		return fmt.Sprintf("trailing-blanks line=%d (every line when negative) count=%d", k.line, k.delta)
	}
	return fmt.Sprintf("non-printable residue=%d byte=%d", k.pos, k.b)
}

// lineStart is the offset of line l in a model block of >= 60*l+1 residues.
func c16LineStart(l int) int { return 76 * l }

// apply returns the malformed LF block and the declared length.
func (k c16Neg) apply(p []byte) ([]byte, int) {
	n := len(p)
	block := model.OriginBlock(p)
	switch k.kind {
	case "too-many":
		return block, n - k.delta
	case "too-few":
		return block, n + k.delta
	case "wrong-index":
		at := c16LineStart(k.line)
		v := 60*k.line + 1
		var idx []byte
		switch c16IdxVariants[k.vari] {
		case "plus1":
			idx = model.OriginIndex(v + 1)
		case "zero-based":
			idx = model.OriginIndex(v - 1)
		case "plus60":
			idx = model.OriginIndex(v + 60)
		case "left-aligned":
			idx = []byte(fmt.Sprintf("%-9d", v))
		case "zero-padded":
			idx = []byte(fmt.Sprintf("%09d", v))
		case "8-columns":
			idx = model.OriginIndex(v)[1:]
		case "10-columns":
			idx = append([]byte{' '}, model.OriginIndex(v)...)
		}
		out := append([]byte(nil), block[:at]...)
		out = append(out, idx...)
		return append(out, block[at+model.OriginLineWidth:]...), n
	case "empty-line":
		at := c16LineStart(k.line)
		out := append([]byte(nil), block[:at]...)
		out = append(out, '\n')
		return append(out, block[at:]...), n
	case "trailing-blanks":
		// card-image files: lines padded with blanks (one line, or all of them).
		var out []byte
		for li, l := range bytes.SplitAfter(block, []byte("\n")) {
			if len(l) > 0 && l[len(l)-1] == '\n' && (k.line < 0 || li == k.line) {
				l = append(append(append([]byte(nil), l[:len(l)-1]...), bytes.Repeat([]byte(" "), k.delta)...), '\n')
			}
			out = append(out, l...)
		}
		return out, n
	case "missing-sep":
		l, g := k.group/6, k.group%6
		at := c16LineStart(l) + model.OriginLineWidth + 11*g
		out := append([]byte(nil), block[:at]...)
		return append(out, block[at+1:]...), n
	default:
		l, r := k.pos/60, k.pos%60
		at := c16LineStart(l) + model.OriginLineWidth + 1 + r + r/10
		out := append([]byte(nil), block...)
		out[at] = k.b
		return out, n
	}
}

// negative runs one malformed twin (LF and CRLF) through both paths.
func (m c16) negative(c *fw.Ctx, n int, alpha string, sub int64, k c16Neg) {
	enc := fmt.Sprintf("malformed n=%d residues=%s/%d %s", n, alpha, sub, k)
	p := c16Residues(n, alpha, sub)
	blk, d := k.apply(p)
	if d < 0 {
		c.Skip("declared length would be negative")
		return
	}
	// what follows the block in a record; long enough for the reader's
	// look-ahead of the declared size.
	text := append(append([]byte(nil), blk...), "//\n"...)
	for len(text) < model.OriginLen(d)+16 {
		text = append(text, "LOCUS       NEXT\n"...)
	}
	if k.kind == "trailing-blanks" || model.OriginRead(text, d, false, false).Accept {
		// (lines padded with blanks: the fast validator wants the exact layout
		// and hands such a block to the line-by-line reader, which tolerates the
		// padding - that is the reader's own division of labour, not a
		// disagreement. What counts is the record: read alike with LF and CRLF.)
		// e.g. fewer residues declared than present with the declared count a
		// multiple of 60: the declared block is intact and followed by extra
		// lines; what follows a block is not the block readers' business.
		// For the block readers alone that is trailing material. In a record,
		// though, the block is the lines between ORIGIN and "//": the fast path
		// (LF) and the slow path (CRLF) must agree on whether such a record is
		// read, and on its residues.
		c.Begin(enc)
		c.Count(enc, true)
		if k.kind == "trailing-blanks" {
			c.Bucket("neg|trailing-blanks|LF")
			c.Bucket("neg|trailing-blanks|CRLF")
		} else {
			c.Bucket("malformed:intact-declared-block-then-surplus-lines")
		}
		type res struct {
			n   int
			err bool
			b   []byte
		}
		var rr [2]res
		for i, crlf := range []bool{false, true} {
			rec := c16Record(d, blk, crlf)
			pn, val, site, stack := fw.Guard(func() {
				s := seqio.NewAutoScanner(bytes.NewReader(rec))
				for s.Scan() && rr[i].n < 4 {
					rr[i].n++
					rr[i].b = append([]byte(nil), s.Value().Bytes()...)
				}
				rr[i].err = s.Err() != nil
			})
			if pn {
				c.ViolateX("record:"+panicClass(site, val), enc, "no panic", fmt.Sprint(val), stack, nil)
				return
			}
		}
		if d == 0 && n > 0 && k.kind != "trailing-blanks" && (!rr[0].err || !rr[1].err) {
			c.Violate("record:declared-empty-with-residues-under-ORIGIN-accepted", enc, "an error for the LF record and for its CRLF twin", fmt.Sprintf("LF: %d records error=%v; CRLF: %d records error=%v", rr[0].n, rr[0].err, rr[1].n, rr[1].err))
			return
		}
		if rr[0].err != rr[1].err || rr[0].n != rr[1].n || !bytes.Equal(rr[0].b, rr[1].b) {
			c.Violate("record:fast-and-slow-path-disagree", enc, "the LF record and its CRLF twin are both rejected, or both read with the same residues",
				fmt.Sprintf("LF: %d records error=%v %d residues; CRLF: %d records error=%v %d residues", rr[0].n, rr[0].err, len(rr[0].b), rr[1].n, rr[1].err, len(rr[1].b)))
		}
		return
	}
	c.Begin(enc)
	c.Count(enc, true)
	m.lenBuckets(c, n)
	switch k.kind {
	case "wrong-index":
		c.Bucket("idxvar|" + c16IdxVariants[k.vari])
	case "missing-sep":
		if k.group%6 == 0 {
			c.Bucket("sep|first-of-line")
		} else {
			c.Bucket("sep|inner")
		}
	case "non-printable":
		c.Bucket(fmt.Sprintf("badbyte|%d", k.b))
	}
	recAccepted := map[string]bool{}
	recResidues := map[string][]byte{}
	defer func() {
		// as the last (only) record of a stream the twin is read through the
		// fast path (LF) and the slow path (CRLF): the same verdict on both.
		if len(recAccepted) == 2 && (recAccepted["LF"] != recAccepted["CRLF"] || !bytes.Equal(recResidues["LF"], recResidues["CRLF"])) {
			c.Violate("record:fast-and-slow-path-disagree:"+k.kind, enc, "the LF record and its CRLF twin are both rejected, or both read with the same residues",
				fmt.Sprintf("LF accepted=%v (%d residues), CRLF accepted=%v (%d residues)", recAccepted["LF"], len(recResidues["LF"]), recAccepted["CRLF"], len(recResidues["CRLF"])))
		}
	}()
	for _, eol := range []string{"LF", "CRLF"} {
		c.Bucket("neg|" + k.kind + "|" + eol)
		c.Bucket("eol|" + eol)
		t := text
		if eol == "CRLF" {
			t = model.CRLF(text)
		}
		strict := model.OriginRead(t, d, true, false)
		dev := model.OriginRead(t, d, true, true)
		if strict.Accept {
			c.Violate("harness:negative-case-is-well-formed", enc, "reject", "model accepts the "+eol+" text")
			return
		}
		cl := "neg:" + k.kind + ":" + eol

		// fast path (the reader hands it exactly the declared size). A CRLF
		// text is malformed for it in any case.
		{
			c.Bucket("path|fast")
			var err error
			buf := append([]byte(nil), t[:model.OriginLen(d)]...)
			pn, val, site, stack := fw.Guard(func() { err = seqio.VerifValidateOrigin(buf, d) })
			if pn {
				c.ViolateX(cl+":fast:"+panicClass(site, val), enc, "reject without panic", fmt.Sprint(val), stack, nil)
				return
			}
			if err == nil {
				c.Violate(cl+":fast-accepts-malformed-block", enc, "reject ("+strict.Why+fmt.Sprintf(" on line %d)", strict.Line), "accepted")
				return
			}
		}
		// slow path.
		{
			c.Bucket("path|slow")
			var tok, dec []byte
			var err error
			pn, val, site, stack := fw.Guard(func() {
				tok, err = seqio.VerifSlowOrigin(append([]byte(nil), t...), d)
				if err == nil {
					dec = (&seqio.Origin{Buffer: tok, Parsed: false}).Bytes()
				}
			})
			switch {
			case pn:
				if c.KFEnabled(c16KFShort) && c16IsShortLinePanic(dev, site, val) {
					c.Known(c16KFShort, enc+" ["+eol+", hook]")
				} else {
					c.ViolateX(cl+":slow:"+panicClass(site, val), enc, "reject without panic", fmt.Sprint(val), stack, nil)
					return
				}
			case err == nil:
				if c.KFEnabled(c16KFOverlong) && dev.Accept && dev.Overlong && bytes.Equal(dec, dev.Residues) {
					c.Known(c16KFOverlong, enc+" ["+eol+"]")
				} else {
					w, g := c16Diff(dev.Residues, dec)
					c.Violate(cl+":slow-accepts-malformed-block", enc, "reject ("+strict.Why+fmt.Sprintf(" on line %d)", strict.Line)+"; fast path rejects; lenient reading: "+w, "accepted: "+g)
					return
				}
			}
		}
		// the same malformed block in a record that also names a CONTIG (which
		// lifts the check of the declared length against the residues, not the
		// check of the block): still an error.
		if k.kind != "too-many" && k.kind != "too-few" {
			rec := bytes.Replace(c16Record(d, blk, false), []byte("ORIGIN      "), []byte("CONTIG      join(U00096.3:1.."+fmt.Sprint(d)+")\nORIGIN      "), 1)
			if eol == "CRLF" {
				rec = model.CRLF(rec)
			}
			var nrec int
			var serr error
			if pn, _, _, _ := fw.Guard(func() {
				s := seqio.NewAutoScanner(bytes.NewReader(rec))
				for s.Scan() && nrec < 3 {
					nrec++
				}
				serr = s.Err()
			}); !pn {
				c.Bucket("malformed:block-in-a-record-with-CONTIG")
				if serr == nil {
					c.Violate(cl+":malformed-block-accepted-in-a-record-with-CONTIG", enc, "an error", fmt.Sprintf("%d records read, no error", nrec))
					return
				}
			}
		}
		// the public reader: only watched for panics on malformed input.
		{
			rec := c16Record(d, blk, eol == "CRLF")
			pn, val, site, stack := fw.Guard(func() {
				s := seqio.NewAutoScanner(bytes.NewReader(rec))
				var got []byte
				n := 0
				for s.Scan() && n < 3 {
					n++
					if s.Value() != nil {
						got = append([]byte(nil), s.Value().Bytes()...)
					}
				}
				recAccepted[eol] = s.Err() == nil && n > 0
				if recAccepted[eol] {
					recResidues[eol] = got
				}
			})
			if pn {
				delete(recAccepted, eol)
				if c.KFEnabled(c16KFShort) && c16IsShortLinePanic(dev, site, val) {
					c.Known(c16KFShort, enc+" ["+eol+", scanner]")
				} else {
					c.ViolateX(cl+":scan:"+panicClass(site, val), enc, "no panic", fmt.Sprint(val), stack, nil)
					return
				}
			}
		}
	}
}

// c16IsShortLinePanic: deviation model of the listed short-line defect: the
// lenient line-by-line reading runs off the end of a line at column >= 9, and
// the observed panic is an index-out-of-range inside the slow ORIGIN parser.
func c16IsShortLinePanic(dev model.OriginVerdict, site string, val interface{}) bool {
	inner := site
	if i := strings.Index(inner, "<"); i >= 0 {
		inner = inner[:i]
	}
	return !dev.Accept && dev.Short &&
		strings.Contains(fmt.Sprint(val), "index out of range") &&
		strings.Contains(inner, "slowGenBankOriginParser")
}

// ---------------------------------------------------------------- length functions

func (m c16) lenRange(c *fw.Ctx, a, b int) {
	enc := fmt.Sprintf("length-functions n=%d..%d", a, b-1)
	c.Begin(enc)
	c.Count(enc, true)
	c.Bucket("lenfn")
	for n := a; n < b; n++ {
		want := model.OriginLen(n)
		var to, from int
		pn, val, site, stack := fw.Guard(func() {
			to = seqio.VerifToOriginLength(n)
			from = seqio.VerifFromOriginLength(want)
		})
		if pn {
			c.ViolateX("size:"+panicClass(site, val), enc, "no panic", fmt.Sprintf("n=%d: %v", n, val), stack, nil)
			return
		}
		if to != want {
			c.Violate("size:toOriginLength", enc, fmt.Sprintf("toOriginLength(%d) = %d", n, want), fmt.Sprint(to))
			return
		}
		if from != n {
			c.Violate("size:fromOriginLength", enc, fmt.Sprintf("fromOriginLength(%d) = %d", want, n), fmt.Sprint(from))
			return
		}
	}
}

// ---------------------------------------------------------------- workload

// c16Sample is the fixed list of lengths beyond the exhaustive sweep
// (thorough): around multiples of 60 and 10 up to 100000, and the first
// six-digit indices.
func c16Sample() []int {
	var out []int
	for base := 12000; base <= 100000; base += 2933 {
		b := base - base%60
		out = append(out, b-1, b, b+1, b+9, b+10, b+11, b+37, b+59)
	}
	out = append(out, 99999, 100000, 100019, 100020, 100021, 100022, 100030, 100031, 100080, 100081, 100200)
	return out
}

func (m c16) sweepOne(c *fw.Ctx, n int) {
	second, sub2 := "one", int64(n/3)
	switch n % 3 {
	case 1:
		second, sub2 = "dna", int64(n)
	case 2:
		second, sub2 = "digits", int64(n)
	}
	if c.NextShared() {
		m.positive(c, n, "roll", int64(n))
	}
	if c.NextShared() {
		m.positive(c, n, second, sub2)
	}
	if n == 0 {
		return
	}
	lines, groups := (n+59)/60, (n+9)/10
	negs := []c16Neg{
		{kind: "too-many", delta: 1},
		{kind: "too-few", delta: 1},
		{kind: "wrong-index", line: (n / 7) % lines, vari: n % 7},
		{kind: "missing-sep", group: (n * 31) % groups},
		{kind: "non-printable", pos: (n * 17) % n, b: c16BadBytes[n%len(c16BadBytes)]},
		{kind: "empty-line", line: (n / 5) % lines},
		{kind: "trailing-blanks", line: []int{-1, (n / 3) % lines}[n%2], delta: 1 + n%9},
	}
	if n <= 130 && n%60 != 0 {
		// a record that declares no residues and holds a block all the same.
		negs = append(negs, c16Neg{kind: "too-many", delta: n})
		c.Bucket("malformed:declared-empty-with-a-block")
	}
	if n%60 == 0 {
		// whole surplus lines: the declared length ends exactly at a line end,
		// where a validator that looks at the declared lines only would stop.
		negs = append(negs, c16Neg{kind: "too-many", delta: n})
		if n >= 120 {
			negs = append(negs, c16Neg{kind: "too-many", delta: 60}, c16Neg{kind: "too-many", delta: n - 60})
		}
		c.Bucket("malformed:whole-surplus-lines")
	}
	for i, k := range negs {
		if !c.NextShared() {
			continue
		}
		if i%2 == 0 {
			m.negative(c, n, "roll", int64(n), k)
		} else {
			m.negative(c, n, second, sub2, k)
		}
	}
}

func (m c16) Run(c *fw.Ctx) {
	// A. exhaustive sweep over the lengths.
	maxN := c.Pick(1300, 11999)
	for n := 0; n <= maxN; n++ {
		m.sweepOne(c, n)
	}
	c.Exhaustive(fmt.Sprintf("every length n in 0..%d (two residue strings and five malformed twins each, LF and CRLF)", maxN))
	if c.Thorough() {
		for _, n := range c16Sample() {
			m.sweepOne(c, n)
		}
	}
	// B. the two length functions alone.
	maxLen := c.Pick(200000, 5000000)
	for a := 0; a < maxLen; a += 1000 {
		if c.NextShared() {
			m.lenRange(c, a, a+1000)
		}
	}
	c.Exhaustive(fmt.Sprintf("toOriginLength/fromOriginLength for every n in 0..%d", maxLen-1))

	// C. seeded cases.
	N := c.Pick(1500, 6000)
	top := c.Pick(3000, 20000)
	r := c.Rng
	for it := 0; it < N; it++ {
		c.NextOwn()
		var n int
		switch r.Intn(4) {
		case 0:
			n = r.Intn(200)
		case 1:
			n = 60*r.Intn(top/60) + []int{-1, 0, 1, 59}[r.Intn(4)]
		case 2:
			n = 10*r.Intn(top/10) + []int{-1, 0, 1}[r.Intn(3)]
		default:
			n = r.Intn(top)
		}
		if n < 0 {
			n = 0
		}
		alpha := fmt.Sprintf("rand%d", 1+r.Intn(94))
		sub := r.Int63()
		what := r.Intn(7)
		k := c16Neg{}
		if what >= 2 && n > 0 {
			k.kind = c16NegKinds[what-2]
			k.delta = 1 + r.Intn(70)
			if r.Intn(2) == 0 {
				k.delta = 1 + r.Intn(3)
			}
			k.line = r.Intn((n + 59) / 60)
			k.vari = r.Intn(len(c16IdxVariants))
			k.group = r.Intn((n + 9) / 10)
			k.pos = r.Intn(n)
			k.b = c16BadBytes[r.Intn(len(c16BadBytes))]
		}
		if c.Replaying() && c.Seq() != c.ReplaySeq {
			continue
		}
		if k.kind == "" {
			m.positive(c, n, alpha, sub)
		} else {
			m.negative(c, n, alpha, sub, k)
		}
	}

	// G. long records through both readers: whatever a reader precomputes or
	// caches for the first lines must hold for line 4097 and line 16667 too.
	for _, n := range []int{245700, 245760, 245761, 245821, 300007, 1000003} {
		for _, crlf := range []bool{false, true} {
			if !c.NextShared() {
				continue
			}
			p := make([]byte, n)
			for i := range p {
				p[i] = "acgtnrykm"[(i*5+i/97)%9]
			}
			rec := c16Record(n, model.OriginBlock(p), crlf)
			enc := fmt.Sprintf("record of %d residues, crlf=%v, read through the public reader", n, crlf)
			c.Begin(enc)
			c.Count(enc, true)
			c.Bucket("record|long")
			var got []byte
			var ln, cnt int
			var serr error
			pn, val, site, stack := fw.Guard(func() {
				s := seqio.NewAutoScanner(bytes.NewReader(rec))
				for s.Scan() && cnt < 3 {
					cnt++
					ln = gts.Len(s.Value())
					got = s.Value().Bytes()
				}
				serr = s.Err()
			})
			if pn {
				c.ViolateX("long-record:"+panicClass(site, val), enc, "no panic", fmt.Sprint(val), stack, nil)
				continue
			}
			if serr != nil || cnt != 1 {
				c.Violate("long-record:not-read", enc, "1 record", fmt.Sprintf("%d records, err=%v", cnt, serr))
				continue
			}
			if ln != n || !bytes.Equal(got, p) {
				a, b := c16Diff(p, got)
				c.Violate("long-record:residues", enc, a, fmt.Sprintf("Len()=%d; %s", ln, b))
			}
		}
	}

	// F. a record without ORIGIN block (CONTIG only): the length reported
	// without decoding is the decoded length here too.
	for _, span := range []int{1, 59, 60, 130, 4641652} {
		for _, crlf := range []bool{false, true} {
			if !c.NextShared() {
				continue
			}
			rec := fmt.Sprintf("LOCUS       CTG16 %20d bp    DNA     linear   CON 01-JAN-2020\nDEFINITION  contig only.\nACCESSION   CTG16\nVERSION     CTG16.1\nCONTIG      join(U00096.3:1..%d)\n//\n", span, span)
			if crlf {
				rec = string(model.CRLF([]byte(rec)))
			}
			enc := fmt.Sprintf("CONTIG-only record spanning %d bases, crlf=%v", span, crlf)
			c.Begin(enc)
			c.Count(enc, true)
			c.Bucket("record|contig-only")
			var ln, nb, n int
			var serr error
			pn, val, site, stack := fw.Guard(func() {
				s := seqio.NewAutoScanner(strings.NewReader(rec))
				for s.Scan() && n < 3 {
					n++
					ln = gts.Len(s.Value())
					nb = len(s.Value().Bytes())
				}
				serr = s.Err()
			})
			if pn {
				c.ViolateX("contig-only:"+panicClass(site, val), enc, "no panic", fmt.Sprint(val), stack, nil)
				continue
			}
			if serr != nil || n != 1 {
				c.Violate("contig-only:not-read", enc, "1 record", fmt.Sprintf("%d records, err=%v", n, serr))
				continue
			}
			if ln != nb {
				c.Violate("contig-only:len-differs-from-decoded-length", enc, fmt.Sprintf("Len() == len(Bytes()) == %d", nb), fmt.Sprintf("Len() = %d", ln))
			}
		}
	}

	// D2. a record that names a CONTIG and carries residues as well: written and
	// read back, the block is there and holds the residues.
	for _, n := range []int{1, 9, 59, 60, 61, 133, 600} {
		if !c.NextShared() {
			continue
		}
		p := c16Residues(n, "dna", int64(n))
		enc := fmt.Sprintf("record with a CONTIG line and %d residues, written and read back", n)
		c.Begin(enc)
		c.Count(enc, true)
		c.Bucket("record|contig-and-origin")
		gb := seqio.GenBank{Fields: seqio.GenBankFields{LocusName: "BOTH", Molecule: gts.DNA, Topology: gts.Linear, Division: "CON",
			Date: seqio.Date{Year: 2020, Month: 1, Day: 1}, Definition: "contig and residues.", Accession: "BOTH", Version: "BOTH.1",
			Contig: seqio.Contig{Accession: "U00096.3", Region: gts.Segment{0, n}}}, Origin: seqio.NewOrigin(append([]byte(nil), p...))}
		var text string
		var ln, cnt int
		var got []byte
		var serr error
		pn, val, site, stack := fw.Guard(func() {
			text = gb.String()
			s := seqio.NewAutoScanner(strings.NewReader(text))
			for s.Scan() && cnt < 3 {
				cnt++
				ln = gts.Len(s.Value())
				got = append([]byte(nil), s.Value().Bytes()...)
			}
			serr = s.Err()
		})
		switch {
		case pn:
			c.ViolateX("contig-and-origin:"+panicClass(site, val), enc, "no panic", fmt.Sprint(val), stack, nil)
		case !strings.Contains(text, "\n"+string(model.OriginBlock(p))+"//"):
			c.Violate("contig-and-origin:block-not-written", enc, "the ORIGIN block of the residues", clipS(text, 600))
		case serr != nil || cnt != 1:
			c.Violate("contig-and-origin:not-read", enc, "1 record", fmt.Sprintf("%d records, err=%v", cnt, serr))
		case ln != n || !bytes.Equal(got, p):
			c.Violate("contig-and-origin:residues-lost", enc, fmt.Sprintf("Len %d and the residues", n), fmt.Sprintf("Len %d, %d residues", ln, len(got)))
		}
	}

	// E. every index width the 9-column index can hold: one length just past
	// each power of ten (the sweep above reaches 4, thorough 6 digits).
	for w := 5; w <= 9; w++ {
		if !c.NextShared() {
			continue
		}
		n := 1
		for i := 1; i < w; i++ {
			n *= 10
		}
		n += 21 + 60 // the first index of w digits, and one more line
		enc := fmt.Sprintf("index width %d: NewOrigin of %d residues", w, n)
		c.Begin(enc)
		c.Count(enc, true)
		c.Bucket(fmt.Sprintf("idxw-large|%d", w))
		p := make([]byte, n)
		for i := range p {
			p[i] = "acgtnryk"[(i*7+i/61)%8]
		}
		want := model.OriginBlock(p)
		var o *seqio.Origin
		var ln int
		var got []byte
		pn, val, site, stack := fw.Guard(func() {
			o = seqio.NewOrigin(append([]byte(nil), p...))
			got = append([]byte(nil), o.Buffer...)
			ln = o.Len()
		})
		if pn {
			c.ViolateX("large:"+panicClass(site, val), enc, "no panic", fmt.Sprint(val), stack, nil)
			continue
		}
		if !bytes.Equal(got, want) {
			a, b := c16Diff(want, got)
			c.Violate("large:layout", enc, a, b)
			continue
		}
		if ln != n {
			c.Violate("large:len", enc, fmt.Sprint(n), fmt.Sprint(ln))
			continue
		}
		var dec []byte
		if pn, val, site, stack := fw.Guard(func() { dec = o.Bytes() }); pn {
			c.ViolateX("large:decode:"+panicClass(site, val), enc, "no panic", fmt.Sprint(val), stack, nil)
			continue
		}
		if !bytes.Equal(dec, p) {
			a, b := c16Diff(p, dec)
			c.Violate("large:bytes", enc, a, b)
		}
	}
	c.Exhaustive("index widths 5..9 (one length just past each power of ten)")

	// D. streams: the records of a stream are collected first and decoded
	// afterwards (as gts sort / gts join do); each must still hold its own
	// residues, whichever path read it.
	S := c.Pick(150, 1500)
	for it := 0; it < S; it++ {
		c.NextOwn()
		k := 2 + r.Intn(3)
		var want [][]byte
		var text []byte
		crlf := r.Intn(3) != 0
		var lens []int
		remark := []string{"", "", "1 bp upstream of EcoRI site.", "Chromosome 1; 12.5 cM"}[r.Intn(4)]
		c16OriginRemark = remark
		for i := 0; i < k; i++ {
			n := []int{1, 9, 10, 59, 60, 61, 119, 120, 121}[r.Intn(9)]
			if r.Intn(2) == 0 {
				n = 1 + r.Intn(400)
			}
			p := c16Residues(n, fmt.Sprintf("rand%d", 4+r.Intn(90)), r.Int63())
			want = append(want, p)
			lens = append(lens, n)
			text = append(text, c16Record(n, model.OriginBlock(p), crlf)...)
		}
		c16OriginRemark = ""
		if c.Replaying() && c.Seq() != c.ReplaySeq {
			continue
		}
		enc := fmt.Sprintf("stream of %d records, lengths %v, crlf=%v, decoded after the whole stream was scanned", k, lens, crlf)
		if remark != "" {
			enc += fmt.Sprintf(", ORIGIN lines carry the remark %q", remark)
			c.Bucket("stream:origin-line-with-a-remark")
		}
		c.Begin(enc)
		c.Count(fmt.Sprintf("stream|%v|%v|%x", lens, crlf, want[0]), true)
		c.Bucket("stream:collected-then-decoded")
		if crlf {
			c.Bucket("stream:slow-path")
		} else {
			c.Bucket("stream:fast-path")
		}
		var vals []gts.Sequence
		var serr error
		pn, val, site, stack := fw.Guard(func() {
			s := seqio.NewAutoScanner(bytes.NewReader(text))
			for s.Scan() && len(vals) < k+2 {
				vals = append(vals, s.Value())
			}
			serr = s.Err()
		})
		if pn {
			c.ViolateX("stream:"+panicClass(site, val), enc, "no panic", fmt.Sprint(val), stack, nil)
			continue
		}
		if serr != nil || len(vals) != k {
			c.Violate("stream:not-read", enc, fmt.Sprintf("%d records", k), fmt.Sprintf("%d records, err=%v", len(vals), serr))
			continue
		}
		for i, v := range vals {
			var got []byte
			var ln int
			if pn, val, site, stack := fw.Guard(func() { ln = gts.Len(v); got = v.Bytes() }); pn {
				c.ViolateX("stream:decode:"+panicClass(site, val), enc, "no panic", fmt.Sprint(val), stack, nil)
				break
			}
			if ln != len(want[i]) || !bytes.Equal(got, want[i]) {
				c.Violate("stream:record-holds-other-residues", enc, fmt.Sprintf("record %d: %d residues %q", i+1, len(want[i]), clipS(string(want[i]), 80)), fmt.Sprintf("Len()=%d, %q", ln, clipS(string(got), 80)))
				break
			}
		}
		// what a caller does with the residues of one record (add a tail to
		// them, hand a shorter stretch of them back to the record) stays with
		// that record.
		if pn, val, site, stack := fw.Guard(func() {
			b0 := vals[0].Bytes()
			_ = append(b0, bytes.Repeat([]byte("x"), 700)...)
			for i := 1; i < len(vals); i++ {
				if got := vals[i].Bytes(); !bytes.Equal(got, want[i]) {
					c.Violate("stream:appending-to-one-record's-residues-changes-another", enc, fmt.Sprintf("record %d: %q", i+1, clipS(string(want[i]), 80)), fmt.Sprintf("%q", clipS(string(got), 80)))
					return
				}
			}
			if m := len(b0) / 2; m > 0 {
				sh := gts.WithBytes(vals[0], b0[:m])
				if gts.Len(sh) != m || !bytes.Equal(sh.Bytes(), want[0][:m]) {
					c.Violate("stream:WithBytes-of-a-shorter-stretch-of-the-record's-own-residues", enc, fmt.Sprintf("Len %d, %q", m, clipS(string(want[0][:m]), 80)), fmt.Sprintf("Len %d, %q", gts.Len(sh), clipS(string(sh.Bytes()), 80)))
				}
			}
		}); pn {
			c.ViolateX("stream:reuse:"+panicClass(site, val), enc, "no panic", fmt.Sprint(val), stack, nil)
		}
	}
}
