package mon

import (
	"bytes"
	"fmt"
	"reflect"
	"strings"

	"github.com/go-gts/gts"
	"github.com/go-gts/gts/seqio"

	"verifharness/fw"
	"verifharness/gen"
	"verifharness/model"
)

type c03 struct{ base }

func init() { register(c03{}) }

func (c03) ID() string { return "C03" }
func (c03) Rule() string {
	return "systematic: every location of gen.Universe(L<=5|6, arity<=3) as the single labelled feature (keys gene and source) x every Delete/Erase (i,n) with 0<=i, i+n<=L and every Slice window (s,e) in [-L,L]^2 incl. negative spellings and wrap-around (empty windows excluded; ambiguous spans and full-length parts excluded for wrap-around); seeded: lengths<=60, tables<=8 features incl. source features, BasicSequence and seqio.GenBank hosts, GenBank hosts carry generated REFERENCE '(bases a to b; c to d)' lines whose expected clipping is computed by interval arithmetic. Oracle: residues per the window arithmetic; surviving features' base atoms == before minus removed in order and strand; cut ends open (all markers stripped on source after Slice), uncut ends keep their marker (markers on a junction of two abutting expected parts are don't-care); Delete: a feature that lost everything consists of sites at the cut; Erase: it is absent unless source; Slice: features with no base in the window are absent (a feature with a site inside the window is don't-care); coordinates within [0,newlen]; slice is linear; references clipped, re-based, dropped, renumbered. non-trivial: some feature shares a residue with the removed/kept boundary region; distinct: canonical case text. CLI layer: gts delete [-e], gts extract [-v] and gts split of the real binary (--no-cache) on generated records and the corpus record, single and as streams, judged by the C15 models (residues minus the union of the located regions; one record per distinct region, with -v the maximal unlocated stretches; pieces concatenate to the input; a stream's output equals the outputs of its records alone). A third of the GenBank hosts are AA records (REFERENCE lines count residues); a site-only feature that lies clear of the erased stretch must survive Erase. Ambiguous spans take part in wrap-around slices unless the window cuts them. A feature made of sites strictly inside a forward window must survive Slice."
}
func (c03) RequiredBuckets(tier string) []string {
	var out []string
	for _, op := range []string{"Delete", "Erase", "Slice"} {
		for _, k := range []string{"point", "site", "range", "prange", "ambiguous", "join", "order", "c-range", "c-join"} {
			out = append(out, op+"|"+k)
		}
		for _, a := range []string{"inside", "straddle-left", "straddle-right", "contains", "disjoint", "abuts"} {
			out = append(out, op+"|rel:"+a)
		}
	}
	out = append(out, "Slice|wrap", "Slice|negative", "Slice|forward", "Slice|refs", "Slice|of-a-slice", "Slice|source-feature", "Slice|host:genbank", "Slice|refs-of-a-protein-record", "Erase|site-only-feature-clear-of-the-region", "Slice|site-only-feature-strictly-inside-the-window")
	out = append(out, "cmd:delete", "cmd:delete -e", "cmd:extract", "cmd:extract -v", "cmd:split", "stream:records-independent", "cache-on:after-sibling")
	return out
}
func (c03) Findings() []fw.Finding {
	return []fw.Finding{
		{ID: "join-drops-point-after-range", What: "join reduction drops a single base that directly follows a range", Witness: witnessJoinDropsPoint},
		{ID: "slice-wrap-references-not-rotated", What: "a wrap-around slice clips REFERENCE base ranges against the unrotated coordinates", Witness: witnessWrapRefs},
	}
}

func witnessJoinDropsPoint() (bool, string) {
	l := gts.Join(gts.Range(3, 6), gts.Point(6))
	s := l.String()
	return s == "4..6", fmt.Sprintf("Join(Range(3,6),Point(6)) = %s, want join(4..6,7) or 4..7", s)
}

func witnessWrapRefs() (bool, string) {
	gb := seqio.GenBank{Fields: seqio.GenBankFields{LocusName: "W", Molecule: gts.DNA, Topology: gts.Circular,
		Date:       seqio.Date{Year: 2020, Month: 1, Day: 1},
		References: []seqio.Reference{{Number: 1, Info: "(bases 9 to 10)"}}},
		Origin: seqio.NewOrigin([]byte("acgtacgtac"))}
	out := gts.Slice(gb, 8, 3)
	refs := out.Info().(seqio.GenBankFields).References
	if len(refs) == 1 && refs[0].Info == "(bases 1 to 2)" {
		return false, "reference re-based to (bases 1 to 2)"
	}
	return true, fmt.Sprintf("Slice(10-base record with REFERENCE (bases 9 to 10), 8, 3) -> %d references %v, want (bases 1 to 2)", len(refs), refs)
}

// relation of a feature's parts to the window [a,b).
func relOf(pp []model.Part, a, b int) string {
	lo, hi, ok := model.Bounds(pp)
	if !ok {
		return "none"
	}
	switch {
	case hi == a || lo == b:
		return "abuts"
	case hi < a || lo > b:
		return "disjoint"
	case a <= lo && hi <= b:
		return "inside"
	case lo < a && b < hi:
		return "contains"
	case lo < a:
		return "straddle-left"
	default:
		return "straddle-right"
	}
}

type delCase struct {
	op       string // Delete, Erase, Slice
	hostKind string
	tab      []gts.Feature
	hostB    []byte
	a, b     int // Delete/Erase: offset,length; Slice: start,end as passed
	refs     []seqio.Reference
	topo     gts.Topology
	region   *gts.Segment // the record is itself a slice (Fields.Region already set)
	protein  bool         // an AA record: its REFERENCE lines count "residues"
}

func (k *delCase) enc() string {
	s := fmt.Sprintf("%s host=%s:%q args=(%d,%d) F=[", k.op, k.hostKind, k.hostB, k.a, k.b)
	for _, f := range k.tab {
		s += fmt.Sprintf("%s %s %v;", f.Key, model.SafeString(f.Loc), f.Props)
	}
	s += "]"
	if k.region != nil {
		s += fmt.Sprintf(" region=%v", *k.region)
	}
	if k.protein {
		s += " molecule=AA"
	}
	if len(k.refs) > 0 {
		s += " refs=["
		for _, r := range k.refs {
			s += fmt.Sprintf("%d:%q;", r.Number, r.Info)
		}
		s += "]"
	}
	return s
}

func (k *delCase) host() gts.Sequence {
	t := gen.SortedTable(gen.CloneTable(k.tab))
	bb := append([]byte(nil), k.hostB...)
	if k.hostKind == "genbank" {
		refs := append([]seqio.Reference(nil), k.refs...)
		f := seqio.GenBankFields{LocusName: "H", Molecule: gts.DNA, Topology: k.topo,
			Date: seqio.Date{Year: 2020, Month: 1, Day: 1}, References: refs}
		if k.protein {
			f.Molecule = gts.AA
			for i := range refs {
				refs[i].Info = strings.Replace(refs[i].Info, "(bases ", "(residues ", 1)
			}
		}
		if k.region != nil {
			f.Region = *k.region
		}
		return seqio.GenBank{Fields: f, Table: t, Origin: seqio.NewOrigin(bb)}
	}
	return gts.New(nil, t, bb)
}

func baseCount(pp []model.Part) int { return len(model.Bases(model.Atoms(pp))) }

func (m c03) check(c *fw.Ctx, k *delCase) {
	enc := k.enc()
	c.Begin(enc)
	L := len(k.hostB)
	op := k.op
	allowDrop := c.KFEnabled("join-drops-point-after-range")

	// window arithmetic.
	var want []byte
	var wrap bool
	var s, e int // normalized
	switch op {
	case "Delete", "Erase":
		s, e = k.a, k.a+k.b
		want = append(append([]byte{}, k.hostB[:s]...), k.hostB[e:]...)
	case "Slice":
		s, e = k.a, k.b
		if s < 0 {
			s += L
		}
		if e < 0 {
			e += L
		}
		if e < s {
			wrap = true
			want = append(append([]byte{}, k.hostB[s:]...), k.hostB[:e]...)
		} else {
			want = append([]byte{}, k.hostB[s:e]...)
		}
		switch {
		case wrap:
			c.Bucket("Slice|wrap")
		case k.a < 0 || k.b < 0:
			c.Bucket("Slice|negative")
		default:
			c.Bucket("Slice|forward")
		}
	}
	newL := len(want)
	nontrivial := false
	for _, f := range k.tab {
		pp := model.Parts(f.Loc)
		c.Bucket(op + "|" + locKind(f.Loc))
		rel := relOf(pp, s, e)
		if wrap {
			rel = "wrap"
		}
		c.Bucket(op + "|rel:" + rel)
		c.Bucket(op + "|strand:" + strandOf(pp))
		if rel != "disjoint" {
			nontrivial = true
		}
		if f.Key == "source" {
			c.Bucket(op + "|source-feature")
		}
	}
	c.Bucket(op + "|host:" + k.hostKind)
	c.Count(enc, nontrivial)

	host := k.host()
	var res gts.Sequence
	p, val, site, stack := fw.Guard(func() {
		switch op {
		case "Delete":
			res = gts.Delete(host, k.a, k.b)
		case "Erase":
			res = gts.Erase(host, k.a, k.b)
		default:
			res = gts.Slice(host, k.a, k.b)
		}
	})
	if p {
		c.ViolateX(op+":"+panicClass(site, val), enc, "no panic", fmt.Sprint(val), stack, nil)
		return
	}
	c.Hold(enc, func() string { return heldSeq(res) })
	if !bytes.Equal(res.Bytes(), want) {
		c.Violate(op+":residues", enc, string(want), string(res.Bytes()))
		return
	}
	if gts.Len(res) != newL {
		c.Violate(op+":len", enc, fmt.Sprint(newL), fmt.Sprint(gts.Len(res)))
		return
	}
	got := map[string][]gts.Feature{}
	for _, f := range res.Features() {
		got[gen.Label(f)] = append(got[gen.Label(f)], f)
	}
	expectedPresent := 0
	for _, f := range k.tab {
		before := model.Parts(f.Loc)
		var exp []model.XPart
		mustPresent, mustAbsent := true, false
		opt := model.CmpOpt{MaxCoord: newL, AllowDropPoint: allowDrop}
		switch op {
		case "Delete":
			exp = model.ImageDelete(before, s, e-s)
		case "Erase":
			exp = model.ImageDelete(before, s, e-s)
			nb := baseCount(before)
			if nb > 0 && baseCount(model.Plain(exp)) == 0 && f.Key != "source" {
				// lost all residues: absent when everything lies in the window,
				// don't-care when a site of it lies outside.
				allIn := true
				for _, q := range before {
					if q.Lo < s || q.Hi > e {
						allIn = false
					}
				}
				if allIn {
					mustPresent, mustAbsent = false, true
				} else {
					mustPresent = false
					c.Bucket("Erase|dontcare:lost-all-but-site-outside")
				}
			}
			if nb == 0 && f.Key != "source" {
				// a site-only feature has no residues to lose: it stays when it
				// lies clear of the erased stretch; one that touches it is
				// don't-care.
				for _, q := range before {
					if !(q.Hi < s || q.Lo > e) {
						mustPresent = false
					}
				}
				if mustPresent {
					c.Bucket("Erase|site-only-feature-clear-of-the-region")
				}
			}
		case "Slice":
			if wrap {
				rot := model.ImageRotate(before, -s, L)
				// parts that abut across the origin are one cyclically contiguous
				// stretch: which of them carries the marker of a cut is not
				// determined by the statement.
				lo0, hiL := false, false
				for _, q := range before {
					if q.Kind != model.KSite && q.Lo == 0 {
						lo0 = true
					}
					if q.Kind != model.KSite && q.Hi == L {
						hiL = true
					}
				}
				if lo0 && hiL {
					opt.IgnoreMarkers = true
				}
				exp = model.ReImage(rot, func(pp []model.Part) []model.XPart { return model.ImageDelete(pp, newL, L-newL) })
			} else {
				tail := model.ImageDelete(before, e, L-e)
				exp = model.ReImage(tail, func(pp []model.Part) []model.XPart { return model.ImageDelete(pp, 0, s) })
			}
			opt.IgnoreSites = true
			if f.Key == "source" {
				opt.AllComplete = true
			}
			if baseCount(model.Plain(exp)) == 0 {
				mustPresent = false
				hasSiteIn := false
				for _, q := range before {
					if q.Kind == model.KSite {
						hasSiteIn = true
					}
				}
				if !hasSiteIn && baseCount(before) > 0 {
					mustAbsent = true
				}
				if wrap {
					mustAbsent = false
				}
				// a feature made of sites only, every site strictly inside a
				// forward window (not on its edges): it overlaps the window and
				// lost nothing, so it is still there.
				if !wrap && baseCount(before) == 0 && len(before) > 0 {
					inside := true
					for _, q := range before {
						if q.Kind != model.KSite || q.Lo <= s || q.Lo >= e {
							inside = false
						}
					}
					if inside {
						mustPresent = true
						c.Bucket("Slice|site-only-feature-strictly-inside-the-window")
					}
				}
			}
		}
		g := got[gen.Label(f)]
		if mustAbsent {
			if len(g) != 0 {
				c.Violate(op+":feature-should-be-dropped:"+locKind(f.Loc), enc, "absent: "+gen.Label(f)+" "+model.SafeString(f.Loc), model.SafeString(g[0].Loc))
				return
			}
			continue
		}
		if len(g) == 0 && !mustPresent {
			continue
		}
		if len(g) != 1 {
			c.Violate(op+":feature-not-once:"+locKind(f.Loc), enc, "1 x "+gen.Label(f)+" "+model.SafeString(f.Loc), fmt.Sprint(len(g)))
			return
		}
		expectedPresent++
		if g[0].Key != f.Key || !reflect.DeepEqual(g[0].Props, f.Props) {
			c.Violate(op+":feature-key-props", enc, fmt.Sprintf("%s %v", f.Key, f.Props), fmt.Sprintf("%s %v", g[0].Key, g[0].Props))
			return
		}
		var obs []model.Part
		pp, pv, _, _ := fw.Guard(func() { obs = model.Parts(g[0].Loc) })
		if pp {
			c.Violate(op+":unreadable-location", enc, "", fmt.Sprint(pv))
			return
		}
		v, why, id := model.CompareImage(exp, obs, opt)
		switch v {
		case model.VKnown:
			c.Known(id, enc)
		case model.VBad:
			c.Violate(op+":loc:"+why+":"+locKind(f.Loc), enc,
				fmt.Sprintf("feature %s %s %s -> %s", f.Key, gen.Label(f), model.SafeString(f.Loc), model.XPartsString(exp)),
				fmt.Sprintf("%s = %s", model.SafeString(g[0].Loc), model.PartsString(obs)))
			return
		}
		if op == "Delete" && v == model.VOK && baseCount(model.Plain(exp)) == 0 && baseCount(before) > 0 {
			// lost everything: a zero-length site at the cut.
			at := false
			for _, q := range obs {
				if q.Kind == model.KSite && q.Lo == s {
					at = true
				}
			}
			if !at {
				c.Violate("Delete:lost-all-no-site-at-cut:"+locKind(f.Loc), enc, fmt.Sprintf("a site at %d", s), model.PartsString(obs))
				return
			}
		}
	}
	for lab, g := range got {
		if len(g) > 1 {
			c.Violate(op+":feature-duplicated", enc, "once", fmt.Sprintf("%s x %d", lab, len(g)))
			return
		}
	}
	if op == "Delete" && len(res.Features()) != len(k.tab) {
		c.Violate("Delete:feature-count", enc, fmt.Sprint(len(k.tab)), fmt.Sprint(len(res.Features())))
		return
	}
	if op == "Slice" && k.hostKind == "genbank" {
		c.Bucket("Slice|host:genbank")
		gbf, ok := res.Info().(seqio.GenBankFields)
		if !ok {
			c.Violate("Slice:info-type", enc, "GenBankFields", fmt.Sprintf("%T", res.Info()))
			return
		}
		if gbf.Topology != gts.Linear {
			c.Violate("Slice:not-linear", enc, "linear", gbf.Topology.String())
			return
		}
		if k.region != nil {
			c.Bucket("Slice|of-a-slice")
		}
		if len(k.refs) > 0 {
			c.Bucket("Slice|refs")
			got := append([]seqio.Reference(nil), gbf.References...)
			if k.protein {
				c.Bucket("Slice|refs-of-a-protein-record")
				for i := range got {
					if strings.HasPrefix(got[i].Info, "(bases ") {
						c.Violate("Slice:references-counter-word", enc, "(residues ...) in an AA record", got[i].Info)
						return
					}
					got[i].Info = strings.Replace(got[i].Info, "(residues ", "(bases ", 1)
				}
			}
			m.checkRefs(c, k, enc, got, s, e, wrap, L)
		}
	}
}

type iv struct{ lo, hi int }

// refRanges parses our own generated "(bases a to b; c to d)" strings.
func refRanges(info string) ([]iv, bool) {
	if !strings.HasPrefix(info, "(bases ") || !strings.HasSuffix(info, ")") {
		return nil, false
	}
	body := strings.TrimSuffix(strings.TrimPrefix(info, "(bases "), ")")
	var out []iv
	for _, part := range strings.Split(body, "; ") {
		var a, b int
		if n, err := fmt.Sscanf(part, "%d to %d", &a, &b); n != 2 || err != nil {
			return nil, false
		}
		out = append(out, iv{a - 1, b})
	}
	return out, true
}

func (m c03) checkRefs(c *fw.Ctx, k *delCase, enc string, got []seqio.Reference, s, e int, wrap bool, L int) {
	var want []seqio.Reference
	undecided := false
	for _, r := range k.refs {
		rr, ok := refRanges(r.Info)
		if !ok {
			want = append(want, r)
			continue
		}
		var keep []string
		for _, x := range rr {
			if !wrap {
				lo, hi := x.lo, x.hi
				if lo < s {
					lo = s
				}
				if hi > e {
					hi = e
				}
				if lo < hi {
					keep = append(keep, fmt.Sprintf("%d to %d", lo-s+1, hi-s))
				}
				continue
			}
			// wrap-around window = [s,L) ++ [0,e): a range is decided only when it
			// lies inside one arm or outside both.
			switch {
			case x.lo >= s && x.hi <= L:
				keep = append(keep, fmt.Sprintf("%d to %d", x.lo-s+1, x.hi-s))
			case x.hi <= e:
				keep = append(keep, fmt.Sprintf("%d to %d", x.lo+L-s+1, x.hi+L-s))
			case x.lo >= e && x.hi <= s:
			default:
				undecided = true
			}
		}
		if len(keep) > 0 {
			r.Info = "(bases " + strings.Join(keep, "; ") + ")"
			want = append(want, r)
		}
	}
	if undecided {
		c.Skip("Slice refs: range straddles an arm of a wrap-around window")
		return
	}
	for i := range want {
		want[i].Number = i + 1
	}
	ok := len(want) == len(got)
	if ok {
		for i := range want {
			if want[i].Number != got[i].Number || want[i].Info != got[i].Info || want[i].Title != got[i].Title {
				ok = false
			}
		}
	}
	if ok {
		return
	}
	ws, gs := "", ""
	for _, r := range want {
		ws += fmt.Sprintf("%d:%q(%s);", r.Number, r.Info, r.Title)
	}
	for _, r := range got {
		gs += fmt.Sprintf("%d:%q(%s);", r.Number, r.Info, r.Title)
	}
	if wrap && c.KFEnabled("slice-wrap-references-not-rotated") {
		// deviation model: the references are clipped against [0,newlen) of the
		// unrotated coordinates.
		var dev []seqio.Reference
		newL := L - s + e
		for _, r := range k.refs {
			rr, ok := refRanges(r.Info)
			if !ok {
				dev = append(dev, r)
				continue
			}
			var keep []string
			for _, x := range rr {
				if x.lo < newL && 0 < x.hi {
					lo, hi := x.lo, x.hi
					if hi > newL {
						hi = newL
					}
					keep = append(keep, fmt.Sprintf("%d to %d", lo+1, hi))
				}
			}
			if len(keep) > 0 {
				r.Info = "(bases " + strings.Join(keep, "; ") + ")"
				dev = append(dev, r)
			}
		}
		same := len(dev) == len(got)
		if same {
			for i := range dev {
				if got[i].Number != i+1 || dev[i].Info != got[i].Info {
					same = false
				}
			}
		}
		if same {
			c.Known("slice-wrap-references-not-rotated", enc)
			return
		}
	}
	cl := "Slice:references"
	if wrap {
		cl = "Slice:references-wrap"
	}
	c.Violate(cl, enc, ws, gs)
}

func randRefs(r interface{ Intn(int) int }, L int) []seqio.Reference {
	n := r.Intn(4)
	var out []seqio.Reference
	for i := 0; i < n; i++ {
		ref := seqio.Reference{Number: i + 1, Title: fmt.Sprintf("T%d", i)}
		switch r.Intn(5) {
		case 0:
			ref.Info = "(sites)"
		case 1:
			ref.Info = ""
		default:
			k := 1 + r.Intn(2)
			var parts []string
			for j := 0; j < k; j++ {
				a := r.Intn(L)
				b := a + 1 + r.Intn(L-a)
				parts = append(parts, fmt.Sprintf("%d to %d", a+1, b))
			}
			ref.Info = "(bases " + strings.Join(parts, "; ") + ")"
		}
		out = append(out, ref)
	}
	return out
}

// hasAmbOrFull: for a wrap-around window [s,L)+[0,e) (e < s) the location holds
// a full-length part, or an ambiguous span that the window cuts (one that lies
// wholly in [s,L), wholly in [0,e) or wholly in the left-out [e,s) is kept or
// dropped as a whole, like any other part).
func hasAmbOrFull(loc gts.Location, L int, se ...int) bool {
	for _, p := range model.Parts(loc) {
		if p.Hi-p.Lo == L && p.Kind != model.KSite {
			return true
		}
		if p.Kind == model.KAmb {
			if len(se) == 2 {
				s, e := se[0], se[1]
				if p.Lo >= s || p.Hi <= e || (p.Lo >= e && p.Hi <= s) {
					continue
				}
			}
			return true
		}
	}
	return false
}

func (m c03) Run(c *fw.Ctx) {
	maxL := c.Pick(5, 6)
	for L := 1; L <= maxL; L++ {
		uni := gen.Universe(L, 3)
		hostB := gen.UniqueBytes(0, L)
		for ui, loc := range uni {
			key := "gene"
			if ui%7 == 3 {
				key = "source"
			}
			tab := []gts.Feature{{Key: key, Loc: loc, Props: gts.Props{{"label", "h0"}}}}
			for i := 0; i <= L; i++ {
				for n := 0; i+n <= L; n++ {
					for _, op := range []string{"Delete", "Erase"} {
						if !c.NextShared() {
							continue
						}
						m.check(c, &delCase{op: op, hostKind: "basic", tab: tab, hostB: hostB, a: i, b: n})
					}
				}
			}
			for s := -L; s <= L; s++ {
				for e := -L; e <= L; e++ {
					ns, ne := s, e
					if ns < 0 {
						ns += L
					}
					if ne < 0 {
						ne += L
					}
					if ns == ne || ns >= L && ne >= L {
						continue
					}
					if ne < ns && (hasAmbOrFull(loc, L, ns, ne) || ns >= L) {
						continue
					}
					if !c.NextShared() {
						continue
					}
					m.check(c, &delCase{op: "Slice", hostKind: "basic", tab: tab, hostB: hostB, a: s, b: e})
				}
			}
		}
		c.Exhaustive(fmt.Sprintf("Universe(L=%d,arity<=3) x all Delete/Erase (i,n) x all Slice windows in [-L,L]^2", L))
	}
	N := c.Pick(20000, 600000)
	r := c.Rng
	for it := 0; it < N; it++ {
		c.NextOwn()
		L := 1 + r.Intn(60)
		o := gen.LocOpt{L: L, MaxParts: 5, MaxDepth: 3, Ambiguous: true, Overlap: r.Intn(3) == 0, Sites: true}
		tab := gen.RandTable(r, r.Intn(9), o, "h", 15)
		k := &delCase{tab: tab, hostKind: "basic", topo: gts.Linear}
		if r.Intn(3) == 0 {
			k.hostKind = "genbank"
			k.refs = randRefs(r, L)
			if r.Intn(2) == 0 {
				k.topo = gts.Circular
			}
			k.protein = r.Intn(3) == 0
			if r.Intn(3) == 0 {
				h := 1 + r.Intn(500)
				k.region = &gts.Segment{h, h + L}
			}
		}
		switch r.Intn(3) {
		case 0, 1:
			k.op = []string{"Delete", "Erase"}[r.Intn(2)]
			k.a = r.Intn(L + 1)
			k.b = r.Intn(L - k.a + 1)
			if len(tab) > 0 && r.Intn(2) == 0 {
				pp := model.Parts(tab[r.Intn(len(tab))].Loc)
				if len(pp) > 0 {
					q := pp[r.Intn(len(pp))]
					a := []int{q.Lo, q.Hi, q.Lo - 1, q.Lo + 1}[r.Intn(4)]
					if a >= 0 && a <= L {
						k.a = a
						k.b = r.Intn(L - k.a + 1)
					}
				}
			}
		default:
			k.op = "Slice"
			s, e := r.Intn(L+1), r.Intn(L+1)
			if s == e || (s >= L && e >= L) {
				s, e = 0, L
			}
			if e < s {
				// wrap-around: no ambiguous spans / full-length parts.
				bad := s >= L
				for _, f := range tab {
					if hasAmbOrFull(f.Loc, L, s, e) {
						bad = true
					}
				}
				if bad {
					s, e = e, s
				}
			}
			if r.Intn(4) == 0 && s > 0 {
				s -= L
			}
			if r.Intn(4) == 0 && e > 0 && e < L {
				e -= L
			}
			k.a, k.b = s, e
		}
		k.hostB = gen.UniqueBytes(0, L)
		if c.Replaying() && c.Seq() != c.ReplaySeq {
			continue
		}
		m.check(c, k)
	}
	// the commands the property names as observation points, on the real binary.
	c15Drive(c, []c15cmd{{"delete", nil}, {"delete", []string{"-e"}}, {"extract", nil}, {"extract", []string{"-v"}}, {"split", nil}}, c.Pick(120, 3000))
}
