package mon

import (
	"bytes"
	"crypto/sha1"
	"encoding/hex"
	"fmt"
	"hash/crc32"
	"math/rand"
	"os"
	"path/filepath"
	"regexp"
	"sort"
	"strings"
	"time"

	"verifharness/cli"
	"verifharness/fw"
)

type c14 struct{ base }

func init() { register(c14{}) }

func (c14) ID() string { return "C14" }
func (c14) Rule() string {
	return "history monitor on the real gts binary (built with hooks H1/H2, scratch HOME/XDG_CACHE_HOME/TMPDIR): for each of the 19 cached subcommands a base invocation a and neighbours a' that differ from a in exactly one thing (each boolean option toggled, each valued option changed, each positional changed, the content of a secondary input changed under the same path, the primary input changed, -F switched); histories over one cache directory: [a,a], [a,a',a], [a',a,a',a], [a -o f, a], [a, a -o f, a], with failing inputs [bad,bad], [bad,good,bad], and [a,b,a,b] where b is another subcommand given a's arguments and input (every ordered pair of subcommands), and [a,a,a -o f,a] on a 2.6 MB three-record FASTA stream for clear, reverse, complement, sort. Oracle: every invocation's (output bytes on stdout or in the -o file, exit status) equals the memoised result of the same command with --no-cache in a pristine environment. The H2 event log must show a real cache hit for every command (else inconclusive); the option table is cross-checked against `gts <cmd> --help`. non-trivial: a history whose neighbour references differ (the changed thing matters on that input) or that contains a real hit; distinct: (argv, input digests, history shape). Also: a cache directory that takes no new entry (gts-cache linked to /proc/self), and the entry of a multi-MiB output torn as by a killed writer (zeroed header, half of the stored blocks) before the next identical run. A three-record infix host file and its twin that differs in the last residue of the last record. -F fastq / -F embl next to -F fasta / -F genbank; pairs of FASTA inputs with equal length and equal CRC-32 (IEEE and Castagnoli). Near-twins: the corpus record with CRLF line ends, a feature table differing in the blanks of a quoted value, the 2.6 MB and the 17 MiB input with one residue changed in the middle. select -s forward / reverse / both; delete CDS / delete cds; define with a repeated -q name, its last value alone, and the other order."
}
func (c14) Assumptions() []string {
	return []string{"the --no-cache run in a pristine environment is the reference (memoised per argv+input digests)", "stderr is not compared", "one gts process at a time per cache directory", "Go toolchain; hooks H1/H2 only observe"}
}

var c14Commands = []string{"annotate", "clear", "complement", "define", "delete", "extract", "infix", "insert", "join", "pick", "query", "repair", "reverse", "rotate", "search", "select", "sort", "split", "summary"}

func (c14) RequiredBuckets(tier string) []string {
	var out []string
	for _, k := range c14Commands {
		out = append(out, "cmd:"+k, "hit:"+k)
	}
	out = append(out, "shape:a,b,a,b", "aspect:command", "input:multi-MiB", "input:regular-file-stdin", "output:unwritable", "environment:unusable-TMPDIR", "environment:cache-directory-takes-no-entries", "entry:torn-by-a-killed-writer", "input:17-MiB", "shape:a,a", "shape:a,a',a", "shape:-o", "shape:bad,bad", "aspect:option", "aspect:positional", "aspect:secondary-input", "aspect:primary-input", "aspect:format", "help-crosscheck")
	return out
}
func (c14) Findings() []fw.Finding { return nil }

type inv struct {
	args  []string          // without --no-cache / -o
	stdin string            // key into inputs
	files map[string]string // relative path -> key into inputs
	out   string            // "" = stdout, else relative -o path
	// stdinAt >= 0: stdin is a regular file opened on the input and positioned
	// stdinAt bytes into it (gts cmd < file); -1 (zero value + 1 below): a pipe.
	stdinFile bool
	stdinAt   int
	env       []string // extra environment entries (override the driver's)
	// before runs ahead of the invocation in a history (never ahead of the
	// reference run): something that happened to the cache directory meanwhile.
	before func(cacheDir string)
}

func (v inv) withOut(p string) inv { v.out = p; return v }

func (v inv) key(inputs map[string][]byte) string {
	h := sha1.New()
	fmt.Fprintf(h, "%q|%s|%v|%d|%q|", v.args, v.out, v.stdinFile, v.stdinAt, v.env)
	h.Write(inputs[v.stdin])
	var names []string
	for n := range v.files {
		names = append(names, n)
	}
	sort.Strings(names)
	for _, n := range names {
		fmt.Fprintf(h, "|%s:", n)
		h.Write(inputs[v.files[n]])
	}
	return hex.EncodeToString(h.Sum(nil))
}

func (v inv) String() string {
	s := "gts " + strings.Join(v.args, " ")
	if v.out != "" {
		s += " -o " + v.out
	}
	s += " <" + v.stdin
	if v.stdinFile {
		s += fmt.Sprintf(" (a regular file, read position %d)", v.stdinAt)
	}
	if len(v.env) > 0 {
		s += fmt.Sprintf(" env %v", v.env)
	}
	if v.before != nil {
		s += " (after the cache directory was interfered with)"
	}
	for n, k := range v.files {
		s += fmt.Sprintf(" [%s=%s]", n, k)
	}
	return s
}

type outcome struct {
	out  []byte
	exit int
	bad  string // watchdog etc.
}

type c14run struct {
	c      *fw.Ctx
	env    *cli.Env
	ref    *cli.Env
	inputs map[string][]byte
	memo   map[string]outcome
}

func (x *c14run) exec(env *cli.Env, v inv, nocache bool) outcome {
	for n, k := range v.files {
		os.WriteFile(env.File(n), x.inputs[k], 0644)
	}
	args := append([]string{}, v.args...)
	if v.out == "/dev/full" {
		args = append(args, "-o", v.out)
	} else if v.out != "" {
		os.Remove(env.File(v.out))
		args = append(args, "-o", v.out)
	}
	if nocache {
		args = append(args, "--no-cache")
	}
	var r cli.Result
	if v.stdinFile {
		r = env.RunFile(args, x.inputs[v.stdin], v.stdinAt, v.env, 120*time.Second)
	} else {
		r = env.Run(args, x.inputs[v.stdin], v.env, 120*time.Second)
	}
	o := outcome{out: r.Stdout, exit: r.Exit}
	if r.TimedOut {
		o.bad = "watchdog"
	}
	if r.Signaled {
		o.bad = "signaled"
	}
	if v.out == "/dev/full" {
		// every write fails with ENOSPC: only the exit status and stdout count.
	} else if v.out != "" {
		b, err := os.ReadFile(env.File(v.out))
		if err == nil {
			o.out = append(append([]byte("<file>"), b...), append([]byte("<stdout>"), r.Stdout...)...)
		} else {
			o.out = append([]byte("<nofile><stdout>"), r.Stdout...)
		}
		os.Remove(env.File(v.out))
	}
	return o
}

func (x *c14run) reference(v inv) outcome {
	k := v.key(x.inputs)
	if o, ok := x.memo[k]; ok {
		return o
	}
	x.ref.ResetCache()
	o := x.exec(x.ref, v, true)
	x.memo[k] = o
	return o
}

type neighbour struct {
	aspect string // option | positional | secondary-input | primary-input | format
	what   string
	v      inv
}

type cmdPlan struct {
	name  string
	base  inv
	neigh []neighbour
	opts  []string // long option names covered (for the --help cross-check)
}

func c14Plans() []cmdPlan {
	gb := "phix.gb"
	mk := func(args ...string) inv { return inv{args: args, stdin: gb} }
	with := func(v inv, extra ...string) inv {
		v.args = append(append([]string{}, v.args...), extra...)
		return v
	}
	stdin := func(v inv, s string) inv { v.stdin = s; return v }
	file := func(v inv, name, key string) inv {
		m := map[string]string{}
		for k, x := range v.files {
			m[k] = x
		}
		m[name] = key
		v.files = m
		return v
	}
	fmtN := func(b inv) []neighbour {
		return []neighbour{{"format", "-F fasta", with(b, "-F", "fasta")}, {"format", "-F genbank", with(b, "-F", "genbank")}, {"primary-input", "other input", stdin(b, "pbat5.gb")}}
	}
	var plans []cmdPlan
	// annotate
	{
		b := file(mk("annotate", "feat.tbl"), "feat.tbl", "feat1.tbl")
		n := fmtN(b)
		n = append(n, neighbour{"secondary-input", "feature table content changed", file(b, "feat.tbl", "feat2.tbl")})
		plans = append(plans, cmdPlan{"annotate", b, n, []string{"format"}})
	}
	for _, name := range []string{"clear", "complement", "reverse"} {
		b := mk(name)
		plans = append(plans, cmdPlan{name, b, fmtN(b), []string{"format"}})
	}
	for _, name := range []string{"clear", "reverse"} {
		for _, tw := range []string{"ieee", "castagnoli"} {
			ba := stdin(mk(name), "crc-"+tw+"-a.fasta")
			plans = append(plans, cmdPlan{name, ba, []neighbour{{"primary-input", "another input of the same length and the same CRC-32 (" + tw + ")", stdin(mk(name), "crc-"+tw+"-b.fasta")}}, nil})
		}
	}
	for _, name := range []string{"clear", "reverse"} {
		plans = append(plans, cmdPlan{name, mk(name), []neighbour{{"primary-input", "the same record with CRLF line ends", stdin(mk(name), "phix-crlf.gb")}}, nil})
		bb := stdin(mk(name), "big.fasta")
		plans = append(plans, cmdPlan{name, bb, []neighbour{{"primary-input", "a multi-MiB input that differs in one residue in its middle", stdin(mk(name), "big-middle.fasta")}}, nil})
	}
	{
		b := file(mk("annotate", "feat.tbl"), "feat.tbl", "feat1-blank.tbl")
		plans = append(plans, cmdPlan{"annotate", b, []neighbour{{"secondary-input", "feature table differing in the blanks inside a quoted value only", file(b, "feat.tbl", "feat1-blanks.tbl")}}, nil})
	}
	{
		bf := mk("select", "CDS", "-s", "forward")
		plans = append(plans, cmdPlan{"select", bf, []neighbour{{"option", "-s reverse instead of -s forward", mk("select", "CDS", "-s", "reverse")}, {"option", "-s both instead of -s forward", mk("select", "CDS", "-s", "both")}}, nil})
		bd := mk("delete", "CDS")
		plans = append(plans, cmdPlan{"delete", bd, []neighbour{{"positional", "the locator in lower case (another key)", mk("delete", "cds")}}, nil})
		bq := mk("define", "misc_feature", "10..40", "-q", "note=first", "-q", "note=second")
		plans = append(plans, cmdPlan{"define", bq, []neighbour{{"option", "only the last value of the repeated qualifier", mk("define", "misc_feature", "10..40", "-q", "note=second")}, {"option", "the values of the repeated qualifier in the other order", mk("define", "misc_feature", "10..40", "-q", "note=second", "-q", "note=first")}}, nil})
	}
	// format names of one family (what the writer makes of them is its own
	// business; the cache must keep them apart as long as the outputs differ).
	for _, name := range []string{"clear", "sort"} {
		bf, bg := with(mk(name), "-F", "fasta"), with(mk(name), "-F", "genbank")
		plans = append(plans, cmdPlan{name, bf, []neighbour{{"format", "-F fastq instead of -F fasta", with(mk(name), "-F", "fastq")}, {"format", "-F embl instead of -F fasta", with(mk(name), "-F", "embl")}}, nil})
		plans = append(plans, cmdPlan{name, bg, []neighbour{{"format", "-F embl instead of -F genbank", with(mk(name), "-F", "embl")}, {"format", "-F fastq instead of -F genbank", with(mk(name), "-F", "fastq")}}, nil})
		bfa := stdin(with(mk(name), "-F", "genbank"), "phix.fasta")
		plans = append(plans, cmdPlan{name, bfa, []neighbour{{"format", "-F embl instead of -F genbank, FASTA input", stdin(with(mk(name), "-F", "embl"), "phix.fasta")}}, nil})
	}
	{
		// gts repair panics on the phiX174 table (known C12 finding), so its base
		// input is a record it can process: otherwise no entry is ever created.
		b := stdin(mk("repair"), "pbat5.gb")
		n := []neighbour{{"format", "-F fasta", with(b, "-F", "fasta")}, {"format", "-F genbank", with(b, "-F", "genbank")}, {"primary-input", "other input", stdin(b, "phix_part.gb")}}
		plans = append(plans, cmdPlan{"repair", b, n, []string{"format"}})
	}
	{
		b := mk("define", "misc_feature", "3..20")
		n := fmtN(b)
		n = append(n, neighbour{"positional", "key", mk("define", "gene", "3..20")}, neighbour{"positional", "location", mk("define", "misc_feature", "3..21")},
			neighbour{"positional", "location strand", mk("define", "misc_feature", "complement(3..20)")},
			neighbour{"option", "-q note=a", with(b, "-q", "note=a")})
		for _, pair := range [][2]string{{"join(3..8,12..20)", "order(3..8,12..20)"}, {"5", "4^5"}, {"complement(5)", "complement(4^5)"}, {"3..20", "<3..20"}, {"3..20", "3..>20"}, {"3.20", "3..20"}} {
			plans = append(plans, cmdPlan{"define", mk("define", "misc_feature", pair[0]), []neighbour{{"positional", "location kind " + pair[0] + " vs " + pair[1], mk("define", "misc_feature", pair[1])}}, nil})
		}
		b2 := with(b, "-q", "note=a")
		n = append(n, neighbour{"option", "-q value vs base -q", b2})
		plans = append(plans, cmdPlan{"define", b, n, []string{"format", "qualifier"}})
		plans = append(plans, cmdPlan{"define", b2, []neighbour{{"option", "-q note=a -> note=b", with(b, "-q", "note=b")}, {"option", "second -q", with(b2, "-q", "gene=x")}}, []string{"format", "qualifier"}})
		b4 := with(b2, "-q", "gene=x")
		plans = append(plans, cmdPlan{"define", b4, []neighbour{{"option", "same -q pairs, other order", with(with(b, "-q", "gene=x"), "-q", "note=a")}}, nil})
	}
	{
		b := mk("delete", "CDS")
		n := fmtN(b)
		n = append(n, neighbour{"option", "-e", with(b, "-e")}, neighbour{"positional", "locator", mk("delete", "gene")}, neighbour{"positional", "locator modifier", mk("delete", "CDS@^..^+10")})
		plans = append(plans, cmdPlan{"delete", b, n, []string{"format", "erase"}})
	}
	{
		b := mk("extract", "CDS")
		n := fmtN(b)
		n = append(n, neighbour{"option", "-v", with(b, "-v")}, neighbour{"positional", "locator", mk("extract", "gene")}, neighbour{"positional", "second locator", mk("extract", "CDS", "1..30")},
			neighbour{"positional", "no locator", mk("extract")})
		b2 := mk("extract", "21..30", "1..10")
		plans = append(plans, cmdPlan{"extract", b2, []neighbour{{"positional", "same locators, other order", mk("extract", "1..10", "21..30")}, {"positional", "duplicate locator", mk("extract", "21..30", "1..10", "21..30")}}, nil})
		plans = append(plans, cmdPlan{"extract", b, n, []string{"format", "invert-region"}})
	}
	{
		b := file(inv{args: []string{"infix", "100", "host.gb"}, stdin: "guest.fasta"}, "host.gb", "phix_part.gb")
		n := []neighbour{{"format", "-F fasta", with(b, "-F", "fasta")}, {"primary-input", "other guest", stdin(b, "guest2.fasta")},
			{"option", "-e", with(b, "-e")}, {"positional", "locator", file(inv{args: []string{"infix", "200", "host.gb"}, stdin: "guest.fasta"}, "host.gb", "phix_part.gb")},
			{"secondary-input", "host content changed", file(b, "host.gb", "pbat5.gb")},
			{"secondary-input", "host annotation changed (same residues)", file(b, "host.gb", "phix_part-relabel.gb")}}
		plans = append(plans, cmdPlan{"infix", b, n, []string{"format", "embed"}})
		bm := file(inv{args: []string{"infix", "100", "host.gb"}, stdin: "guest.fasta"}, "host.gb", "hosts-multi.gb")
		plans = append(plans, cmdPlan{"infix", bm, []neighbour{{"secondary-input", "three host records; the last one changed in its last residue", file(bm, "host.gb", "hosts-multi-tail.gb")}}, nil})
	}
	{
		b := file(mk("insert", "100", "guest.fa"), "guest.fa", "guest.fasta")
		n := fmtN(b)
		n = append(n, neighbour{"option", "-e", with(b, "-e")}, neighbour{"positional", "locator", file(mk("insert", "CDS", "guest.fa"), "guest.fa", "guest.fasta")},
			neighbour{"secondary-input", "guest content changed", file(b, "guest.fa", "guest2.fasta")}, neighbour{"positional", "guest literal", mk("insert", "100", "@acgtacgt")},
			neighbour{"secondary-input", "guest split into two records (same residues)", file(b, "guest.fa", "guest-split.fasta")},
			neighbour{"secondary-input", "guest as GenBank with a feature (same residues)", file(b, "guest.fa", "guest-annot.gb")})
		bg := file(mk("insert", "100", "guest.fa"), "guest.fa", "guest-annot.gb")
		plans = append(plans, cmdPlan{"insert", bg, []neighbour{{"secondary-input", "guest annotation changed (same residues)", file(bg, "guest.fa", "guest-annot2.gb")}}, nil})
		plans = append(plans, cmdPlan{"insert", b, n, []string{"format", "embed"}})
		b2 := mk("insert", "100", "@acgtacgt")
		plans = append(plans, cmdPlan{"insert", b2, []neighbour{{"positional", "guest literal changed", mk("insert", "100", "@acgtacgc")}, {"option", "-e", with(b2, "-e")}}, []string{"format", "embed"}})
	}
	{
		b := inv{args: []string{"join"}, stdin: "multi.gb"}
		n := []neighbour{{"format", "-F fasta", with(b, "-F", "fasta")}, {"option", "-c", with(b, "-c")}, {"primary-input", "other input", stdin(b, "multi2.gb")}}
		plans = append(plans, cmdPlan{"join", b, n, []string{"format", "circular"}})
		// the head of multi.gb is circular already, so -c changes nothing there:
		// a stream whose head is linear, where it does.
		bl := inv{args: []string{"join"}, stdin: "multi-lin.gb"}
		plans = append(plans, cmdPlan{"join", bl, []neighbour{{"option", "-c on a stream whose head is linear", with(bl, "-c")}, {"format", "-F genbank", with(bl, "-F", "genbank")}}, nil})
		blc := with(bl, "-c")
		plans = append(plans, cmdPlan{"join", blc, []neighbour{{"option", "without -c, linear head", bl}, {"format", "-c -F fasta", with(blc, "-F", "fasta")}}, nil})
	}
	{
		b := inv{args: []string{"pick", "1"}, stdin: "multi.gb"}
		n := []neighbour{{"format", "-F fasta", with(b, "-F", "fasta")}, {"option", "-f", with(b, "-f")}, {"positional", "list", inv{args: []string{"pick", "2"}, stdin: "multi.gb"}},
			{"positional", "list range", inv{args: []string{"pick", "1-2"}, stdin: "multi.gb"}}, {"primary-input", "other input", stdin(b, "multi2.gb")}}
		plans = append(plans, cmdPlan{"pick", b, n, []string{"format", "feature"}})
	}
	{
		b := mk("query")
		n := []neighbour{{"primary-input", "other input", stdin(b, "pbat5.gb")}}
		for _, o := range [][]string{{"-n", "gene"}, {"-d", ","}, {"-t", ";"}, {"-H"}, {"--source"}, {"-I"}, {"-K"}, {"-L"}, {"--empty"}} {
			n = append(n, neighbour{"option", strings.Join(o, " "), with(b, o...)})
		}
		plans = append(plans, cmdPlan{"query", b, n, []string{"name", "delimiter", "separator", "no-header", "source", "no-seqid", "no-key", "no-location", "empty"}})
		b2 := with(b, "-n", "gene")
		b3 := with(b2, "-n", "product")
		plans = append(plans, cmdPlan{"query", b3, []neighbour{{"option", "same -n names, other order", with(with(b, "-n", "product"), "-n", "gene")}}, nil})
		plans = append(plans, cmdPlan{"query", b2, []neighbour{{"option", "-n gene -> product", with(b, "-n", "product")}, {"option", "second -n", with(b2, "-n", "product")},
			{"option", "--empty with -n", with(b2, "--empty")}, {"option", "-t with -n", with(b2, "-t", ";")}}, nil})
	}
	for _, name := range []string{"rotate", "split"} {
		b := mk(name, "CDS")
		n := fmtN(b)
		n = append(n, neighbour{"positional", "locator", mk(name, "gene")}, neighbour{"positional", "locator point", mk(name, "100")}, neighbour{"positional", "locator modifier", mk(name, "CDS@$")})
		plans = append(plans, cmdPlan{name, b, n, []string{"format"}})
	}
	{
		b := mk("search", "@gagttttatc")
		n := fmtN(b)
		n = append(n, neighbour{"positional", "query literal", mk("search", "@cgcagaagtt")}, neighbour{"option", "-k", with(b, "-k", "primer_bind")}, neighbour{"option", "-q", with(b, "-q", "note=hit")},
			neighbour{"option", "-e", with(mk("search", "@gagttnnatc"), "-e")}, neighbour{"option", "--no-complement", with(b, "--no-complement")})
		plans = append(plans, cmdPlan{"search", b, n, []string{"format", "key", "qualifier", "exact", "no-complement"}})
		b2 := file(mk("search", "q.fa"), "q.fa", "query1.fasta")
		plans = append(plans, cmdPlan{"search", b2, []neighbour{{"secondary-input", "query file content changed", file(b2, "q.fa", "query2.fasta")}, {"option", "-e", with(b2, "-e")},
			{"secondary-input", "query file split into two records (same residues)", file(b2, "q.fa", "query-split.fasta")}}, nil})
		// a literal query and a query file that holds the same letters and nothing else.
		plans = append(plans, cmdPlan{"search", b, []neighbour{{"secondary-input", "a query file holding just the literal's letters", file(mk("search", "q-bare.txt"), "q-bare.txt", "query-bare.txt")}}, nil})
		b3 := mk("search", "@gagttnnatc")
		plans = append(plans, cmdPlan{"search", b3, []neighbour{{"option", "-e on ambiguous query", with(b3, "-e")}}, nil})
	}
	{
		b := mk("select", "CDS")
		n := fmtN(b)
		n = append(n, neighbour{"positional", "selector", mk("select", "gene")}, neighbour{"positional", "second selector", mk("select", "CDS", "gene")},
			neighbour{"positional", "same selectors, other order", mk("select", "gene", "CDS")}, neighbour{"option", "-s forward", with(b, "-s", "forward")}, neighbour{"option", "-s reverse", with(b, "-s", "reverse")}, neighbour{"option", "-v", with(b, "-v")})
		plans = append(plans, cmdPlan{"select", b, n, []string{"format", "strand", "invert-match"}})
	}
	{
		b := inv{args: []string{"sort"}, stdin: "multi.gb"}
		n := []neighbour{{"format", "-F fasta", with(b, "-F", "fasta")}, {"option", "-r", with(b, "-r")}, {"primary-input", "other input", stdin(b, "multi2.gb")}}
		plans = append(plans, cmdPlan{"sort", b, n, []string{"format", "reverse"}})
	}
	{
		b := mk("summary")
		n := []neighbour{{"option", "-F", with(b, "-F")}, {"option", "-Q", with(b, "-Q")}, {"primary-input", "other input", stdin(b, "pbat5.gb")}}
		plans = append(plans, cmdPlan{"summary", b, n, []string{"no-feature", "no-qualifier"}})
	}
	// options whose effect needs particular data: a multi-valued qualifier for
	// the value separator, a hit on the other strand for --no-complement, a
	// feature elsewhere for rotate.
	{
		b := stdin(mk("query", "-n", "db_xref"), "phix-multi.gb")
		plans = append(plans, cmdPlan{"query", b, []neighbour{{"option", "-t ; on a multi-valued qualifier", with(b, "-t", ";")}, {"option", "-t ,; (invalid) on a multi-valued qualifier", with(b, "-t", ",;")}, {"option", "--empty", with(b, "--empty", "-n", "gene")}}, nil})
		s := mk("search", "@aacttctgcg")
		plans = append(plans, cmdPlan{"search", s, []neighbour{{"option", "--no-complement with a hit on the other strand", with(s, "--no-complement")}}, nil})
		r := mk("rotate", "CDS")
		plans = append(plans, cmdPlan{"rotate", r, []neighbour{{"positional", "locator elsewhere", mk("rotate", "misc_feature")}, {"positional", "locator elsewhere", mk("rotate", "2000")}}, nil})
	}
	// two arguments versus the same text as one argument with a blank in it.
	plans = append(plans,
		cmdPlan{"select", mk("select", "CDS", "gene"), []neighbour{{"positional", "two selectors vs one selector with a blank", mk("select", "CDS gene")}}, nil},
		cmdPlan{"select", mk("select", "CDS/product=DNA", "polymerase"), []neighbour{{"positional", "two selectors vs one selector with a blank", mk("select", "CDS/product=DNA polymerase")}}, nil},
		cmdPlan{"extract", mk("extract", "CDS", "gene"), []neighbour{{"positional", "two locators vs one locator with a blank", mk("extract", "CDS gene")}}, nil},
		cmdPlan{"query", with(with(mk("query"), "-n", "gene"), "-n", "product"), []neighbour{{"option", "two names vs one name with a blank", with(mk("query"), "-n", "gene product")}}, nil},
		cmdPlan{"define", with(with(mk("define", "misc_feature", "3..20"), "-q", "note=a"), "-q", "gene=x"), []neighbour{{"option", "two qualifiers vs one with a blank", with(mk("define", "misc_feature", "3..20"), "-q", "note=a gene=x")}}, nil})
	// two switches of one command together: each pair (o1, o2) of the option
	// neighbours of a plan gives the history "base+o1, then base+o1+o2" (and
	// the other way round), so a key that folds one switch into another is
	// replayed against an entry it must not share.
	{
		var pairs []cmdPlan
		for _, p := range plans {
			if p.opts == nil {
				continue
			}
			var sw [][]string
			for _, nb := range p.neigh {
				if nb.aspect != "option" || len(nb.v.args) <= len(p.base.args) || nb.v.stdin != p.base.stdin {
					continue
				}
				same := true
				for i := range p.base.args {
					same = same && nb.v.args[i] == p.base.args[i]
				}
				if same {
					sw = append(sw, nb.v.args[len(p.base.args):])
				}
			}
			if len(sw) > 4 {
				sw = sw[:4]
			}
			for i := range sw {
				for j := range sw {
					if i == j || (len(sw[i]) > 0 && len(sw[j]) > 0 && sw[i][0] == sw[j][0]) {
						continue
					}
					b1 := with(p.base, sw[i]...)
					pairs = append(pairs, cmdPlan{p.name, b1, []neighbour{{"option", strings.Join(sw[j], " ") + " on top of " + strings.Join(sw[i], " "), with(b1, sw[j]...)}}, nil})
				}
			}
		}
		plans = append(plans, pairs...)
	}
	// values that begin like the option's default (or like a valid value) and
	// go on: rejected, or simply different - never answered from the entry of
	// the run they resemble.
	for i := range plans {
		p := &plans[i]
		if len(p.base.args) != 1 {
			continue
		}
		var extra [][]string
		switch p.name {
		case "query":
			extra = [][]string{{"-t", ",;"}, {"-t", ",,"}, {"-d", "\t|"}}
		case "select":
			extra = [][]string{{"-s", "bothx"}, {"-s", "forwardx"}}
		case "search":
			continue
		}
		extra = append(extra, []string{"-F", "fastax"}, []string{"-F", "genbank "})
		for _, o := range extra {
			p.neigh = append(p.neigh, neighbour{"option", "value that extends a default or valid value: " + strings.Join(o, " "), with(p.base, o...)})
		}
	}
	return plans
}

func (x *c14run) loadInputs() error {
	repo := os.Getenv("VERIF_REPO_DIR")
	if repo == "" {
		repo = "/repo"
	}
	rd := func(n string) ([]byte, error) { return os.ReadFile(filepath.Join(repo, "seqio", "testdata", n)) }
	phix, err := rd("NC_001422.gb")
	if err != nil {
		return err
	}
	part, err := rd("NC_001422_part.gb")
	if err != nil {
		return err
	}
	pbat, err := rd("pBAT5.txt")
	if err != nil {
		return err
	}
	fa, err := rd("NC_001422.fasta")
	if err != nil {
		return err
	}
	x.inputs = map[string][]byte{
		"phix.gb": phix, "phix_part.gb": part, "pbat5.gb": pbat, "phix.fasta": fa,
		"multi.gb":             append(append(append([]byte{}, phix...), pbat...), part...),
		"multi2.gb":            append(append(append([]byte{}, pbat...), part...), phix...),
		"guest.fasta":          []byte(">guest one\nACGTACGTTTGACCA\n"),
		"guest2.fasta":         []byte(">guest two\nACGTACGTTTGACCC\n"),
		"query1.fasta":         []byte(">q\ngagttttatc\n"),
		"query-split.fasta":    []byte(">q\ngagtt\n>q2\nttatc\n"),
		"guest-split.fasta":    []byte(">guest one\nACGTACG\n>guest one b\nTTTGACCA\n"),
		"guest-annot.gb":       []byte(c14GuestGB("first")),
		"guest-annot2.gb":      []byte(c14GuestGB("second")),
		"phix_part-relabel.gb": bytes.Replace(part, []byte("/gene=\""), []byte("/gene=\"x"), 1),
		"query2.fasta":         []byte(">q\ncgcagaagtt\n"),
		"query-bare.txt":       []byte("gagttttatc"),
		"feat1.tbl":            []byte("     misc_feature    10..40\n                     /note=\"first\"\n"),
		"feat2.tbl":            []byte("     misc_feature    10..41\n                     /note=\"second\"\n"),
		"bad-trunc.gb":         phix[:len(phix)*2/3],
		"bad-field.gb":         bytes.Replace(phix, []byte("FEATURES             Location/Qualifiers\n"), []byte("FEATURES             Location/Qualifiers\n     gene            oops\n"), 1),
		"bad-second.gb":        append(append([]byte{}, part...), phix[:len(phix)/2]...),
		"empty":                {},
	}
	// the corpus record with CRLF line ends (the reader keeps the CR inside
	// multi-line qualifier values, so the outputs differ), a feature table that
	// differs from feat1 in the blanks inside a quoted value only, and a twin of
	// the multi-MiB stream that differs in one residue in its middle.
	x.inputs["multi-lin.gb"] = append(append(append([]byte{}, part...), phix...), pbat...)
	x.inputs["phix-crlf.gb"] = bytes.ReplaceAll(phix, []byte("\n"), []byte("\r\n"))
	x.inputs["feat1-blanks.tbl"] = []byte("     misc_feature    10..40\n                     /note=\"first  one\"\n")
	x.inputs["feat1-blank.tbl"] = []byte("     misc_feature    10..40\n                     /note=\"first one\"\n")
	// a host file of three records, and its twin that differs in the last
	// residue of the last record only (far behind anything a reader has seen
	// when it finished the first record).
	{
		hosts := append(append(append([]byte{}, part...), phix...), pbat...)
		twin := append([]byte{}, hosts...)
		if e := bytes.LastIndex(twin, []byte("\n//")); e > 0 {
			for k := e - 1; k > 0; k-- {
				if twin[k] == 'a' || twin[k] == 'c' || twin[k] == 'g' || twin[k] == 't' {
					if twin[k] == 'a' {
						twin[k] = 'c'
					} else {
						twin[k] = 'a'
					}
					break
				}
			}
		}
		x.inputs["hosts-multi.gb"], x.inputs["hosts-multi-tail.gb"] = hosts, twin
	}
	// two FASTA inputs that differ in eight letters of the record name and
	// agree in length and in their CRC-32 (IEEE and, a second pair, Castagnoli):
	// what a short checksum cannot tell apart, the cache must.
	for _, tab := range []struct {
		name string
		t    *crc32.Table
	}{{"ieee", crc32.IEEETable}, {"castagnoli", crc32.MakeTable(crc32.Castagnoli)}} {
		seen := map[uint32]string{}
		cr := rand.New(rand.NewSource(32))
		for tries := 0; tries < 2000000; tries++ {
			w := make([]byte, 8)
			for i := range w {
				w[i] = "abcdefghijklmnopqrstuvwxyzABCDEFGHIJKLMNOPQRSTUVWXYZ0123456789"[cr.Intn(62)]
			}
			sum := crc32.Checksum(w, tab.t)
			if o, ok := seen[sum]; ok && o != string(w) {
				body := "\nacgtacgtacgtacgtacgtacgtacgtacgtacgtacgt\n"
				x.inputs["crc-"+tab.name+"-a.fasta"] = []byte(">" + o + body)
				x.inputs["crc-"+tab.name+"-b.fasta"] = []byte(">" + string(w) + body)
				break
			}
			seen[sum] = string(w)
		}
	}
	// phiX with a second value for the /db_xref of its first gene (a multi-valued qualifier).
	if i := bytes.Index(phix, []byte("/db_xref=\"GeneID")); i >= 0 {
		j := i + bytes.IndexByte(phix[i:], '\n') + 1
		line := bytes.Replace(phix[i-21:j], []byte("/db_xref=\""), []byte("/db_xref=\"extra:"), 1)
		x.inputs["phix-multi.gb"] = append(append(append([]byte{}, phix[:j]...), line...), phix[j:]...)
	} else {
		x.inputs["phix-multi.gb"] = phix
	}
	// three FASTA records, 2.6 MB together.
	var big bytes.Buffer
	br := rand.New(rand.NewSource(14))
	for rec := 0; rec < 3; rec++ {
		fmt.Fprintf(&big, ">big%d\n", rec)
		for l := 0; l < 12000+rec*500; l++ {
			line := make([]byte, 70)
			for i := range line {
				line[i] = "acgtacgtnryk"[br.Intn(12)]
			}
			big.Write(line)
			big.WriteByte('\n')
		}
	}
	x.inputs["big.fasta"] = big.Bytes()
	{
		tw := append([]byte(nil), big.Bytes()...)
		for k := len(tw) / 2; k < len(tw); k++ {
			if tw[k] == 'a' || tw[k] == 'c' {
				tw[k] = 'g'
				break
			}
		}
		x.inputs["big-middle.fasta"] = tw
	}
	// 17 MiB: the big stream six and a half times over.
	var huge bytes.Buffer
	for huge.Len() < 17<<20 {
		huge.Write(big.Bytes())
	}
	x.inputs["huge.fasta"] = huge.Bytes()
	{
		tw := append([]byte(nil), huge.Bytes()...)
		for k := len(tw) / 2; k < len(tw); k++ {
			if tw[k] == 'a' || tw[k] == 'c' {
				tw[k] = 'g'
				break
			}
		}
		x.inputs["huge-middle.fasta"] = tw
	}
	return nil
}

func c14GuestGB(note string) string {
	return "LOCUS       GUEST                     15 bp    DNA     linear   SYN 01-JAN-2020\nDEFINITION  guest.\nACCESSION   G1\nVERSION     G1.1\nKEYWORDS    .\nSOURCE      s\n  ORGANISM  s\n            .\nFEATURES             Location/Qualifiers\n     misc_feature    2..9\n                     /note=\"" + note + "\"\nORIGIN      \n        1 acgtacgttt gacca\n//\n"
}

var helpOpt = regexp.MustCompile(`(?m)^  (?:-\w(?: <[^>]+>)?, )?--([a-z][a-z-]+)`)
var helpShortOnly = regexp.MustCompile(`(?m)^  -(\w) <[^>]+>[^,\n]*$`)

func (x *c14run) helpCheck(p cmdPlan) {
	r := x.ref.Run([]string{p.name, "--help"}, nil, nil, 20*time.Second)
	text := string(r.Stdout) + string(r.Stderr)
	covered := map[string]bool{"no-cache": true, "output": true, "help": true, "version": true}
	for _, o := range p.opts {
		covered[o] = true
	}
	for _, m := range helpOpt.FindAllStringSubmatch(text, -1) {
		if !covered[m[1]] {
			x.c.Inconclusive(fmt.Sprintf("gts %s --help lists option --%s which the C14 option table does not cover", p.name, m[1]))
		}
	}
	// `-n <name> [-n <name> ...]` style (no long name).
	for _, m := range helpShortOnly.FindAllStringSubmatch(text, -1) {
		if !(p.name == "query" && m[1] == "n") && !(m[1] == "q") {
			x.c.Inconclusive(fmt.Sprintf("gts %s --help lists short-only option -%s which the C14 option table does not cover", p.name, m[1]))
		}
	}
	if !strings.Contains(text, "usage: gts "+p.name) {
		x.c.Inconclusive("cannot read the help text of gts " + p.name)
	}
	x.c.Bucket("help-crosscheck")
}

// history runs the invocations over one fresh cache directory.
func (x *c14run) history(cmd, shape, aspect, what string, hs []inv, nontrivial bool) {
	c := x.c
	parts := make([]string, len(hs))
	for i, v := range hs {
		parts[i] = v.String()
	}
	enc := fmt.Sprintf("[%s] %s (%s: %s)", shape, strings.Join(parts, " ; "), aspect, what)
	c.Begin(enc)
	x.env.ResetCache()
	sawHit := false
	for i, v := range hs {
		ref := x.reference(v)
		if ref.bad != "" {
			c.Skip("reference run hit the watchdog or a signal: " + ref.bad)
			c.Count(enc, false)
			return
		}
		x.env.TruncTrace()
		if v.before != nil {
			v.before(x.env.CacheDir())
		}
		got := x.exec(x.env, v, false)
		hit := false
		for _, ev := range x.env.ReadTrace() {
			if ev.Ev == "hit" {
				hit = true
			}
		}
		if hit {
			sawHit = true
			c.Bucket("hit:" + cmd)
			c.Hook("hit")
		} else {
			c.Hook("miss")
		}
		if got.bad != "" {
			c.Violate("cached-run-"+got.bad+":"+cmd, enc, "terminates normally", fmt.Sprintf("step %d: %s", i+1, got.bad))
			c.Count(enc, true)
			return
		}
		if got.exit != ref.exit || !bytes.Equal(got.out, ref.out) {
			how := "miss"
			if hit {
				how = "served-from-cache"
			}
			cls := fmt.Sprintf("cached-differs:%s:%s:%s", cmd, aspect, how)
			if ref.exit != 0 && got.exit == 0 {
				cls = fmt.Sprintf("failed-run-served-as-success:%s", cmd)
			}
			c.ViolateX(cls, enc, fmt.Sprintf("step %d %s: exit %d, %d bytes (sha1 %s)", i+1, v.String(), ref.exit, len(ref.out), sha(ref.out)),
				fmt.Sprintf("exit %d, %d bytes (sha1 %s), %s", got.exit, len(got.out), sha(got.out), how), "", map[string]interface{}{"what": what})
			c.Count(enc, true)
			return
		}
	}
	c.Count(enc, nontrivial || sawHit)
	c.Bucket("cmd:" + cmd)
	c.Bucket("shape:" + shape)
	if aspect != "" {
		c.Bucket("aspect:" + aspect)
	}
}

func sha(b []byte) string { h := sha1.Sum(b); return hex.EncodeToString(h[:6]) }

func (m c14) Run(c *fw.Ctx) {
	bin := os.Getenv("GTS_BIN")
	if bin == "" {
		c.Inconclusive("GTS_BIN not set")
		return
	}
	root := filepath.Join(c.WorkDir, fmt.Sprintf("c14-%d", c.Shard))
	env, err := cli.New(bin, filepath.Join(root, "run"))
	if err != nil {
		c.Inconclusive(err.Error())
		return
	}
	ref, err := cli.New(bin, filepath.Join(root, "ref"))
	if err != nil {
		c.Inconclusive(err.Error())
		return
	}
	defer os.RemoveAll(root)
	x := &c14run{c: c, env: env, ref: ref, memo: map[string]outcome{}}
	if err := x.loadInputs(); err != nil {
		c.Inconclusive("corpus not readable: " + err.Error())
		return
	}
	plans := c14Plans()
	seenHelp := map[string]bool{}
	for _, p := range plans {
		if !seenHelp[p.name] && p.opts != nil {
			seenHelp[p.name] = true
			if c.NextShared() {
				x.helpCheck(p)
			}
		}
		a := p.base
		if c.NextShared() {
			x.history(p.name, "a,a", "", "warm hit", []inv{a, a}, false)
		}
		if c.NextShared() {
			x.history(p.name, "-o", "", "a -o f ; a", []inv{a.withOut("out.gb"), a}, false)
		}
		if c.NextShared() {
			x.history(p.name, "-o", "", "a ; a -o f ; a", []inv{a, a.withOut("out.txt"), a}, false)
		}
		// the output format implied by the -o extension is part of what the
		// command writes, hence of the key.
		if c.NextShared() {
			x.history(p.name, "-o", "format", "a ; a -o f.fasta ; a -o f.gb ; a", []inv{a, a.withOut("out.fasta"), a.withOut("out.gb"), a}, true)
		}
		if c.NextShared() {
			x.history(p.name, "-o", "format", "a -o f.fasta ; a ; a -o f.fasta", []inv{a.withOut("out.fasta"), a, a.withOut("out.fasta")}, true)
		}
		for _, n := range p.neigh {
			differ := func() bool {
				ra, rb := x.reference(a), x.reference(n.v)
				d := ra.exit != rb.exit || !bytes.Equal(ra.out, rb.out)
				if !d {
					// a neighbour whose uncached output equals the base's cannot
					// show a collision: listed so that it can be replaced.
					c.Note(fmt.Sprintf("neighbour without visible effect: %s vs %s", a.String(), n.v.String()))
				}
				return d
			}
			if c.NextShared() {
				x.history(p.name, "a,a',a", n.aspect, n.what, []inv{a, n.v, a}, differ())
			}
			if c.NextShared() {
				x.history(p.name, "a',a,a',a", n.aspect, n.what, []inv{n.v, a, n.v, a}, differ())
			}
		}
		// seeded histories of length 2..4 over this command's variants (and a
		// variant with -o), repeats included.
		nrand := c.Pick(6, 250)
		for k := 0; k < nrand; k++ {
			if !c.NextShared() {
				continue
			}
			hr := c.SubRng(fmt.Sprintf("hist|%s|%d|%v", p.name, k, p.base.args))
			pool := []inv{a}
			for _, n := range p.neigh {
				pool = append(pool, n.v)
			}
			ln := 2 + hr.Intn(3)
			var hs []inv
			for i := 0; i < ln; i++ {
				v := pool[hr.Intn(len(pool))]
				if hr.Intn(5) == 0 {
					v = v.withOut([]string{"o.out", "o.fasta", "o.gb", "o.genbank"}[hr.Intn(4)])
				}
				if hr.Intn(8) == 0 {
					v.stdin = []string{"bad-trunc.gb", "bad-field.gb", "empty"}[hr.Intn(3)]
				}
				hs = append(hs, v)
			}
			x.history(p.name, "seeded", "", "random history", hs, false)
		}
		// failing inputs.
		for _, bad := range []string{"bad-trunc.gb", "bad-field.gb", "bad-second.gb", "empty"} {
			if !c.Thorough() && bad == "bad-second.gb" && p.name != "clear" && p.name != "extract" {
				continue
			}
			b := a
			b.stdin = bad
			if c.NextShared() {
				x.history(p.name, "bad,bad", "primary-input", "failing input "+bad+" twice", []inv{b, b}, true)
			}
			if c.NextShared() {
				x.history(p.name, "bad,good,bad", "primary-input", "failing input "+bad+", good, failing", []inv{b, a, b, a}, true)
			}
		}
	}
	// a temporary directory that cannot be used (missing, or a regular file):
	// what the command prints does not depend on the cache being usable.
	{
		doneTmp := map[string]bool{}
		for _, p := range plans {
			if doneTmp[p.name] || p.base.stdin != "phix.gb" || len(p.base.files) > 0 {
				continue
			}
			doneTmp[p.name] = true
			if !c.NextShared() {
				continue
			}
			a := p.base
			missing := a
			missing.env = []string{"TMPDIR=" + filepath.Join(x.env.Root, "no-such-dir")}
			notdir := a
			notdir.env = []string{"TMPDIR=/dev/null"}
			x.history(p.name, "a,a", "", "TMPDIR missing / not a directory / fine", []inv{missing, a, notdir, missing, a}, true)
			c.Bucket("environment:unusable-TMPDIR")
			// a cache directory that exists but takes no new entry (gts-cache is
			// a link to a directory nothing can be created in).
			xdg := filepath.Join(x.env.Root, "xdg-no-entries")
			os.MkdirAll(xdg, 0755)
			os.Remove(filepath.Join(xdg, "gts-cache"))
			if err := os.Symlink("/proc/self", filepath.Join(xdg, "gts-cache")); err == nil {
				sealed := a
				sealed.env = []string{"XDG_CACHE_HOME=" + xdg}
				x.history(p.name, "a,a", "", "cache directory that takes no entries / fine", []inv{sealed, a, sealed}, true)
				c.Bucket("environment:cache-directory-takes-no-entries")
			}
		}
	}
	// an input larger than any spool limit one might think of (17 MiB on stdin).
	for _, name := range []string{"reverse", "clear"} {
		for _, p := range plans {
			if p.name != name || p.base.stdin != "phix.gb" {
				continue
			}
			if c.NextShared() {
				a := p.base
				a.stdin = "huge.fasta"
				x.history(p.name, "a,a", "primary-input", "17 MiB on stdin", []inv{a, a}, true)
				c.Bucket("input:17-MiB")
				if name == "clear" {
					a2 := a
					a2.stdin = "huge-middle.fasta"
					x.history(p.name, "a,a',a", "primary-input", "17 MiB on stdin; another input of the same length that differs in one residue in its middle", []inv{a, a2, a}, true)
				}
			}
			break
		}
	}
	// an output that cannot be written (-o /dev/full: every write fails): the
	// run fails with the cache cold and with the cache warm alike.
	if _, err := os.Stat("/dev/full"); err == nil {
		doneFull := map[string]bool{}
		for _, p := range plans {
			if doneFull[p.name] || p.base.stdin != "phix.gb" {
				continue
			}
			doneFull[p.name] = true
			if !c.NextShared() {
				continue
			}
			a := p.base
			x.history(p.name, "-o", "", "a ; a -o /dev/full ; a -o /dev/full ; a", []inv{a, a.withOut("/dev/full"), a.withOut("/dev/full"), a}, true)
			c.Bucket("output:unwritable")
		}
	}
	// stdin bound to a regular file (gts cmd < file), read from its start and
	// from the start of its second record (a shell group whose first command
	// consumed the first record): each run answers for the bytes it can read.
	doneFile := map[string]bool{}
	for _, p := range plans {
		if doneFile[p.name] || p.base.stdin != "phix.gb" || len(p.base.files) > 0 {
			continue
		}
		doneFile[p.name] = true
		if !c.NextShared() {
			continue
		}
		a0 := p.base
		a0.stdin, a0.stdinFile, a0.stdinAt = "multi.gb", true, 0
		a1 := a0
		a1.stdinAt = len(x.inputs["phix.gb"])
		pipe := p.base
		pipe.stdin = "multi.gb"
		x.history(p.name, "a,a", "primary-input", "stdin is a regular file at its start / at its second record / a pipe", []inv{a0, a1, pipe, a1, a0}, true)
		c.Bucket("input:regular-file-stdin")
	}
	// an output of several MiB (many deflate blocks, many writes) is replayed whole.
	doneBig := map[string]bool{}
	for _, p := range plans {
		if doneBig[p.name] || (p.base.stdin != "phix.gb" && p.base.stdin != "multi.gb") || len(p.base.files) > 0 ||
			(p.name != "clear" && p.name != "reverse" && p.name != "complement" && p.name != "sort" && p.name != "join" && p.name != "pick" && p.name != "summary") {
			continue
		}
		doneBig[p.name] = true
		if !c.NextShared() {
			continue
		}
		a := p.base
		a.stdin = "big.fasta"
		x.history(p.name, "a,a", "primary-input", "multi-MiB input and output", []inv{a, a, a.withOut("big.out"), a}, true)
		c.Bucket("input:multi-MiB")
		// what an identical invocation that died half way through its entry
		// leaves behind: the placeholder header and the finished blocks of a part
		// of the body. The next invocations print what they print without it.
		torn := a
		torn.before = func(dir string) {
			ents, _ := os.ReadDir(dir)
			for _, e := range ents {
				fn := filepath.Join(dir, e.Name())
				b, err := os.ReadFile(fn)
				if err != nil || len(b) < 200 {
					continue
				}
				keep := 60 + (len(b)-60)/2
				nb := append(make([]byte, 60), b[60:keep]...)
				os.WriteFile(fn, nb, 0644)
				c.Bucket("entry:torn-by-a-killed-writer")
			}
		}
		x.history(p.name, "a,a", "primary-input", "multi-MiB output; the entry torn as by a killed writer before the 2nd run", []inv{a, torn, a}, true)
	}
	// two different commands given the same arguments and input over one cache
	// directory: the command itself is part of what an entry answers. (Pairs
	// where the other command rejects the arguments are skipped.)
	names := []string{}
	seenName := map[string]bool{}
	for _, p := range plans {
		if !seenName[p.name] {
			seenName[p.name] = true
			names = append(names, p.name)
		}
	}
	for _, p := range plans {
		if len(p.base.args) == 0 || p.base.args[0] != p.name {
			continue
		}
		for _, other := range names {
			if other == p.name {
				continue
			}
			if !c.NextShared() {
				continue
			}
			b := p.base
			b.args = append([]string{other}, p.base.args[1:]...)
			ra, rb := x.reference(p.base), x.reference(b)
			if rb.exit != 0 || rb.bad != "" {
				// gts <other> does not accept these arguments: a usage error,
				// raised while the command line is parsed (where appending
				// --no-cache for the reference run changes what is parsed),
				// long before any cache is consulted. Not a history.
				c.Skip("the other subcommand rejects these arguments (usage error)")
				continue
			}
			differ := ra.exit == 0 && !bytes.Equal(ra.out, rb.out)
			x.history(p.name, "a,b,a,b", "command", "the same arguments given to gts "+other, []inv{p.base, b, p.base, b}, differ)
		}
	}
}
