package mon

import (
	"fmt"
	"math/rand"
	"os"
	"path/filepath"
	"sort"
	"strings"

	"github.com/go-gts/gts"
	"github.com/go-gts/gts/seqio"

	"verifharness/fw"
	"verifharness/gen"
	"verifharness/model"
)

// C12 — gts.Repair re-assembles features fragmented by split/join and changes
// nothing else.
//
// Two programs are monitored:
//
//	restoration  Slice;...;Slice;Concat;Repair on tables whose every feature has
//	             a table-unique key+qualifiers: the repaired table must equal the
//	             original as a multiset of (key, printed location, qualifiers),
//	             source features up to partial markers;
//	safety       Repair and Repair;Repair on arbitrary tables: no panic,
//	             idempotent, a table without a same-class pair whose ends abut
//	             with '>' meeting '<' (any abutting ends for source) is returned
//	             as the same list, per (key, qualifiers) class every change must
//	             be explained by fusing a chain of members that abut in that way,
//	             and the set of residues covered by each class is unchanged.
//
// The reference model never calls into the code under test: it reads the
// exported fields of the location values through model.Parts and decides in
// terms of residues, open ends and printed locations.
type c12 struct{ base }

func init() { register(c12{}) }

const (
	c12KFJoin   = "repair-flattens-joined-member"
	c12KFMulti  = "repair-multipart-feature-not-reassembled"
	c12KFComp   = "repair-fuses-complemented-members"
	c12KFAbsorb = "repair-absorbs-point-or-site"
	c12KFKey    = "repair-class-key-collision"
)

func (c12) ID() string { return "C12" }
func (c12) Rule() string {
	return "restoration, systematic: every non-ambiguous location of gen.Universe(6,2) as the single labelled feature (gene; every 7th source) x every set of 1..3 interior cuts of a 6-residue host, and every ordered pair of non-ambiguous locations of gen.Universe(4|5,2) as a two-feature table with unique labels x every set of 1..3 cuts; hosts alternate BasicSequence / seqio.GenBank; restoration, seeded: hosts of 10..60 residues, tables of 1..8 uniquely labelled features (half of the tables only forward ranges (each end partial with p=.3), points and sites; the other half also complements, joins, orders, nested complements), 1..3 cuts drawn inside feature parts with p=.7, never on a between-site; plus the project's phiX174 sample table (seqio/testdata/NC_001422.gb) cut at 2 positions. The pieces are gts.Slice'd, gts.Concat'ed in order and the table is gts.Repair'ed; cases in which a between-site lies on a cut or an end of the sequence (Slice keeps it in no piece) or whose fragments do not cover exactly the residues of their original (Slice/Concat deviations owned by C03/C10) are skipped and counted. safety, systematic: every location of gen.Universe(4,2) alone and every ordered pair of them as one (key,qualifiers) class; every triple of forward leaves (points, sites, ranges with all 4 partial combinations) of a 4-residue universe as one class; every pair of such leaves as one source class; every pair of such leaves in two classes that differ in key only / in a qualifier value only / only in how qualifier values split on a blank; safety, seeded: tables of 1..8 features in classes of 1..3 members over 10..60 residues: chains of 2..3 consecutive fragments whose junctions carry both, one or no partial marker or leave a gap, forward / complemented / mixed; random ranges; ranges with touching points and sites; gen.RandLoc members (joins, orders, complements, overlaps, ambiguous spans); half of the tables only forward ranges; a third of the tables additionally hold a properly marked abutting pair spread over two different classes; table order shuffled or sorted; every fragment table of the restoration workload is judged by the safety clauses too. Oracle: see the type comment; per class the multiset of printed locations may change only by replacing >=2 members that form a chain (each junction: same strand, the '>' high end of a range meets the '<' low start of a range at one coordinate; for source any abutting residue-bearing ends) by one feature covering exactly their residues; a second Repair that still changes something is judged the same way and must change nothing. Known findings are attributed per class by deviation models composed fewest-first (join members count as their elements; touching points/sites vanish; complemented members come back as fewer complement(join(...)) features over the same residues; classes that %s:%v conflates are one class) and for restoration per feature (multi-part original: residues kept; complemented range: exactly complement(join(last fragment,...,first fragment))); panics only at gts.Repair with slice-bounds/index and a join member in the table. non-trivial: restoration: a cut falls strictly inside a part of a feature; safety: some class has >=2 members; distinct: canonical case text. The table handed to Repair must read the same after the call. A bare feature (no qualifier) is the first feature of a fifth of the tables. gts repair on a stream of the intact record followed by the joined pieces prints the two outputs one after the other."
}

func (c12) RequiredBuckets(tier string) []string {
	out := []string{
		"restoration|range", "restoration|prange", "restoration|join", "restoration|order", "restoration|complement",
		"restoration|source-feature", "restored|range", "restored|prange", "restored|source-feature",
		"cuts|1", "cuts|2", "cuts|3", "fragments|2", "fragments|3", "fragments|4",
		"host|basic", "host|genbank",
		"safety:idempotent", "safety:unchanged-table", "safety:never-merge-different-class", "safety:merged-abutting",
		"safety:class-size|1", "safety:class-size|2", "safety:class-size|3", "safety:source-class",
		"safety:kind|range", "safety:kind|prange", "safety:kind|point", "safety:kind|site", "safety:kind|join", "safety:kind|order", "safety:kind|complement",
		"corpus:phiX174",
	}
	return append(out, "cli:repair", "cli:repair source feature", "cli:repair cut between features", "cli:repair value-less unlisted qualifier", "cli:repair cache-on", "cli:repair stream ending in a record without features", "cli:repair table not in location order", "cli:repair stream of an intact record and a cut one")
}

func c12Lbl(s string) gts.Props { return gts.Props{{"label", s}} }

func c12CutCat(kind string, tab []gts.Feature, hostB []byte, cuts []int) gts.Sequence {
	host := mkHost(kind, tab, hostB)
	bounds := append(append([]int{0}, cuts...), len(hostB))
	pieces := make([]gts.Sequence, 0, len(bounds)-1)
	for k := 0; k+1 < len(bounds); k++ {
		pieces = append(pieces, gts.Slice(host, bounds[k], bounds[k+1]))
	}
	return gts.Concat(pieces...)
}

func c12Table(ff []gts.Feature) string {
	var sb strings.Builder
	for _, f := range ff {
		fmt.Fprintf(&sb, "%s %s %q;", f.Key, model.SafeString(f.Loc), [][]string(f.Props))
	}
	return sb.String()
}

func (c12) Findings() []fw.Finding {
	return []fw.Finding{
		{ID: c12KFJoin, What: "Repair pushes a join(...) member through LocationList.Push, which flattens it: more locations than features (slice-bounds / index panic, or the joined feature is split)", Witness: func() (bool, string) {
			in := []gts.Feature{{Key: "gene", Loc: gts.Join(gts.Range(0, 2), gts.Range(4, 6)), Props: c12Lbl("a")}}
			var out []gts.Feature
			p, val, _, _ := fw.Guard(func() { out = gts.Repair(in) })
			if p {
				return true, fmt.Sprintf("Repair([gene join(1..2,5..6)]) panics: %v", val)
			}
			return false, "Repair([gene join(1..2,5..6)]) -> " + c12Table(out)
		}},
		{ID: c12KFMulti, What: "the fragments of a cut join/order feature are not re-assembled into the original location", Witness: func() (bool, string) {
			tab := []gts.Feature{{Key: "gene", Loc: gts.Order(gts.Range(1, 4), gts.Range(10, 15)), Props: c12Lbl("a")}}
			var out []gts.Feature
			p, val, _, _ := fw.Guard(func() { out = gts.Repair(c12CutCat("basic", tab, gen.UniqueBytes(0, 20), []int{12}).Features()) })
			if p {
				return true, fmt.Sprintf("cut at 12;concat;Repair of [gene order(2..4,11..15)] panics: %v", val)
			}
			if len(out) == 1 && model.SafeString(out[0].Loc) == "order(2..4,11..15)" {
				return false, "restored to order(2..4,11..15)"
			}
			return true, "cut at 12;concat;Repair of [gene order(2..4,11..15)] -> " + c12Table(out) + " want order(2..4,11..15)"
		}},
		{ID: c12KFComp, What: "two complement(...) members of a class always come back as one complement(join(later,earlier)), abutting or not, never fused", Witness: func() (bool, string) {
			in := []gts.Feature{
				{Key: "gene", Loc: gts.PartialRange(5, 10, gts.Partial3).Complement(), Props: c12Lbl("a")},
				{Key: "gene", Loc: gts.PartialRange(10, 12, gts.Partial5).Complement(), Props: c12Lbl("a")}}
			var out []gts.Feature
			p, val, _, _ := fw.Guard(func() { out = gts.Repair(in) })
			if p {
				return true, fmt.Sprintf("panics: %v", val)
			}
			if len(out) == 1 && model.SafeString(out[0].Loc) == "complement(6..12)" {
				return false, "fused to complement(6..12)"
			}
			return true, "Repair([gene complement(6..>10), gene complement(<11..12)]) -> " + c12Table(out) + " want complement(6..12)"
		}},
		{ID: c12KFAbsorb, What: "a point or site member that touches another member of its class is dropped (a point directly after a range loses its residue)", Witness: func() (bool, string) {
			in := []gts.Feature{{Key: "gene", Loc: gts.Range(3, 6), Props: c12Lbl("a")}, {Key: "gene", Loc: gts.Point(6), Props: c12Lbl("a")}}
			var out []gts.Feature
			p, val, _, _ := fw.Guard(func() { out = gts.Repair(in) })
			if p {
				return true, fmt.Sprintf("panics: %v", val)
			}
			return len(out) != 2, "Repair([gene 4..6, gene 7]) -> " + c12Table(out) + " want both features"
		}},
		{ID: c12KFKey, What: "the class key is built with %v, so qualifier sets that differ only in how values split on blanks are one class and their features are merged", Witness: func() (bool, string) {
			in := []gts.Feature{
				{Key: "gene", Loc: gts.PartialRange(0, 5, gts.Partial3), Props: gts.Props{{"note", "x y"}}},
				{Key: "gene", Loc: gts.PartialRange(5, 10, gts.Partial5), Props: gts.Props{{"note", "x", "y"}}}}
			var out []gts.Feature
			p, val, _, _ := fw.Guard(func() { out = gts.Repair(in) })
			if p {
				return true, fmt.Sprintf("panics: %v", val)
			}
			return len(out) != 2, "Repair([gene 1..>5 /note=\"x y\", gene <6..10 /note=\"x\" /note=\"y\"]) -> " + c12Table(out) + " want both features"
		}},
	}
}

// ---------------------------------------------------------------------------
// reference model

// c12Bits is a residue set: bit 2*pos+strand.
type c12Bits []uint64

func (b *c12Bits) add(i int) {
	w := i >> 6
	for len(*b) <= w {
		*b = append(*b, 0)
	}
	(*b)[w] |= 1 << (uint(i) & 63)
}

func (b c12Bits) word(i int) uint64 {
	if i < len(b) {
		return b[i]
	}
	return 0
}

func c12BitsEq(a, b c12Bits) bool {
	n := len(a)
	if len(b) > n {
		n = len(b)
	}
	for i := 0; i < n; i++ {
		if a.word(i) != b.word(i) {
			return false
		}
	}
	return true
}

func c12BitsSub(a, b c12Bits) bool {
	for i := range a {
		if a[i]&^b.word(i) != 0 {
			return false
		}
	}
	return true
}

func c12BitsOr(a, b c12Bits) c12Bits {
	n := len(a)
	if len(b) > n {
		n = len(b)
	}
	out := make(c12Bits, n)
	for i := 0; i < n; i++ {
		out[i] = a.word(i) | b.word(i)
	}
	return out
}

func (b c12Bits) String() string {
	var ss []string
	for w, x := range b {
		for k := 0; k < 64; k++ {
			if x&(1<<uint(k)) != 0 {
				i := w*64 + k
				s := fmt.Sprint(i/2 + 1)
				if i%2 == 1 {
					s += "-"
				}
				ss = append(ss, s)
			}
		}
	}
	return "{" + strings.Join(ss, " ") + "}"
}

const (
	c12Range = iota
	c12PRange
	c12Point
	c12Site
	c12Amb
	c12Join
	c12Order
	c12Comp
	c12Other
)

var c12KindName = []string{"range", "prange", "point", "site", "ambiguous", "join", "order", "complement", "other"}

func c12Top(loc gts.Location) int {
	switch v := loc.(type) {
	case gts.Ranged:
		if v.Partial.Partial5 || v.Partial.Partial3 {
			return c12PRange
		}
		return c12Range
	case gts.Point:
		return c12Point
	case gts.Between:
		return c12Site
	case gts.Ambiguous:
		return c12Amb
	case gts.Joined:
		return c12Join
	case gts.Ordered:
		return c12Order
	case gts.Complemented:
		return c12Comp
	}
	return c12Other
}

// c12F is the model's view of one feature, taken before the code under test
// sees the table.
type c12F struct {
	key   string
	props gts.Props
	cls   string // (key, qualifiers) class, injective rendering
	ckey  string // what "%s:%v" renders (deviation model of repair-class-key-collision)
	label string
	loc   gts.Location
	pr    string
	parts []model.Part
	res   c12Bits
	top   int
	bad   string
}

func c12Snap(ff []gts.Feature) []*c12F {
	out := make([]*c12F, len(ff))
	for i, f := range ff {
		x := &c12F{key: f.Key, props: f.Props, loc: f.Loc, label: gen.Label(f)}
		x.cls = fmt.Sprintf("%q %q", f.Key, [][]string(f.Props))
		var sb strings.Builder
		sb.WriteString(f.Key)
		sb.WriteString(":[")
		for j, p := range f.Props {
			if j > 0 {
				sb.WriteByte(' ')
			}
			sb.WriteString("[" + strings.Join(p, " ") + "]")
		}
		sb.WriteString("]")
		x.ckey = sb.String()
		x.pr = model.SafeString(f.Loc)
		x.parts = model.Parts(f.Loc)
		x.bad = model.HasBad(x.parts)
		x.top = c12Top(f.Loc)
		for _, p := range x.parts {
			if p.Kind != model.KPoint && p.Kind != model.KRange && p.Kind != model.KAmb {
				continue
			}
			if p.Lo < 0 || p.Hi-p.Lo > 1<<20 {
				x.bad = "coordinate-out-of-range"
				continue
			}
			for q := p.Lo; q < p.Hi; q++ {
				i := 2 * q
				if p.Rev {
					i++
				}
				x.res.add(i)
			}
		}
		out[i] = x
	}
	return out
}

func c12Union(ff []*c12F) c12Bits {
	var u c12Bits
	for _, f := range ff {
		u = c12BitsOr(u, f.res)
	}
	return u
}

// c12Abuts: the high end of some part of a meets the low start of some part of
// b at one coordinate on the same strand, a's end printed '>' and b's start
// printed '<' (source: any two residue-bearing ends). Deliberately liberal
// (any part, not only the outer ones) so that "does not abut in that way" is
// never claimed where the statement could be read otherwise.
func c12Abuts(a, b *c12F, source bool) bool {
	for _, p := range a.parts {
		for _, q := range b.parts {
			if p.Rev != q.Rev || p.Hi != q.Lo {
				continue
			}
			if source {
				if p.Kind != model.KSite && q.Kind != model.KSite && p.Kind != model.KNil && q.Kind != model.KNil {
					return true
				}
				continue
			}
			if p.Kind == model.KRange && q.Kind == model.KRange && p.OpenHi && q.OpenLo {
				return true
			}
		}
	}
	return false
}

// c12Chain: can the members be ordered so that each abuts the next?
func c12ChainOK(g []*c12F, source bool) bool {
	n := len(g)
	if n < 2 {
		return false
	}
	used := make([]bool, n)
	var rec func(last, cnt int) bool
	rec = func(last, cnt int) bool {
		if cnt == n {
			return true
		}
		for j := 0; j < n; j++ {
			if used[j] || !c12Abuts(g[last], g[j], source) {
				continue
			}
			used[j] = true
			if rec(j, cnt+1) {
				return true
			}
			used[j] = false
		}
		return false
	}
	for s := 0; s < n; s++ {
		used[s] = true
		if rec(s, 1) {
			return true
		}
		used[s] = false
	}
	return false
}

// c12Explain: every produced location replaces a chain of >=2 consumed members
// covering exactly its residues, and every consumed member is used once.
func c12Explain(consumed, produced []*c12F, source bool) bool {
	if len(produced) == 0 {
		return len(consumed) == 0
	}
	if len(consumed) < 2*len(produced) || len(consumed) > 12 {
		return false
	}
	groups := make([][]*c12F, len(produced))
	var rec func(i int) bool
	rec = func(i int) bool {
		if i == len(consumed) {
			for j, g := range groups {
				if len(g) < 2 || !c12BitsEq(c12Union(g), produced[j].res) || !c12ChainOK(g, source) {
					return false
				}
			}
			return true
		}
		for j := range produced {
			if !c12BitsSub(consumed[i].res, produced[j].res) {
				continue
			}
			groups[j] = append(groups[j], consumed[i])
			if rec(i + 1) {
				return true
			}
			groups[j] = groups[j][:len(groups[j])-1]
		}
		return false
	}
	return rec(0)
}

func c12Diff(in, out []*c12F) (consumed, produced []*c12F) {
	cnt := map[string]int{}
	for _, f := range out {
		cnt[f.pr]++
	}
	for _, f := range in {
		if cnt[f.pr] > 0 {
			cnt[f.pr]--
		} else {
			consumed = append(consumed, f)
		}
	}
	cnt = map[string]int{}
	for _, f := range in {
		cnt[f.pr]++
	}
	for _, f := range out {
		if cnt[f.pr] > 0 {
			cnt[f.pr]--
		} else {
			produced = append(produced, f)
		}
	}
	return
}

// c12Touches: deviation model of repair-absorbs-point-or-site — x is a forward
// point or site and another member y of the class touches it the way the Push
// reduction rules test (equal point/site, site at either end of a point or
// range, point at the start or directly after the end of a range).
func c12Touches(x *c12F, in []*c12F) bool {
	if x.top != c12Point && x.top != c12Site {
		return false
	}
	g := x.parts[0].Lo
	for _, y := range in {
		if y == x || len(y.parts) != 1 || y.parts[0].Rev {
			continue
		}
		q := y.parts[0]
		if x.top == c12Site {
			switch y.top {
			case c12Site:
				if q.Lo == g {
					return true
				}
			case c12Point, c12Range, c12PRange:
				if q.Lo == g || q.Hi == g {
					return true
				}
			}
		} else {
			switch y.top {
			case c12Point:
				if q.Lo == g {
					return true
				}
			case c12Range, c12PRange:
				if q.Lo == g || q.Hi == g {
					return true
				}
			}
		}
	}
	return false
}

const (
	c12Unchanged = iota
	c12Merged
	c12Known
	c12Bad
)

// c12Loss: deviation model shared with C03's join-drops-point-after-range
// (the Ranged+Point rule of Push): the residues missing from got are all
// single points that directly follow the end of a range among the parts of
// the consumed members; nothing is gained.
func c12Loss(consumed []*c12F, want, got c12Bits) (ok, lost bool) {
	if !c12BitsSub(got, want) {
		return false, false
	}
	n := len(want)
	for w := 0; w < n; w++ {
		d := want[w] &^ got.word(w)
		for k := 0; d != 0 && k < 64; k++ {
			if d&(1<<uint(k)) == 0 {
				continue
			}
			d &^= 1 << uint(k)
			lost = true
			i := w*64 + k
			pos, rev := i/2, i%2 == 1
			pt, rg := false, false
			for _, f := range consumed {
				for _, p := range f.parts {
					if p.Rev != rev {
						continue
					}
					if p.Kind == model.KPoint && p.Lo == pos {
						pt = true
					}
					if p.Kind == model.KRange && p.Hi == pos {
						rg = true
					}
				}
			}
			if !pt || !rg {
				return false, true
			}
		}
	}
	return true, lost
}

func c12Only(ff []*c12F, top int) (out []*c12F) {
	for _, f := range ff {
		if f.top == top {
			out = append(out, f)
		}
	}
	return
}

// c12Flatten: deviation model of repair-flattens-joined-member — every
// top-level join(...) member stands for one member per element.
func c12Flatten(in []*c12F) []*c12F {
	var out []*c12F
	var rec func(f *c12F, l gts.Location)
	rec = func(f *c12F, l gts.Location) {
		if j, ok := l.(gts.Joined); ok {
			for _, e := range j {
				rec(f, e)
			}
			return
		}
		out = append(out, c12Snap([]gts.Feature{{Key: f.key, Loc: l, Props: f.props}})[0])
	}
	for _, f := range in {
		if f.top == c12Join {
			rec(f, f.loc)
		} else {
			out = append(out, f)
		}
	}
	return out
}

// judgeClass decides one (key, qualifiers) class. sym names the symptom when
// the verdict is c12Bad; ids lists the known findings the change is attributed
// to when the verdict is c12Known. The reference verdict comes first; the
// listed deviations are then tried, fewest first: (join) top-level join
// members count as one member per element, (absorb) point/site members that
// touch another member vanish, (comp) the complemented members come back as
// fewer complement(join(...)) features covering the same residues.
func (c12) judgeClass(c *fw.Ctx, in, out []*c12F, source bool) (st int, ids []string, sym string) {
	consumed, produced := c12Diff(in, out)
	if len(consumed) == 0 && len(produced) == 0 {
		return c12Unchanged, nil, ""
	}
	if c12Explain(consumed, produced, source) {
		return c12Merged, nil, ""
	}
	joinOK := c.KFEnabled(c12KFJoin) && len(c12Only(consumed, c12Join)) >= 1
	absorbOK := c.KFEnabled(c12KFAbsorb)
	for _, a := range [][2]bool{{false, false}, {false, true}, {true, false}, {true, true}} {
		if (a[0] && !joinOK) || (a[1] && !absorbOK) {
			continue
		}
		var used []string
		cur := in
		if a[0] {
			cur = c12Flatten(in)
			used = append(used, c12KFJoin)
		}
		cons, prod := c12Diff(cur, out)
		if a[1] {
			var rest []*c12F
			for _, x := range cons {
				if !c12Touches(x, cur) {
					rest = append(rest, x)
				}
			}
			if len(rest) == len(cons) {
				continue
			}
			cons = rest
			used = append(used, c12KFAbsorb)
		}
		if len(used) > 0 && c12Explain(cons, prod, source) {
			return c12Known, used, ""
		}
		if c.KFEnabled(c12KFComp) {
			cin, cout := c12Only(cur, c12Comp), c12Only(out, c12Comp)
			var consN, prodN []*c12F // the forward part must be explained by the reference
			for _, f := range cons {
				if f.top != c12Comp {
					consN = append(consN, f)
				}
			}
			for _, f := range prod {
				if f.top != c12Comp {
					prodN = append(prodN, f)
				}
			}
			if len(cin) >= 2 && len(cout) >= 1 && len(cout) < len(cin) && len(consN) < len(cons) &&
				c12Explain(consN, prodN, source) {
				ua, ub := c12Union(cin), c12Union(cout)
				if c12BitsEq(ua, ub) {
					return c12Known, append(used, c12KFComp), ""
				}
				if absorbOK {
					if ok, _ := c12Loss(cin, ua, ub); ok {
						if !a[1] {
							used = append(used, c12KFAbsorb)
						}
						return c12Known, append(used, c12KFComp), ""
					}
				}
			}
		}
	}
	switch {
	case !c12BitsEq(c12Union(in), c12Union(out)):
		sym = "class-residues-changed"
	case len(out) < len(in):
		sym = "merged-members-that-do-not-abut-with-partial-ends"
	case len(out) > len(in):
		sym = "feature-count-grew"
	default:
		sym = "location-changed"
	}
	return c12Bad, nil, sym
}

func c12Group(ff []*c12F, key func(*c12F) string, order *[]string, m map[string][]*c12F) {
	for _, f := range ff {
		k := key(f)
		if _, ok := m[k]; !ok && order != nil {
			seen := false
			for _, o := range *order {
				if o == k {
					seen = true
				}
			}
			if !seen {
				*order = append(*order, k)
			}
		}
		m[k] = append(m[k], f)
	}
}

func c12List(ff []*c12F) string {
	var sb strings.Builder
	for _, f := range ff {
		fmt.Fprintf(&sb, "%s %s %q;", f.key, f.pr, [][]string(f.props))
	}
	return sb.String()
}

func c12HasJoin(ff []*c12F) bool {
	return len(c12Only(ff, c12Join)) > 0
}

func (c12) panicked(c *fw.Ctx, enc, prefix string, tab []*c12F, val interface{}, site, stack string) {
	s := fmt.Sprint(val)
	if c.KFEnabled(c12KFJoin) && c12HasJoin(tab) && site == "gts.Repair" &&
		(strings.Contains(s, "slice bounds out of range") || strings.Contains(s, "index out of range")) {
		c.Known(c12KFJoin, enc)
		return
	}
	c.ViolateX(prefix+panicClass(site, val), enc, "no panic", s, stack, nil)
}

// c12ClassVerdict is the verdict on one class of one Repair call.
type c12ClassVerdict struct {
	cls      string
	in, out  []*c12F
	st       int
	ids      []string
	sym      string
	src      bool
	viaMerge bool // decided on the union of classes that "%s:%v" conflates
}

// classify decides every class of one Repair call (in -> out).
func (m c12) classify(c *fw.Ctx, sin, sout []*c12F) []c12ClassVerdict {
	var order []string
	gin, gout := map[string][]*c12F{}, map[string][]*c12F{}
	cls := func(f *c12F) string { return f.cls }
	c12Group(sin, cls, &order, gin)
	c12Group(sout, cls, &order, gout)
	ref := func(k string) *c12F {
		if len(gin[k]) > 0 {
			return gin[k][0]
		}
		return gout[k][0]
	}
	var res []c12ClassVerdict
	handled := map[string]bool{}
	for _, k := range order {
		if handled[k] {
			continue
		}
		src := ref(k).key == "source"
		v := c12ClassVerdict{cls: k, in: gin[k], out: gout[k], src: src}
		v.st, v.ids, v.sym = m.judgeClass(c, gin[k], gout[k], src)
		if v.st == c12Bad && c.KFEnabled(c12KFKey) {
			// deviation: classes whose "%s:%v" rendering coincides are one class.
			var min, mout []*c12F
			var ks []string
			for _, k2 := range order {
				if ref(k2).ckey == ref(k).ckey {
					ks = append(ks, k2)
					min = append(min, gin[k2]...)
					mout = append(mout, gout[k2]...)
				}
			}
			if len(ks) > 1 {
				if st2, ids2, _ := m.judgeClass(c, min, mout, src); st2 != c12Bad {
					for _, k2 := range ks {
						handled[k2] = true
					}
					v.st, v.ids, v.viaMerge = c12Known, append([]string{c12KFKey}, ids2...), true
					v.in, v.out = min, mout
				}
			}
		}
		res = append(res, v)
	}
	return res
}

// c12Garbage: signature of repair-flattens-joined-member when spare capacity
// of the index slice hid the overrun: the garbage index is 0, so the result
// starts with two copies of (the possibly relocated) feature 0.
func c12Garbage(c *fw.Ctx, sin, sout []*c12F) bool {
	if !c.KFEnabled(c12KFJoin) || !c12HasJoin(sin) || len(sout) < 2 {
		return false
	}
	if sout[0].cls != sin[0].cls || sout[1].cls != sout[0].cls || sout[1].pr != sout[0].pr {
		return false
	}
	n0, n1 := 0, 0
	for _, f := range sin {
		if f.cls == sout[0].cls && f.pr == sout[0].pr {
			n0++
		}
	}
	for _, f := range sout {
		if f.cls == sout[0].cls && f.pr == sout[0].pr {
			n1++
		}
	}
	return n1 > n0
}

func c12SameList(a, b []*c12F) bool {
	if len(a) != len(b) {
		return false
	}
	for i := range a {
		if a[i].cls != b[i].cls || a[i].pr != b[i].pr {
			return false
		}
	}
	return true
}

// judge runs Repair and Repair;Repair on a table and decides the safety
// clauses. ok=false: a verdict that ends the case was recorded (violation, or
// a known finding after which nothing else can be observed).
func (m c12) judge(c *fw.Ctx, enc string, in []gts.Feature) (sout []*c12F, ok bool) {
	sin := c12Snap(in)
	for _, f := range sin {
		c.Bucket("safety:kind|" + c12KindName[f.top])
	}
	var out []gts.Feature
	if p, val, site, stack := fw.Guard(func() { out = gts.Repair(in) }); p {
		m.panicked(c, enc, "repair:", sin, val, site, stack)
		return nil, false
	}
	// the table handed in reads as before (what is compared with the result
	// below, and repaired a second time by callers, is that table).
	if again := c12Snap(in); !c12SameList(sin, again) {
		c.Violate("safety:the-table-handed-to-repair-reads-differently-afterwards", enc, c12List(sin), c12List(again))
		return nil, false
	}
	sout = c12Snap(out)
	for _, f := range sout {
		if f.bad != "" {
			c.Violate("safety:malformed-location:"+f.bad, enc, "well-formed locations", c12List(sout))
			return sout, false
		}
	}
	vv := m.classify(c, sin, sout)

	// does any class hold a pair that abuts in the qualifying way?
	noPair := true
	gin := map[string][]*c12F{}
	var order []string
	c12Group(sin, func(f *c12F) string { return f.cls }, &order, gin)
	for _, k := range order {
		g := gin[k]
		if len(g) >= 4 {
			c.Bucket("safety:class-size|4+")
		} else {
			c.Bucket(fmt.Sprintf("safety:class-size|%d", len(g)))
		}
		src := g[0].key == "source"
		if src {
			c.Bucket("safety:source-class")
		}
		for i := range g {
			for j := range g {
				if i != j && c12Abuts(g[i], g[j], src) {
					noPair = false
				}
			}
		}
	}
	tempted := false
	for i, a := range sin {
		for j, b := range sin {
			if i != j && a.cls != b.cls && c12Abuts(a, b, false) {
				tempted = true
			}
		}
	}

	changed := false
	for _, v := range vv {
		switch v.st {
		case c12Merged:
			changed = true
			c.Bucket("safety:merged-abutting")
		case c12Known:
			changed = true
			for _, id := range v.ids {
				c.Known(id, enc)
			}
		case c12Bad:
			if c12Garbage(c, sin, sout) {
				c.Known(c12KFJoin, enc)
				return sout, false
			}
			class := "safety:"
			if noPair {
				class += "table-without-abutting-pair-changed:"
			}
			class += v.sym
			if v.src {
				class += ":source"
			}
			c.Violate(class, enc, "class "+v.cls+": "+c12List(v.in)+" may change only by fusing chains of members that abut with '>' meeting '<' (source: any abutting ends); covered residues "+c12Union(v.in).String(),
				c12List(v.out)+" residues "+c12Union(v.out).String()+" | whole result: "+c12List(sout))
			return sout, false
		}
	}
	if noPair {
		c.Bucket("safety:unchanged-table")
		if !changed && !c12SameList(sin, sout) {
			c.Violate("safety:table-without-abutting-pair-reordered", enc, c12List(sin), c12List(sout))
			return sout, false
		}
	}
	if tempted {
		c.Bucket("safety:never-merge-different-class")
	}

	// Repair;Repair == Repair. A second pass that changes something is judged
	// like a first pass: a change attributed to a known finding (its deviation
	// firing on the first pass's result) is that finding, anything else is a
	// violation — also a legitimate-looking merge, which the first pass then missed.
	var out2 []gts.Feature
	if p, val, site, stack := fw.Guard(func() { out2 = gts.Repair(out) }); p {
		m.panicked(c, enc, "repair-repair:", sout, val, site, stack)
		return sout, false
	}
	s2 := c12Snap(out2)
	if !c12SameList(sout, s2) {
		// classes whose first pass already was a listed finding: what that pass
		// left (members of a flattened join, out of order) is not a repaired
		// table, and what the second pass makes of it is the same finding.
		firstKnown := map[string][]string{}
		for _, v := range vv {
			if v.st == c12Known {
				firstKnown[v.cls] = v.ids
			}
		}
		attributed := false
		for _, v := range m.classify(c, sout, s2) {
			if ids, ok := firstKnown[v.cls]; ok && (v.st == c12Merged || v.st == c12Bad) {
				for _, id := range ids {
					c.Known(id, enc)
				}
				return sout, false
			}
			switch v.st {
			case c12Known:
				attributed = true
				for _, id := range v.ids {
					c.Known(id, enc)
				}
			case c12Merged, c12Bad:
				if v.st == c12Bad && c12Garbage(c, sout, s2) {
					c.Known(c12KFJoin, enc)
					return sout, false
				}
				c.Violate("safety:not-idempotent", enc, "Repair(Repair(t)) == Repair(t) = "+c12List(sout), c12List(s2))
				return sout, false
			}
		}
		if !attributed {
			c.Violate("safety:not-idempotent:reordered", enc, "Repair(Repair(t)) == Repair(t) = "+c12List(sout), c12List(s2))
			return sout, false
		}
		return sout, true
	}
	c.Bucket("safety:idempotent")
	return sout, true
}

// ---------------------------------------------------------------------------
// cases

type c12Case struct {
	hostKind string
	hostB    []byte
	tab      []gts.Feature
	cuts     []int
	corpus   string
}

func (m c12) safetyCase(c *fw.Ctx, tab []gts.Feature) {
	enc := "Repair;Repair F=[" + c12Table(tab) + "]"
	c.Begin(enc)
	seen := map[string]bool{}
	nontrivial := false
	for _, f := range tab {
		k := fmt.Sprintf("%q %q", f.Key, [][]string(f.Props))
		if seen[k] {
			nontrivial = true
		}
		seen[k] = true
	}
	c.Count(enc, nontrivial)
	m.judge(c, enc, tab)
}

// c12Unmark clears every partial marker (source features are compared up to
// the markers slicing strips).
func c12Unmark(loc gts.Location) gts.Location {
	switch v := loc.(type) {
	case gts.Ranged:
		return gts.Ranged{Start: v.Start, End: v.End}
	case gts.Joined:
		o := make(gts.Joined, len(v))
		for i := range v {
			o[i] = c12Unmark(v[i])
		}
		return o
	case gts.Ordered:
		o := make(gts.Ordered, len(v))
		for i := range v {
			o[i] = c12Unmark(v[i])
		}
		return o
	case gts.Complemented:
		return gts.Complemented{Location: c12Unmark(v.Location)}
	}
	return loc
}

func (m c12) restoreCase(c *fw.Ctx, k *c12Case) {
	L := len(k.hostB)
	var enc string
	if k.corpus != "" {
		enc = fmt.Sprintf("Slice*;Concat;Repair host=%s:%s cuts=%v", k.hostKind, k.corpus, k.cuts)
	} else {
		enc = fmt.Sprintf("Slice*;Concat;Repair host=%s:%d cuts=%v F=[%s]", k.hostKind, L, k.cuts, c12Table(k.tab))
	}
	c.Begin(enc)
	orig := c12Snap(k.tab)
	nontrivial := false
	siteAtCut := false
	for _, f := range orig {
		for _, p := range f.parts {
			for _, x := range k.cuts {
				if p.Kind != model.KSite && p.Lo < x && x < p.Hi {
					nontrivial = true
				}
				if p.Kind == model.KSite && p.Lo == x {
					siteAtCut = true
				}
			}
			if p.Kind == model.KSite && (p.Lo == 0 || p.Lo == L) {
				siteAtCut = true // the ends of the sequence are ends of pieces too
			}
		}
	}
	c.Count(enc, nontrivial)
	if siteAtCut {
		c.Skip("restoration: a between-site lies on a cut or on an end of the sequence (Slice keeps it in no piece; C03 don't-care)")
		return
	}
	var res gts.Sequence
	if p, val, site, stack := fw.Guard(func() { res = c12CutCat(k.hostKind, k.tab, k.hostB, k.cuts) }); p {
		c.ViolateX("slice-concat:"+panicClass(site, val), enc, "no panic", fmt.Sprint(val), stack, nil)
		return
	}
	frag := []gts.Feature(res.Features())
	sfrag := c12Snap(frag)

	// precondition (owned by C03/C10): the fragments of every feature carry its
	// key and qualifiers and cover exactly its residues.
	byLabF := map[string][]*c12F{}
	c12Group(sfrag, func(f *c12F) string { return f.label }, nil, byLabF)
	origLab := map[string]*c12F{}
	for _, f := range orig {
		origLab[f.label] = f
	}
	for _, f := range orig {
		g := byLabF[f.label]
		okf := len(g) >= 1 && c12BitsEq(c12Union(g), f.res)
		for _, x := range g {
			if x.cls != f.cls {
				okf = false
			}
		}
		if !okf {
			c.Skip("restoration: fragments do not cover exactly the original feature (Slice/Concat deviation, C03/C10)")
			return
		}
	}
	for _, x := range sfrag {
		if origLab[x.label] == nil {
			c.Skip("restoration: fragment with an unknown label (Slice/Concat deviation, C03/C10)")
			return
		}
	}
	c.Bucket(fmt.Sprintf("cuts|%d", len(k.cuts)))
	c.Bucket("host|" + k.hostKind)
	for _, f := range orig {
		n := len(byLabF[f.label])
		if n >= 2 {
			c.Bucket("restoration|" + c12KindName[f.top])
			if f.key == "source" {
				c.Bucket("restoration|source-feature")
			}
			if n <= 4 {
				c.Bucket(fmt.Sprintf("fragments|%d", n))
			} else {
				c.Bucket("fragments|5+")
			}
		}
	}

	sout, ok := m.judge(c, enc, frag)
	if !ok {
		return
	}
	byLabO := map[string][]*c12F{}
	c12Group(sout, func(f *c12F) string { return f.label }, nil, byLabO)
	for _, x := range sout {
		if origLab[x.label] == nil {
			c.Violate("restoration:feature-with-unknown-qualifiers", enc, c12List(orig), c12List(sout))
			return
		}
	}
	lossOK := func(frags []*c12F, want, got c12Bits) bool {
		if !c.KFEnabled(c12KFAbsorb) {
			return false
		}
		ok, _ := c12Loss(frags, want, got)
		return ok
	}
	for _, f := range orig {
		R := byLabO[f.label]
		restored := len(R) == 1 && R[0].cls == f.cls
		if restored {
			if f.key == "source" {
				restored = model.SafeString(c12Unmark(f.loc)) == model.SafeString(c12Unmark(R[0].loc))
			} else {
				restored = f.pr == R[0].pr
			}
		}
		nfrag := len(byLabF[f.label])
		if restored {
			if nfrag >= 2 {
				c.Bucket("restored|" + c12KindName[f.top])
				if f.key == "source" {
					c.Bucket("restored|source-feature")
				}
			}
			continue
		}
		clsOK := true
		for _, x := range R {
			if x.cls != f.cls {
				clsOK = false
			}
		}
		switch {
		case len(f.parts) >= 2 && nfrag >= 2 && c.KFEnabled(c12KFMulti) && clsOK && len(R) >= 1 && (c12BitsEq(c12Union(R), f.res) || lossOK(byLabF[f.label], f.res, c12Union(R))):
			// deviation: the parts are not re-assembled, but nothing is lost.
			c.Known(c12KFMulti, enc)
			continue
		case f.top == c12Comp && len(f.parts) == 1 && f.parts[0].Kind == model.KRange && c.KFEnabled(c12KFComp) && clsOK && len(R) == 1:
			// deviation: complement(join(last fragment, ..., first fragment)).
			g := append([]*c12F(nil), byLabF[f.label]...)
			sort.SliceStable(g, func(i, j int) bool { return g[i].parts[0].Lo < g[j].parts[0].Lo })
			var inner gts.Joined
			okg := len(g) >= 2
			for i := len(g) - 1; i >= 0; i-- {
				cv, isC := g[i].loc.(gts.Complemented)
				if !isC || len(g[i].parts) != 1 {
					okg = false
					break
				}
				inner = append(inner, cv.Location)
			}
			if okg && model.SafeString(gts.Complemented{Location: inner}) == R[0].pr {
				c.Known(c12KFComp, enc)
				continue
			}
		}
		want := f.pr
		if f.key == "source" {
			want += " (up to partial markers)"
		}
		c.Violate("restoration:not-restored:"+c12KindName[f.top], enc,
			fmt.Sprintf("%s %s %q (from fragments %s)", f.key, want, [][]string(f.props), c12List(byLabF[f.label])), c12List(R))
		return
	}
}

// ---------------------------------------------------------------------------
// generators

func c12NoAmb(uni []gts.Location) []gts.Location {
	var out []gts.Location
	for _, l := range uni {
		amb := false
		for _, p := range model.Parts(l) {
			if p.Kind == model.KAmb {
				amb = true
			}
		}
		if !amb {
			out = append(out, l)
		}
	}
	return out
}

func c12CoreLeaf(r *rand.Rand, L int) gts.Location {
	switch k := r.Intn(20); {
	case k < 3:
		return gts.Point(r.Intn(L))
	case k < 5:
		return gts.Between(r.Intn(L + 1))
	default:
		s := r.Intn(L)
		e := s + 1 + r.Intn(L-s)
		return gts.PartialRange(s, e, gts.Partial{Partial5: r.Intn(10) < 3, Partial3: r.Intn(10) < 3})
	}
}

func c12GenRestore(r *rand.Rand) *c12Case {
	L := 10 + r.Intn(51)
	core := r.Intn(2) == 0
	n := 1 + r.Intn(8)
	k := &c12Case{hostKind: "basic", hostB: gen.UniqueBytes(0, L)}
	if r.Intn(3) == 0 {
		k.hostKind = "genbank"
	}
	for i := 0; i < n; i++ {
		key := gen.RandKey(r, 12)
		var loc gts.Location
		switch {
		case key == "source" && r.Intn(2) == 0:
			loc = gts.Range(0, L)
		case core:
			loc = c12CoreLeaf(r, L)
		default:
			switch r.Intn(4) {
			case 0:
				loc = c12CoreLeaf(r, L)
			case 1:
				loc = c12CoreLeaf(r, L).Complement()
			default:
				loc = gen.RandLoc(r, gen.LocOpt{L: L, MaxParts: 4, MaxDepth: 2, Sites: true})
			}
		}
		props := gen.LabelProps(r, fmt.Sprintf("f%d", i))
		if i == 0 && r.Intn(5) == 0 {
			props = nil // a bare feature (a bare source feature too): key and location, no qualifier
		}
		k.tab = append(k.tab, gts.Feature{Key: key, Loc: loc, Props: props})
	}
	forbidden := map[int]bool{}
	type sp struct{ lo, hi int }
	var wide []sp
	for _, f := range k.tab {
		for _, p := range model.Parts(f.Loc) {
			if p.Kind == model.KSite {
				forbidden[p.Lo] = true
			} else if p.Hi-p.Lo >= 2 {
				wide = append(wide, sp{p.Lo, p.Hi})
			}
		}
	}
	nc := 1 + r.Intn(3)
	chosen := map[int]bool{}
	for t := 0; t < 4*nc && len(chosen) < nc; t++ {
		var x int
		if len(wide) > 0 && r.Intn(10) < 7 {
			w := wide[r.Intn(len(wide))]
			x = w.lo + 1 + r.Intn(w.hi-w.lo-1)
		} else {
			x = 1 + r.Intn(L-1)
		}
		if !forbidden[x] && x > 0 && x < L {
			chosen[x] = true
		}
	}
	if len(chosen) == 0 {
		for x := 1; x < L; x++ {
			if !forbidden[x] {
				chosen[x] = true
				break
			}
		}
	}
	if len(chosen) == 0 {
		chosen[1] = true
	}
	for x := range chosen {
		k.cuts = append(k.cuts, x)
	}
	sort.Ints(k.cuts)
	return k
}

// c12Chain draws k consecutive fragments of one stretch. Junction styles:
// both markers (p=.5), only '>', only '<', none, or a one-residue gap with
// both markers. mode 0 forward, 1 all complemented, 2 each member at random.
func c12Chain(r *rand.Rand, L, k, mode int, proper bool) []gts.Location {
	if k > L {
		k = L
	}
	lo := r.Intn(L - k + 1)
	hi := lo + k + r.Intn(L-lo-k+1)
	set := map[int]bool{}
	for len(set) < k-1 {
		set[lo+1+r.Intn(hi-lo-1)] = true
	}
	bounds := []int{lo}
	for x := range set {
		bounds = append(bounds, x)
	}
	bounds = append(bounds, hi)
	sort.Ints(bounds)
	type fr struct {
		s, e   int
		p5, p3 bool
	}
	ff := make([]fr, k)
	for i := 0; i < k; i++ {
		ff[i] = fr{s: bounds[i], e: bounds[i+1]}
	}
	ff[0].p5 = r.Intn(4) == 0
	ff[k-1].p3 = r.Intn(4) == 0
	for j := 0; j+1 < k; j++ {
		st := r.Intn(8)
		if proper {
			st = 0
		}
		switch {
		case st < 4:
			ff[j].p3, ff[j+1].p5 = true, true
		case st == 4:
			ff[j].p3 = true
		case st == 5:
			ff[j+1].p5 = true
		case st == 6:
		default:
			ff[j].p3, ff[j+1].p5 = true, true
			if ff[j+1].e-ff[j+1].s >= 2 {
				ff[j+1].s++
			}
		}
	}
	out := make([]gts.Location, k)
	for i, f := range ff {
		var l gts.Location = gts.PartialRange(f.s, f.e, gts.Partial{Partial5: f.p5, Partial3: f.p3})
		if mode == 1 || (mode == 2 && r.Intn(2) == 0) {
			l = l.Complement()
		}
		out[i] = l
	}
	return out
}

func c12ClassLocs(r *rand.Rand, L, size int, coreOnly bool) []gts.Location {
	rangeOnly := func() gts.Location {
		s := r.Intn(L)
		e := s + 1 + r.Intn(L-s)
		return gts.PartialRange(s, e, gts.Partial{Partial5: r.Intn(10) < 3, Partial3: r.Intn(10) < 3})
	}
	style := r.Intn(5)
	var out []gts.Location
	switch {
	case size >= 2 && style <= 1:
		mode := 0
		if !coreOnly {
			switch x := r.Intn(20); {
			case x < 12:
			case x < 17:
				mode = 1
			default:
				mode = 2
			}
		}
		out = c12Chain(r, L, size, mode, false)
	case size >= 2 && style == 2 && !coreOnly:
		// a range with touching points and sites.
		s := r.Intn(L - 1)
		e := s + 1 + r.Intn(L-1-s)
		out = append(out, gts.PartialRange(s, e, gts.Partial{Partial5: r.Intn(4) == 0, Partial3: r.Intn(4) == 0}))
		for len(out) < size {
			switch r.Intn(7) {
			case 0:
				out = append(out, gts.Point(e))
			case 1:
				out = append(out, gts.Point(s))
			case 2:
				out = append(out, gts.Between(e))
			case 3:
				out = append(out, gts.Between(s))
			case 4:
				out = append(out, gts.Point(e-1))
			case 5:
				out = append(out, out[len(out)-1])
			default:
				out = append(out, c12CoreLeaf(r, L))
			}
		}
	case style == 3 && !coreOnly:
		for len(out) < size {
			out = append(out, gen.RandLoc(r, gen.LocOpt{L: L, MaxParts: 4, MaxDepth: 2, Ambiguous: true, Overlap: r.Intn(3) == 0, Sites: true}))
		}
	default:
		for len(out) < size {
			if coreOnly {
				out = append(out, rangeOnly())
			} else {
				out = append(out, c12CoreLeaf(r, L))
			}
		}
	}
	if r.Intn(2) == 0 {
		r.Shuffle(len(out), func(i, j int) { out[i], out[j] = out[j], out[i] })
	}
	return out
}

func c12GenSafety(r *rand.Rand) []gts.Feature {
	L := 10 + r.Intn(51)
	coreOnly := r.Intn(2) == 0
	total := 1 + r.Intn(8)
	var tab []gts.Feature
	for ci := 0; len(tab) < total; ci++ {
		size := 1 + r.Intn(3)
		if size > total-len(tab) {
			size = total - len(tab)
		}
		key := gen.RandKey(r, 12)
		props := gen.LabelProps(r, fmt.Sprintf("c%d", ci))
		if ci == 0 && r.Intn(6) == 0 {
			// features without any qualifier (a bare key and location) are a
			// class like any other.
			props = nil
		}
		for _, l := range c12ClassLocs(r, L, size, coreOnly) {
			tab = append(tab, gts.Feature{Key: key, Loc: l, Props: props.Clone()})
		}
	}
	if r.Intn(3) == 0 && len(tab) <= 6 {
		// a properly marked abutting pair spread over two different classes.
		ch := c12Chain(r, L, 2, 0, true)
		a := gts.Feature{Key: "gene", Loc: ch[0], Props: gts.Props{{"label", "t"}, {"note", "x y"}}}
		b := gts.Feature{Key: "gene", Loc: ch[1], Props: gts.Props{{"label", "t"}, {"note", "x y"}}}
		switch r.Intn(9) {
		case 6, 7, 8:
			// the same key and qualifiers but for the value of one qualifier a
			// class key might leave out (two hypothetical proteins side by side).
			name := []string{"translation", "product", "protein_id", "db_xref", "codon_start", "gene", "locus_tag"}[r.Intn(7)]
			a.Key, b.Key = "CDS", "CDS"
			a.Props = gts.Props{{"label", "t"}, {"product", "hypothetical protein"}, {name, "MKVAAL"}, {"note", "x y"}}
			b.Props = gts.Props{{"label", "t"}, {"product", "hypothetical protein"}, {name, "MKVAAI"}, {"note", "x y"}}
			if name == "product" {
				a.Props = gts.Props{{"label", "t"}, {"product", "MKVAAL"}, {"note", "x y"}}
				b.Props = gts.Props{{"label", "t"}, {"product", "MKVAAI"}, {"note", "x y"}}
			}
		case 0, 1:
			b.Key = "CDS"
		case 2, 3:
			b.Props = gts.Props{{"label", "u"}, {"note", "x y"}}
		case 4:
			b.Props = gts.Props{{"label", "t"}, {"note", "x y"}, {"pseudo", ""}}
		default:
			// the same text split into two values, for several separators a lossy
			// class key could use.
			sep := []string{" ", ",", ";", "=", "; ", "] [", "\" \""}[r.Intn(7)]
			a.Props = gts.Props{{"label", "t"}, {"note", "x" + sep + "y"}}
			b.Props = gts.Props{{"label", "t"}, {"note", "x", "y"}}
		}
		tab = append(tab, a, b)
	}
	if r.Intn(2) == 0 {
		r.Shuffle(len(tab), func(i, j int) { tab[i], tab[j] = tab[j], tab[i] })
	} else {
		tab = gen.SortedTable(tab)
	}
	return tab
}

func (m c12) corpus(c *fw.Ctx) {
	dir := os.Getenv("VERIF_REPO_DIR")
	if dir == "" {
		dir = "/repo"
	}
	path := filepath.Join(dir, "seqio", "testdata", "NC_001422.gb")
	f, err := os.Open(path)
	if err != nil {
		c.Inconclusive("C12: cannot open " + path + ": " + err.Error())
		return
	}
	defer f.Close()
	var seq gts.Sequence
	p, val, _, _ := fw.Guard(func() {
		sc := seqio.NewScanner(seqio.GenBankParser, f)
		if sc.Scan() {
			seq = sc.Value()
		}
	})
	if p || seq == nil {
		c.Inconclusive(fmt.Sprintf("C12: cannot read %s: %v", path, val))
		return
	}
	// give every feature a table-unique label so the restoration clause applies.
	var tab []gts.Feature
	for i, ft := range seq.Features() {
		pr := ft.Props.Clone()
		pr.Add("label", fmt.Sprintf("x%d", i))
		tab = append(tab, gts.Feature{Key: ft.Key, Loc: ft.Loc, Props: pr})
	}
	c.Bucket("corpus:phiX174")
	m.restoreCase(c, &c12Case{hostKind: "genbank", hostB: append([]byte(nil), seq.Bytes()...), tab: tab, cuts: []int{1000, 4000}, corpus: "NC_001422.gb"})
}

func (m c12) Run(c *fw.Ctx) {
	// R-A: one feature x every cut set, 6 residues.
	{
		L := 6
		uni := c12NoAmb(gen.Universe(L, 2))
		n := 0
		cutSets(L, 3, func(cuts []int) {
			if len(cuts) == 0 {
				return
			}
			n++
			for ui, loc := range uni {
				if !c.NextShared() {
					continue
				}
				key := "gene"
				if ui%7 == 3 {
					key = "source"
				}
				kind := "basic"
				if (ui+n)%2 == 0 {
					kind = "genbank"
				}
				m.restoreCase(c, &c12Case{hostKind: kind, hostB: gen.UniqueBytes(0, L), cuts: cuts,
					tab: []gts.Feature{{Key: key, Loc: loc, Props: c12Lbl("h0")}}})
			}
		})
		c.Exhaustive("restoration: non-ambiguous Universe(L=6,arity<=2) as the single feature x all sets of 1..3 cuts")
	}
	// R-B: two uniquely labelled features x every cut set.
	{
		L := c.Pick(4, 5)
		uni := c12NoAmb(gen.Universe(L, 2))
		cutSets(L, 3, func(cuts []int) {
			if len(cuts) == 0 {
				return
			}
			for ai, a := range uni {
				for bi, b := range uni {
					if !c.NextShared() {
						continue
					}
					kb := "gene"
					if (ai+bi)%3 == 0 {
						kb = "CDS"
					}
					m.restoreCase(c, &c12Case{hostKind: "basic", hostB: gen.UniqueBytes(0, L), cuts: cuts,
						tab: []gts.Feature{{Key: "gene", Loc: a, Props: c12Lbl("h0")}, {Key: kb, Loc: b, Props: c12Lbl("h1")}}})
				}
			}
		})
		c.Exhaustive(fmt.Sprintf("restoration: ordered pairs of non-ambiguous Universe(L=%d,arity<=2) with unique labels x all sets of 1..3 cuts", L))
	}
	// S-A: singles and same-class pairs.
	{
		uni := gen.Universe(4, 2)
		for _, a := range uni {
			if c.NextShared() {
				m.safetyCase(c, []gts.Feature{{Key: "gene", Loc: a, Props: c12Lbl("k")}})
			}
		}
		for _, a := range uni {
			for _, b := range uni {
				if c.NextShared() {
					m.safetyCase(c, []gts.Feature{{Key: "gene", Loc: a, Props: c12Lbl("k")}, {Key: "gene", Loc: b, Props: c12Lbl("k")}})
				}
			}
		}
		c.Exhaustive("safety: Universe(L=4,arity<=2) alone and all ordered pairs as one class")
	}
	// S-B..D: forward leaves of a 4-residue universe.
	{
		lv := gen.Leaves(4, true, false)
		for _, a := range lv {
			for _, b := range lv {
				for _, d := range lv {
					if c.NextShared() {
						m.safetyCase(c, []gts.Feature{{Key: "gene", Loc: a, Props: c12Lbl("k")}, {Key: "gene", Loc: b, Props: c12Lbl("k")}, {Key: "gene", Loc: d, Props: c12Lbl("k")}})
					}
				}
			}
		}
		c.Exhaustive("safety: all triples of forward leaves (L=4, all partial combinations) as one class")
		for _, a := range lv {
			for _, b := range lv {
				if c.NextShared() {
					m.safetyCase(c, []gts.Feature{{Key: "source", Loc: a, Props: c12Lbl("k")}, {Key: "source", Loc: b, Props: c12Lbl("k")}})
				}
				for v := 0; v < 3; v++ {
					if !c.NextShared() {
						continue
					}
					fa := gts.Feature{Key: "gene", Loc: a, Props: gts.Props{{"label", "k"}, {"note", "x y"}}}
					fb := gts.Feature{Key: "gene", Loc: b, Props: gts.Props{{"label", "k"}, {"note", "x y"}}}
					switch v {
					case 0:
						fb.Key = "CDS"
					case 1:
						fb.Props = gts.Props{{"label", "j"}, {"note", "x y"}}
					default:
						sep := []string{" ", ",", ";", "="}[(len(model.SafeString(a))+len(model.SafeString(b)))%4]
						fa.Props = gts.Props{{"label", "k"}, {"note", "x" + sep + "y"}}
						fb.Props = gts.Props{{"label", "k"}, {"note", "x", "y"}}
					}
					m.safetyCase(c, []gts.Feature{fa, fb})
				}
			}
		}
		c.Exhaustive("safety: all pairs of forward leaves (L=4) as one source class and as two classes differing in key / qualifier value / value splitting")
	}
	// corpus.
	if c.NextShared() {
		m.corpus(c)
	}
	// seeded.
	r := c.Rng
	N := c.Pick(3000, 150000)
	for it := 0; it < N; it++ {
		rc := c12GenRestore(r)
		st := c12GenSafety(r)
		if c.NextOwn() {
			m.restoreCase(c, rc)
		}
		if c.NextOwn() {
			m.safetyCase(c, st)
		}
	}
	cliRepair(c)
}
