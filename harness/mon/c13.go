package mon

import (
	"bytes"
	"crypto/md5"
	"crypto/sha1"
	"crypto/sha256"
	"crypto/sha512"
	"encoding/hex"
	"fmt"
	"hash"
	"io"
	"math/rand"
	"os"
	"path/filepath"
	"runtime"
	"strings"
	"time"

	"github.com/go-gts/gts/cmd/cache"

	"verifharness/cli"
	"verifharness/fw"
)

type c13 struct{ base }

func init() { register(c13{}) }

func (c13) ID() string    { return "C13" }
func (c13) Level() string { return "fault_enumeration" }
func (c13) Rule() string {
	return "for bodies {empty, 1 B, 100 B text, 5 KiB text, 70 KiB incompressible, 200 KiB multi-block} written through the real cache.CreateLevel/Write/Close (chunked like the CLI's 4 KiB bufio writer): (1) control: the finished entry opens and reads back exactly the body; (2) every byte offset x {8 single-bit masks, 0x00, 0xFF, complement} of the finished file (all offsets for files <= 8 KiB and for the 60-byte header of every file, sampled offsets beyond: quick 300, thorough 20000 per file); (3) every truncation length (all for small files, all header lengths + sampled for big ones); (4) appended tails {1 B, 60 B, a whole second entry}; (5) the entry stored under the name of a different root/data digest and opened with the other key, and opened in place with a different rsum or dsum; (6) crash points through hook H1 on the real write path: after create, after the placeholder header, before every body write, after flate close, after the body hash, before the final header, tear:K for every K in 0..60, after the header - each followed by cache.Open; (7) the real CLI `gts clear|reverse|complement` SIGKILLed at every H1/H2 point of its own write path, and run under strace with ENOSPC/EIO injected into the N-th write(2) on the cache entry for every N; then the identical command run clean over the same cache directory must equal the uncached reference (and a faulted run that exits 0 must have printed the reference output); (8) whole entries through the CLI: a 2.6 MB three-record FASTA stream through gts reverse / gts complement -F fasta twice over one cache directory (the second run is a traced hit), and two different inputs on stdin with the same arguments, each twice, every run equal to its --no-cache reference. Oracle: Open err==nil => ReadAll == exactly the written body; every damaged state must fail to open. non-trivial: a fault was actually applied (state differs from the finished entry); distinct: (body, fault kind, parameter). (9) control cases over {GenBank record, 8-record stream, FASTA, small record, empty} x levels {Create default, 0, 1, 2, 5, 6, 9, Huffman-only} x {a hash per call, one hash with a lookup of another key between Create and Close, one hash with a second entry and a caller digest in between}; the write(2) error injection of (7) also on a 48-record stream (failures in the middle of the body). Both entries of (9) are opened before either is read; gts insert / gts search are run over one cache directory with two files under one name; every CLI crash point is also taken with SIGTERM and SIGINT (hook action term/int), followed by two clean reruns. After every in-process crash the File is dropped and a garbage collection forced before the entry is opened (an abandoned writer stays unfinished); a worker death whose report shows a panic or fatal error inside go-gts/gts is a violation even when the last case alone does not reproduce it. Entries written and read with MD5, SHA-256 and SHA-512; the corpus record and its CRLF twin through gts reverse over one cache directory. One of the caller modes reads three bytes with Read and the rest with io.Copy."
}
func (c13) Assumptions() []string {
	return []string{"crash = process death with the operating system surviving (bytes handed to write(2) persist, bytes buffered in the flate writer are lost); no fsync / power-loss model",
		"in-process crash points panic with a sentinel that the harness recovers without any further call on the File; child-process crash points SIGKILL the gts process",
		"Go toolchain; crypto/sha1 as the digest (the one the CLI uses)"}
}
func (c13) RequiredBuckets(tier string) []string {
	return []string{"control:clean-entry-reads-back", "flip:header", "flip:body", "truncate", "extend", "wrong-key:renamed", "wrong-key:in-place",
		"crash:created", "crash:placeholder", "crash:body-write", "crash:flate-closed", "crash:hashed", "crash:pre-header", "crash:post-header", "tear",
		"fault:open-failed", "crash:over-an-earlier-entry", "cli:crash-then-clean-run", "cli:catchable-signal-then-clean-run", "cli:multi-MiB-output", "cli:two-inputs,-same-arguments", "cli:two-files-under-one-name,-same-arguments-and-input", "body:empty", "body:multi-block", "body:stored-size-block-aligned", "body:several-MiB", "writers:overlapping", "control:level:-1", "control:level:9", "control:caller:1", "control:caller:2", "control:genbank-record", "control:digest:md5", "control:digest:sha256", "cli:io-error-in-the-middle-of-a-large-body"}
}

type body struct {
	name string
	data []byte
}

func c13Bodies(r *rand.Rand) []body {
	text := func(n int) []byte {
		var b bytes.Buffer
		i := 0
		for b.Len() < n {
			fmt.Fprintf(&b, "LOCUS line %d acgtacgtacgtnnnn %d\n", i, r.Intn(1000))
			i++
		}
		return b.Bytes()[:n]
	}
	rnd := make([]byte, 70<<10)
	r.Read(rnd)
	return []body{
		{"empty", nil},
		{"1B", []byte{byte(33 + r.Intn(90))}},
		{"100B", text(100)},
		{"5KiB", text(5 << 10)},
		{"70KiB-incompressible", rnd},
		{"200KiB-multi-block", text(200 << 10)},
	}
}

// alignedBody searches incompressible bodies of about 4 and 8 KiB for one whose
// entry is 60 + k*4096 bytes long.
func (x *c13ctx) alignedBody(r *rand.Rand) (body, bool) {
	rnd := make([]byte, 8300)
	r.Read(rnd)
	for _, base := range []int{8140, 4040} {
		for n := base; n < base+70; n++ {
			cache.VerifReset()
			if crashed, err := x.writeEntry(rnd[:n], 4096); crashed || err != nil {
				return body{}, false
			}
			st, err := os.Stat(x.path())
			os.Remove(x.path())
			if err == nil && st.Size() > 60 && (st.Size()-60)%4096 == 0 {
				return body{fmt.Sprintf("%dB-stored-size-block-aligned", n), append([]byte(nil), rnd[:n]...)}, true
			}
		}
	}
	return body{}, false
}

type c13ctx struct {
	c    *fw.Ctx
	dir  string
	rsum []byte
	dsum []byte
}

func sum(s string) []byte { h := sha1.Sum([]byte(s)); return h[:] }

func entryName(rsum, dsum []byte) string {
	h := sha1.New()
	h.Write(append(append([]byte{}, rsum...), dsum...))
	return hex.EncodeToString(h.Sum(nil))
}

// writeEntry runs the real write protocol; chunk is the Write size. It returns
// whether an injected crash happened.
func (x *c13ctx) writeEntry(b []byte, chunk int) (crashed bool, err error) {
	defer func() {
		if r := recover(); r != nil {
			if _, ok := r.(cache.VerifCrash); ok {
				crashed = true
				// the writer is gone for good: nothing refers to its File any
				// more. Whatever the runtime does with an abandoned File (a
				// collection runs, finalizers with it) happens before the entry
				// is looked at - an entry nobody finished stays unfinished.
				cache.VerifPlan = func(string, int) string { return "" }
				runtime.GC()
				for i := 0; i < 3; i++ {
					runtime.Gosched()
					time.Sleep(100 * time.Microsecond)
				}
				return
			}
			panic(r)
		}
	}()
	f, err := cache.CreateLevel(x.dir, sha1.New(), x.rsum, x.dsum, 1)
	if err != nil {
		return false, err
	}
	for off := 0; off < len(b); off += chunk {
		end := off + chunk
		if end > len(b) {
			end = len(b)
		}
		if _, err := f.Write(b[off:end]); err != nil {
			return false, err
		}
	}
	return false, f.Close()
}

// open returns (opened, data).
func (x *c13ctx) open(rsum, dsum []byte) (ok bool, data []byte, err error) {
	f, err := cache.Open(x.dir, sha1.New(), rsum, dsum)
	if err != nil {
		if f != nil {
			f.Close()
		}
		return false, nil, err
	}
	data, rerr := io.ReadAll(f)
	f.Close()
	if rerr != nil {
		// opened but unreadable: the caller gets an error while reading; what it
		// already copied out differs from the body -> treated as "returned
		// different bytes" by the caller of judge.
		return true, data, rerr
	}
	return true, data, nil
}

func (x *c13ctx) path() string { return filepath.Join(x.dir, entryName(x.rsum, x.dsum)) }

// judge applies the oracle to the current on-disk state.
func (x *c13ctx) judge(bd body, kind, param string, mustFail bool, nontrivial bool) {
	c := x.c
	enc := fmt.Sprintf("body=%s fault=%s %s", bd.name, kind, param)
	c.Begin(enc)
	c.Count(enc, nontrivial)
	var ok bool
	var data []byte
	var rerr error
	p, val, site, stack := fw.Guard(func() { ok, data, rerr = x.open(x.rsum, x.dsum) })
	if p {
		c.ViolateX("open:"+panicClass(site, val)+":"+kind, enc, "no panic", fmt.Sprint(val), stack, nil)
		return
	}
	if !ok {
		c.Bucket("fault:open-failed")
		return
	}
	if rerr != nil || !bytes.Equal(data, bd.data) {
		c.Violate("opened-with-different-bytes:"+kind, enc, fmt.Sprintf("open fails, or %d bytes equal to the body", len(bd.data)),
			fmt.Sprintf("open ok, read %d bytes (read error: %v), equal=%v", len(data), rerr, bytes.Equal(data, bd.data)))
		return
	}
	if mustFail {
		c.Violate("damaged-entry-opened:"+kind, enc, "open fails", "open ok with the original bytes")
	}
}

func (m c13) Run(c *fw.Ctx) {
	dir := filepath.Join(c.WorkDir, fmt.Sprintf("c13-%d", c.Shard))
	os.MkdirAll(dir, 0755)
	defer os.RemoveAll(dir)
	x := &c13ctx{c: c, dir: dir, rsum: sum("root"), dsum: sum("data")}
	bodies := c13Bodies(c.SubRng("bodies"))
	// a body whose stored (deflated) form is a whole number of 4 KiB blocks, so
	// that the entry ends exactly where a block-wise reader stops.
	if b, ok := x.alignedBody(c.SubRng("aligned")); ok {
		bodies = append(bodies, b)
	} else {
		c.Note("no incompressible body with a block-aligned stored size was found")
	}
	sr := c.SubRng("offsets")
	nSample := c.Pick(300, 20000)
	masks := []func(b byte) byte{
		func(b byte) byte { return b ^ 1 }, func(b byte) byte { return b ^ 2 }, func(b byte) byte { return b ^ 4 }, func(b byte) byte { return b ^ 8 },
		func(b byte) byte { return b ^ 16 }, func(b byte) byte { return b ^ 32 }, func(b byte) byte { return b ^ 64 }, func(b byte) byte { return b ^ 128 },
		func(b byte) byte { return 0 }, func(b byte) byte { return 0xFF }, func(b byte) byte { return ^b },
	}
	maskNames := []string{"^01", "^02", "^04", "^08", "^10", "^20", "^40", "^80", "=00", "=FF", "=~b"}
	gcTick := 0
	tick := func() {
		gcTick++
		if gcTick%2000 == 0 {
			runtime.GC() // releases the descriptors of entries whose writer "crashed"
		}
	}
	for _, bd := range bodies {
		c.Bucket("body:" + strings.SplitN(bd.name, "-", 2)[0])
		if bd.name == "200KiB-multi-block" {
			c.Bucket("body:multi-block")
		}
		if strings.HasSuffix(bd.name, "stored-size-block-aligned") {
			c.Bucket("body:stored-size-block-aligned")
		}
		// finished entry.
		cache.VerifPlan = func(string, int) string { return "" }
		cache.VerifReset()
		os.Remove(x.path())
		if _, err := x.writeEntry(bd.data, 4096); err != nil {
			c.Inconclusive("cannot write a clean entry: " + err.Error())
			return
		}
		hits := map[string]int{}
		for k, v := range cache.VerifHits {
			hits[k] = v
		}
		F, err := os.ReadFile(x.path())
		if err != nil {
			c.Inconclusive("cannot read back the finished entry file: " + err.Error())
			return
		}
		if c.NextShared() {
			c.Bucket("control:clean-entry-reads-back")
			x.judge(bd, "none", "", false, false)
		}
		put := func(b []byte) { os.WriteFile(x.path(), b, 0644) }
		// (2) byte corruption.
		offsets := []int{}
		if len(F) <= 8<<10 {
			for i := range F {
				offsets = append(offsets, i)
			}
		} else {
			for i := 0; i < 64 && i < len(F); i++ {
				offsets = append(offsets, i)
			}
			for k := 0; k < nSample; k++ {
				offsets = append(offsets, 60+sr.Intn(len(F)-60))
			}
			offsets = append(offsets, len(F)-1, len(F)-2)
		}
		for _, off := range offsets {
			for mi, mk := range masks {
				if !c.NextShared() {
					continue
				}
				nb := mk(F[off])
				if nb == F[off] {
					continue
				}
				g := append([]byte(nil), F...)
				g[off] = nb
				put(g)
				if off < 60 {
					c.Bucket("flip:header")
				} else {
					c.Bucket("flip:body")
				}
				x.judge(bd, "flip", fmt.Sprintf("offset=%d mask=%s of %d", off, maskNames[mi], len(F)), true, true)
				tick()
			}
		}
		// (3) truncation.
		lens := []int{}
		if len(F) <= 8<<10 {
			for n := 0; n < len(F); n++ {
				lens = append(lens, n)
			}
		} else {
			for n := 0; n <= 64; n++ {
				lens = append(lens, n)
			}
			for k := 0; k < nSample/4; k++ {
				lens = append(lens, 60+sr.Intn(len(F)-60))
			}
			lens = append(lens, len(F)-1, len(F)-2, len(F)-8)
		}
		for _, n := range lens {
			if !c.NextShared() {
				continue
			}
			put(F[:n])
			c.Bucket("truncate")
			x.judge(bd, "truncate", fmt.Sprintf("to=%d of %d", n, len(F)), true, true)
			tick()
		}
		// (4) extension.
		tails := [][]byte{{0}, {'x'}, bytes.Repeat([]byte{0}, 60), bytes.Repeat([]byte{0xAB}, 60), F}
		for ti, t := range tails {
			if !c.NextShared() {
				continue
			}
			put(append(append([]byte(nil), F...), t...))
			c.Bucket("extend")
			x.judge(bd, "extend", fmt.Sprintf("tail#%d len=%d", ti, len(t)), true, true)
		}
		// (5) wrong key.
		put(F)
		for ki, alt := range [][2][]byte{{sum("root2"), x.dsum}, {x.rsum, sum("data2")}, {sum("root2"), sum("data2")}} {
			if !c.NextShared() {
				continue
			}
			// the entry of (rsum,dsum) stored under the other key's name, opened with the other key.
			other := filepath.Join(x.dir, entryName(alt[0], alt[1]))
			os.WriteFile(other, F, 0644)
			enc := fmt.Sprintf("body=%s fault=wrong-key renamed#%d", bd.name, ki)
			c.Begin(enc)
			c.Count(enc, true)
			c.Bucket("wrong-key:renamed")
			ok, data, _ := x.open(alt[0], alt[1])
			if ok {
				c.Violate("wrong-key-entry-opened", enc, "open fails", fmt.Sprintf("open ok, %d bytes", len(data)))
			} else {
				c.Bucket("fault:open-failed")
			}
			os.Remove(other)
		}
		// (6) crash points on the real write path.
		type cp struct {
			point string
			hit   int
			act   string
		}
		var cps []cp
		for _, pt := range []string{"created", "placeholder", "flate-closed", "hashed", "pre-header", "post-header"} {
			for h := 1; h <= hits[pt]; h++ {
				cps = append(cps, cp{pt, h, "kill"})
			}
		}
		for h := 1; h <= hits["body-write"]; h++ {
			cps = append(cps, cp{"body-write", h, "kill"})
		}
		for k := 0; k <= 60; k++ {
			cps = append(cps, cp{"pre-header", 1, fmt.Sprintf("tear:%d", k)})
		}
		for _, p := range cps {
			for _, chunk := range []int{4096, 1 << 16} {
				if p.point == "body-write" && chunk != 4096 {
					continue
				}
				if !c.NextShared() {
					continue
				}
				os.Remove(x.path())
				cache.VerifReset()
				pp := p
				cache.VerifPlan = func(point string, hit int) string {
					if point == pp.point && hit == pp.hit {
						return pp.act
					}
					return ""
				}
				crashed, err := x.writeEntry(bd.data, chunk)
				cache.VerifPlan = func(string, int) string { return "" }
				if !crashed {
					if p.point == "body-write" && chunk != 4096 {
						continue
					}
					c.Inconclusive(fmt.Sprintf("hook point %s hit %d never fired (err=%v)", p.point, p.hit, err))
					continue
				}
				c.Hook("crash-injected:" + p.point)
				kind := "crash:" + p.point
				if strings.HasPrefix(p.act, "tear") {
					kind = "tear"
				}
				c.Bucket(kind)
				// a state is damaged only if it differs from the finished entry: a
				// torn header whose unwritten tail happens to be zero bytes (the
				// body digest ends in 0x00, 1 case in 256 per length) IS the
				// finished file.
				cur, _ := os.ReadFile(x.path())
				complete := bytes.Equal(cur, F)
				x.judge(bd, kind, fmt.Sprintf("hit=%d action=%s chunk=%d", p.hit, p.act, chunk), !complete, !complete)
				if strings.HasPrefix(p.act, "tear:") {
					// cross-check: the same state synthesised from the finished file.
					var k int
					fmt.Sscanf(p.act, "tear:%d", &k)
					hook, _ := os.ReadFile(x.path())
					syn := append([]byte(nil), F...)
					for i := k; i < 60 && i < len(syn); i++ {
						syn[i] = 0
					}
					if !bytes.Equal(hook, syn) {
						c.Inconclusive(fmt.Sprintf("hook tear:%d state differs from the synthesised prefix state (body %s)", k, bd.name))
					}
				}
				tick()
			}
		}
		// (6b) the same crash points when the entry is written over a finished
		// entry of the same key (an earlier run's result, longer or shorter):
		// the interrupted writer must not leave the old entry readable either.
		for pi, p := range cps {
			if strings.HasPrefix(p.act, "tear") && p.act != "tear:0" && p.act != "tear:30" {
				continue
			}
			if !c.NextShared() {
				continue
			}
			os.Remove(x.path())
			cache.VerifReset()
			cache.VerifPlan = func(string, int) string { return "" }
			old := append([]byte("an earlier result under the same key\n"), bd.data...)
			if pi%2 == 1 && len(bd.data) > 8 {
				old = append([]byte(nil), bd.data[:len(bd.data)/2]...)
			}
			if crashed, err := x.writeEntry(old, 4096); crashed || err != nil {
				c.Inconclusive(fmt.Sprintf("cannot write the earlier entry: crashed=%v err=%v", crashed, err))
				continue
			}
			cache.VerifReset()
			pp := p
			cache.VerifPlan = func(point string, hit int) string {
				if point == pp.point && hit == pp.hit {
					return pp.act
				}
				return ""
			}
			crashed, err := x.writeEntry(bd.data, 4096)
			cache.VerifPlan = func(string, int) string { return "" }
			if !crashed {
				c.Inconclusive(fmt.Sprintf("hook point %s hit %d never fired when re-creating an entry (err=%v)", p.point, p.hit, err))
				continue
			}
			c.Hook("crash-injected-on-recreate:" + p.point)
			c.Bucket("crash:over-an-earlier-entry")
			cur, _ := os.ReadFile(x.path())
			complete := bytes.Equal(cur, F)
			x.judge(bd, "crash-on-recreate:"+p.point, fmt.Sprintf("hit=%d action=%s over an earlier entry of %d bytes", p.hit, p.act, len(old)), !complete, !complete)
			tick()
		}
		os.Remove(x.path())
	}
	c.Exhaustive("all H1 crash points and tear lengths 0..60 per body; all offsets x 11 masks and all truncation lengths of every entry <= 8 KiB and of every 60-byte header")
	// (5b) in place with a different key: Open computes another file name, so
	// nothing is there; and a file that is present but whose header names other
	// digests is covered by the renamed case above.
	if c.NextShared() {
		enc := "fault=wrong-key in-place"
		c.Begin(enc)
		c.Count(enc, true)
		c.Bucket("wrong-key:in-place")
		cache.VerifReset()
		x.writeEntry([]byte("hello"), 4096)
		if ok, _, _ := x.open(sum("other-root"), x.dsum); ok {
			c.Violate("wrong-key-opened-in-place", enc, "open fails", "open ok")
		}
		if ok, _, _ := x.open(x.rsum, sum("other-data")); ok {
			c.Violate("wrong-key-opened-in-place", enc, "open fails", "open ok")
		}
		os.Remove(x.path())
	}
	m.bigBody(c, x)
	m.overlappingWriters(c, x)
	m.levelsAndCallers(c, x)
	m.cliCrashes(c)
}

// overlappingWriters: two entries (different keys) are written at the same
// time by one process, their writes interleaved; each reads back its own body.
// levelsAndCallers is the control case over what callers may legitimately
// vary: the kind of text stored (the flat files gts writes, not only synthetic
// bodies), the compression level (Create's default and every CreateLevel
// level), and one hash.Hash value serving every cache call of the caller, other
// calls falling between Create and Close of the entry. A finished entry opens
// and reads back exactly what was written.
func (m c13) levelsAndCallers(c *fw.Ctx, x *c13ctx) {
	repo := os.Getenv("VERIF_REPO_DIR")
	if repo == "" {
		repo = "/repo"
	}
	gbk, err := os.ReadFile(filepath.Join(repo, "seqio", "testdata", "NC_001422.gb"))
	if err != nil {
		c.Inconclusive("corpus not readable: " + err.Error())
		return
	}
	r := c.SubRng("c13-levels")
	fasta := []byte(">NC_001422.1 Coliphage phi-X174, complete genome\n")
	for i := 0; i < 5386; i++ {
		fasta = append(fasta, "acgt"[r.Intn(4)])
		if i%70 == 69 {
			fasta = append(fasta, '\n')
		}
	}
	small := []byte("LOCUS       X 10 bp DNA linear UNA 01-JAN-2020\nFEATURES             Location/Qualifiers\n     source          1..10\n                     /organism=\"x\"\nORIGIN      \n        1 acgtacgtac\n//\n")
	bodies := []body{{"genbank-record", gbk}, {"genbank-stream-of-8", bytes.Repeat(gbk, 8)}, {"fasta-record", fasta}, {"small-genbank-record", small}, {"empty", nil}}
	levels := []int{-1, 1, 2, 5, 6, 9, 0, -2}
	// the digest is the caller's choice (the API takes a hash.Hash): every
	// size a caller may bring.
	type hk struct {
		name string
		mk   func() hash.Hash
	}
	for _, h := range []hk{{"md5", md5.New}, {"sha256", sha256.New}, {"sha512", sha512.New}} {
		for _, bd := range bodies[:3] {
			if !c.NextShared() {
				continue
			}
			enc := fmt.Sprintf("control: %s (%d bytes) stored and read back with %s as the digest", bd.name, len(bd.data), h.name)
			c.Begin(enc)
			c.Count(enc, true)
			c.Bucket("control:digest:" + h.name)
			cache.VerifPlan = func(string, int) string { return "" }
			cache.VerifReset()
			sub := filepath.Join(x.dir, "digest-"+h.name)
			os.MkdirAll(sub, 0755)
			size := h.mk().Size()
			big := sha512.Sum512([]byte("levels-digest-" + bd.name))
			rs, ds := append([]byte(nil), big[:size]...), append([]byte(nil), big[64-size:]...)
			var got []byte
			var oerr error
			pn, val, site, stack := fw.Guard(func() {
				var f *cache.File
				if f, oerr = cache.CreateLevel(sub, h.mk(), rs, ds, 1); oerr != nil {
					return
				}
				if _, oerr = f.Write(bd.data); oerr != nil {
					return
				}
				if oerr = f.Close(); oerr != nil {
					return
				}
				var g *cache.File
				if g, oerr = cache.Open(sub, h.mk(), rs, ds); oerr != nil {
					return
				}
				got, oerr = io.ReadAll(g)
				g.Close()
			})
			os.RemoveAll(sub)
			switch {
			case pn:
				c.ViolateX("control:"+panicClass(site, val), enc, "no panic", fmt.Sprint(val), stack, nil)
			case oerr != nil:
				c.Violate("control:finished-entry-not-readable", enc, "the entry opens and reads back", oerr.Error())
			case !bytes.Equal(got, bd.data):
				c.Violate("control:finished-entry-reads-other-bytes", enc, fmt.Sprintf("%d bytes as written", len(bd.data)), fmt.Sprintf("%d bytes", len(got)))
			}
		}
	}
	for _, bd := range bodies {
		for _, lv := range levels {
			for mode := 0; mode < 3; mode++ {
				if !c.NextShared() {
					continue
				}
				enc := fmt.Sprintf("control: %s (%d bytes) stored at level %d, %s", bd.name, len(bd.data), lv,
					[]string{"a hash of its own for every call", "one hash for all calls, a lookup of another key between Create and Close", "one hash for all calls, a second entry written and the caller's own digest taken between Create and Close, both entries opened before either is read"}[mode])
				c.Begin(enc)
				c.Count(enc, len(bd.data) > 0)
				c.Bucket(fmt.Sprintf("control:level:%d", lv))
				c.Bucket(fmt.Sprintf("control:caller:%d", mode))
				c.Bucket("control:" + bd.name)
				cache.VerifPlan = func(string, int) string { return "" }
				cache.VerifReset()
				rs := sum(fmt.Sprintf("levels-%s-%d-%d", bd.name, lv, mode))
				rs2 := sum(fmt.Sprintf("levels-2-%s-%d-%d", bd.name, lv, mode))
				var got, got2 []byte
				var oerr error
				other := []byte("the other entry\n")
				pn, val, site, stack := fw.Guard(func() {
					shared := sha1.New()
					hh := func() hash.Hash {
						if mode == 0 {
							return sha1.New()
						}
						return shared
					}
					var f *cache.File
					if lv == -1 {
						f, oerr = cache.Create(x.dir, hh(), rs, x.dsum)
					} else {
						f, oerr = cache.CreateLevel(x.dir, hh(), rs, x.dsum, lv)
					}
					if oerr != nil {
						return
					}
					half := len(bd.data) / 2
					if _, oerr = f.Write(bd.data[:half]); oerr != nil {
						return
					}
					switch mode {
					case 1:
						if g, e := cache.Open(x.dir, hh(), sum("nobody wrote this"), x.dsum); e == nil {
							g.Close()
						}
					case 2:
						g, e := cache.CreateLevel(x.dir, hh(), rs2, x.dsum, 1)
						if e != nil {
							oerr = e
							return
						}
						g.Write(other)
						if oerr = g.Close(); oerr != nil {
							return
						}
						shared.Write([]byte("a digest the caller computes for itself"))
						shared.Sum(nil)
					}
					if _, oerr = f.Write(bd.data[half:]); oerr != nil {
						return
					}
					if oerr = f.Close(); oerr != nil {
						return
					}
					var g, g2 *cache.File
					if g, oerr = cache.Open(x.dir, hh(), rs, x.dsum); oerr != nil {
						return
					}
					if mode == 2 {
						// both entries are open before either is read.
						if g2, oerr = cache.Open(x.dir, hh(), rs2, x.dsum); oerr != nil {
							return
						}
					}
					if mode == 1 && len(bd.data) > 3 {
						// a consumer that looks at the first bytes, then copies the
						// rest: together exactly the body.
						head := make([]byte, 3)
						if _, oerr = io.ReadFull(g, head); oerr != nil {
							return
						}
						var rest bytes.Buffer
						_, oerr = io.Copy(&rest, g)
						got = append(head, rest.Bytes()...)
					} else {
						got, oerr = io.ReadAll(g)
					}
					g.Close()
					if mode == 2 && oerr == nil {
						got2, oerr = io.ReadAll(g2)
						g2.Close()
					}
				})
				os.Remove(filepath.Join(x.dir, entryName(rs, x.dsum)))
				os.Remove(filepath.Join(x.dir, entryName(rs2, x.dsum)))
				if pn {
					c.ViolateX("control:"+panicClass(site, val), enc, "no panic", fmt.Sprint(val), stack, nil)
					continue
				}
				if oerr != nil {
					c.Violate("control:finished-entry-not-readable", enc, "the entry opens and reads back", oerr.Error())
					continue
				}
				if !bytes.Equal(got, bd.data) || (mode == 2 && !bytes.Equal(got2, other)) {
					c.Violate("control:finished-entry-reads-other-bytes", enc, fmt.Sprintf("%d bytes as written", len(bd.data)), fmt.Sprintf("%d bytes", len(got)))
				}
			}
		}
	}
}

func (m c13) overlappingWriters(c *fw.Ctx, x *c13ctx) {
	r := c.SubRng("c13-overlap")
	for round := 0; round < 6; round++ {
		if !c.NextShared() {
			continue
		}
		na, nb := 1+r.Intn(40000), 1+r.Intn(40000)
		a, b := make([]byte, na), make([]byte, nb)
		for i := range a {
			a[i] = "acgtn"[r.Intn(5)]
		}
		for i := range b {
			b[i] = "RYKMSW\n"[r.Intn(7)]
		}
		ra, rb := sum(fmt.Sprintf("root-a-%d", round)), sum(fmt.Sprintf("root-b-%d", round))
		enc := fmt.Sprintf("two writers at once: %d bytes and %d bytes, writes interleaved in chunks of 1..5000", na, nb)
		c.Begin(enc)
		c.Count(enc, true)
		c.Bucket("writers:overlapping")
		cache.VerifPlan = func(string, int) string { return "" }
		cache.VerifReset()
		var err error
		pn, val, site, stack := fw.Guard(func() {
			var fa, fb *cache.File
			if fa, err = cache.CreateLevel(x.dir, sha1.New(), ra, x.dsum, 1); err != nil {
				return
			}
			if fb, err = cache.CreateLevel(x.dir, sha1.New(), rb, x.dsum, 1); err != nil {
				return
			}
			pa, pb := 0, 0
			for pa < na || pb < nb {
				if pa < na {
					n := 1 + r.Intn(5000)
					if pa+n > na {
						n = na - pa
					}
					if _, err = fa.Write(a[pa : pa+n]); err != nil {
						return
					}
					pa += n
				}
				if pb < nb {
					n := 1 + r.Intn(5000)
					if pb+n > nb {
						n = nb - pb
					}
					if _, err = fb.Write(b[pb : pb+n]); err != nil {
						return
					}
					pb += n
				}
			}
			if err = fa.Close(); err != nil {
				return
			}
			err = fb.Close()
		})
		if pn {
			c.ViolateX("overlapping-writers:"+panicClass(site, val), enc, "no panic", fmt.Sprint(val), stack, nil)
			continue
		}
		if err != nil {
			c.Violate("overlapping-writers:write-error", enc, "both entries written", err.Error())
			continue
		}
		for i, w := range []struct {
			rs   []byte
			body []byte
		}{{ra, a}, {rb, b}} {
			ok, data, oerr := x.open(w.rs, x.dsum)
			if !ok || oerr != nil || !bytes.Equal(data, w.body) {
				c.Violate("overlapping-writers:entry-does-not-read-back", enc, fmt.Sprintf("entry %d opens and reads back its %d bytes", i+1, len(w.body)), fmt.Sprintf("opened=%v err=%v, %d bytes (sha1 %s vs %s)", ok, oerr, len(data), sha(data), sha(w.body)))
				break
			}
		}
		os.Remove(filepath.Join(x.dir, entryName(ra, x.dsum)))
		os.Remove(filepath.Join(x.dir, entryName(rb, x.dsum)))
	}
}

// bigBody: one entry of several MiB (incompressible, so the stored body is as
// long): damage far into the body - beyond any window a digest might be
// limited to - is damage all the same.
func (m c13) bigBody(c *fw.Ctx, x *c13ctx) {
	r := c.SubRng("c13-big-body")
	data := make([]byte, 6<<20+4321)
	r.Read(data)
	bd := body{"6MiB-incompressible", data}
	os.Remove(x.path())
	cache.VerifPlan = func(string, int) string { return "" }
	cache.VerifReset()
	if crashed, err := x.writeEntry(bd.data, 1<<16); crashed || err != nil {
		c.Inconclusive(fmt.Sprintf("cannot write the 6 MiB entry: crashed=%v err=%v", crashed, err))
		return
	}
	F, err := os.ReadFile(x.path())
	if err != nil || len(F) < 6<<20 {
		c.Inconclusive(fmt.Sprintf("cannot read back the 6 MiB entry: %v (%d bytes)", err, len(F)))
		return
	}
	put := func(b []byte) { os.WriteFile(x.path(), b, 0644) }
	if c.NextShared() {
		c.Bucket("body:several-MiB")
		x.judge(bd, "none", "6 MiB body", false, false)
	}
	offs := []int{60, 60 + 1<<20, 60 + 4<<20 - 1, 60 + 4<<20, 60 + 4<<20 + 1, 60 + 5<<20, len(F) - 4097, len(F) - 2, len(F) - 1, 60 + 4<<20 + r.Intn(2<<20), 60 + 4<<20 + r.Intn(2<<20)}
	for _, off := range offs {
		for _, mk := range []int{1, 0xFF} {
			if !c.NextShared() {
				continue
			}
			g := append([]byte(nil), F...)
			g[off] ^= byte(mk)
			put(g)
			c.Bucket("flip:body")
			x.judge(bd, "flip", fmt.Sprintf("offset=%d xor=%#x of %d", off, mk, len(F)), true, true)
		}
	}
	for _, n := range []int{len(F) - 1, len(F) - 4096, 60 + 5<<20, 60 + 4<<20} {
		if !c.NextShared() {
			continue
		}
		put(F[:n])
		c.Bucket("truncate")
		x.judge(bd, "truncate", fmt.Sprintf("to=%d of %d", n, len(F)), true, true)
	}
	for _, t := range []int{1, 60} {
		if !c.NextShared() {
			continue
		}
		put(append(append([]byte(nil), F...), make([]byte, t)...))
		c.Bucket("extend")
		x.judge(bd, "extend", fmt.Sprintf("by=%d zero bytes after %d", t, len(F)), true, true)
	}
	os.Remove(x.path())
}

// cliCrashes kills the real CLI at every hook point of its own cache write
// path, then runs the identical command clean over the same cache directory.
func (m c13) cliCrashes(c *fw.Ctx) {
	bin := os.Getenv("GTS_BIN")
	if bin == "" {
		c.Inconclusive("GTS_BIN not set: CLI crash enumeration skipped")
		return
	}
	repo := os.Getenv("VERIF_REPO_DIR")
	if repo == "" {
		repo = "/repo"
	}
	input, err := os.ReadFile(filepath.Join(repo, "seqio", "testdata", "NC_001422.gb"))
	if err != nil {
		c.Inconclusive("corpus not readable: " + err.Error())
		return
	}
	env, err := cli.New(bin, filepath.Join(c.WorkDir, fmt.Sprintf("c13cli-%d", c.Shard)))
	if err != nil {
		c.Inconclusive(err.Error())
		return
	}
	defer os.RemoveAll(env.Root)
	cmds := [][]string{{"clear"}, {"reverse"}, {"complement", "-F", "fasta"}}
	if !c.Thorough() {
		cmds = cmds[:2]
	}
	to := 60 * time.Second
	for _, args := range cmds {
		ref := env.Run(append(append([]string{}, args...), "--no-cache"), input, nil, to)
		if ref.TimedOut || ref.Exit != 0 {
			c.Inconclusive(fmt.Sprintf("reference run of gts %v failed: exit %d %s", args, ref.Exit, ref.Stderr))
			return
		}
		// discover the points of a clean cached run.
		env.ResetCache()
		clean := env.Run(args, input, nil, to)
		if !bytes.Equal(clean.Stdout, ref.Stdout) || clean.Exit != ref.Exit {
			c.Violate("cli:cold-run-differs", fmt.Sprintf("gts %v", args), "same as --no-cache", "differs")
			return
		}
		type pt struct {
			point string
			hit   int
		}
		var pts []pt
		seen := map[pt]bool{}
		for _, ev := range env.ReadTrace() {
			if ev.Ev == "cache-point" || ev.Ev == "io-point" {
				p := pt{ev.Point, ev.Hit}
				if !seen[p] {
					seen[p] = true
					pts = append(pts, p)
				}
			}
		}
		if len(pts) == 0 {
			c.Inconclusive("no hook point was traced in a cached CLI run (hooks off?)")
			return
		}
		// quick: every non-body point + a sample of body writes; thorough: all.
		for i, p := range pts {
			if !c.NextShared() {
				continue
			}
			if !c.Thorough() && p.point == "body-write" && i%7 != 0 {
				continue
			}
			env.ResetCache()
			fault := fmt.Sprintf("GTS_VERIF_FAULT=%s:%d:kill", p.point, p.hit)
			enc := fmt.Sprintf("cli gts %v %s then clean rerun", args, fault)
			c.Begin(enc)
			c.Count(enc, true)
			kr := env.Run(args, input, []string{fault}, to)
			if !kr.Signaled {
				c.Inconclusive(fmt.Sprintf("gts %v was not killed at %s:%d (exit %d)", args, p.point, p.hit, kr.Exit))
				continue
			}
			c.Hook("cli-kill:" + p.point)
			env.TruncTrace()
			rr := env.Run(args, input, nil, to)
			c.Bucket("cli:crash-then-clean-run")
			if rr.TimedOut {
				c.Violate("cli:rerun-after-crash-hangs", enc, "terminates", "watchdog expired")
				continue
			}
			if !bytes.Equal(rr.Stdout, ref.Stdout) || rr.Exit != ref.Exit {
				served := "miss"
				for _, ev := range env.ReadTrace() {
					if ev.Ev == "hit" {
						served = "served from the entry the killed run left"
					}
				}
				c.Violate("cli:crashed-run-poisons-cache:"+p.point, enc, fmt.Sprintf("exit %d, %d bytes equal to --no-cache", ref.Exit, len(ref.Stdout)),
					fmt.Sprintf("exit %d, %d bytes (%s)", rr.Exit, len(rr.Stdout), served))
				continue
			}
			// and a third run (now possibly warm) as well.
			r3 := env.Run(args, input, nil, to)
			if !bytes.Equal(r3.Stdout, ref.Stdout) || r3.Exit != ref.Exit {
				c.Violate("cli:run-after-recovery-differs:"+p.point, enc, "same as --no-cache", fmt.Sprintf("exit %d, %d bytes", r3.Exit, len(r3.Stdout)))
			}
			// the same point with a signal the program could catch (SIGTERM,
			// SIGINT): however it goes down, the next identical run prints what it
			// prints without the cache.
			for _, sig := range []string{"term", "int"} {
				env.ResetCache()
				fault := fmt.Sprintf("GTS_VERIF_FAULT=%s:%d:%s", p.point, p.hit, sig)
				enc := fmt.Sprintf("cli gts %v %s then clean rerun", args, fault)
				sr := env.Run(args, input, []string{fault}, to)
				if sr.TimedOut {
					c.Skip("the run did not end after the signal")
					continue
				}
				c.Hook("cli-signal:" + sig)
				c.Bucket("cli:catchable-signal-then-clean-run")
				for pass := 1; pass <= 2; pass++ {
					rr := env.Run(args, input, nil, to)
					if rr.TimedOut || !bytes.Equal(rr.Stdout, ref.Stdout) || rr.Exit != ref.Exit {
						c.Violate("cli:interrupted-run-poisons-cache:"+p.point, enc, fmt.Sprintf("exit %d, %d bytes equal to --no-cache", ref.Exit, len(ref.Stdout)),
							fmt.Sprintf("run %d after the signal: exit %d, %d bytes", pass, rr.Exit, len(rr.Stdout)))
						break
					}
				}
			}
		}
		m.cliIOErrors(c, env, args, input, ref.Stdout, ref.Exit)
	}
	// the same with an output of many deflate blocks: the writes that fail
	// fall in the middle of the body, while the command is still printing.
	{
		big := bytes.Repeat(input, 48)
		args := []string{"clear"}
		ref := env.Run(append(append([]string{}, args...), "--no-cache"), big, nil, to)
		if ref.TimedOut || ref.Exit != 0 {
			c.Inconclusive(fmt.Sprintf("reference run of gts %v on the 48-record stream failed: exit %d", args, ref.Exit))
			return
		}
		c.Bucket("cli:io-error-in-the-middle-of-a-large-body")
		m.cliIOErrors(c, env, args, big, ref.Stdout, ref.Exit)
	}
	m.cliEntries(c, env, input)
}

// cliEntries looks at whole entries through the command line: an output of
// several MiB (many deflate blocks) is replayed byte for byte, and an entry
// written for one input is not what a different input given on stdin with the
// same arguments is answered with.
func (m c13) cliEntries(c *fw.Ctx, env *cli.Env, phix []byte) {
	to := 120 * time.Second
	// three FASTA records, 2.6 MB together, not compressible to nothing.
	var big bytes.Buffer
	r := c.SubRng("c13-big")
	for rec := 0; rec < 3; rec++ {
		fmt.Fprintf(&big, ">big%d\n", rec)
		for l := 0; l < 12000+rec*500; l++ {
			line := make([]byte, 70)
			for i := range line {
				line[i] = "acgtacgtnryk"[r.Intn(12)]
			}
			big.Write(line)
			big.WriteByte('\n')
		}
	}
	other := bytes.Replace(phix, []byte("gagttttatcgcttccatga"), []byte("gagttttatcgcttccatgc"), 1)
	if bytes.Equal(other, phix) {
		other = append(append([]byte{}, phix...), phix...)
	}
	type job struct {
		name   string
		args   []string
		inputs [][]byte // run in this order over one cache directory, the first one again at the end
		aux    [][]byte // content of the file the arguments name, step by step (nil: none)
	}
	auxPath := env.File("aux.fasta")
	os.MkdirAll(filepath.Dir(auxPath), 0755)
	auxA, auxB := []byte(">guest a\nacgtacgtacgtaaaa\n"), []byte(">guest b\nacgtacgtacgtaaac\n")
	// (small files that differ in their last residue, and files of several
	// blocks that differ at the very end only.)
	bigA := append([]byte(">guest big\n"), bytes.Repeat([]byte("acgtacgtacgtacgtacgtacgtacgtacgtacgtacgtacgtacgtacgtacgtacgt\n"), 200)...)
	bigB := append(append([]byte{}, bigA[:len(bigA)-2]...), 'a', '\n')
	jobs := []job{
		{"multi-MiB output", []string{"reverse"}, [][]byte{big.Bytes()}, nil},
		{"multi-MiB output", []string{"complement", "-F", "fasta"}, [][]byte{big.Bytes()}, nil},
		{"two inputs, same arguments", []string{"reverse"}, [][]byte{phix, other}, nil},
		{"two inputs, same arguments", []string{"clear"}, [][]byte{other, phix}, nil},
		{"two inputs, same arguments", []string{"reverse"}, [][]byte{phix, bytes.ReplaceAll(phix, []byte("\n"), []byte("\r\n"))}, nil},
		{"two files under one name, same arguments and input", []string{"insert", "10", auxPath}, [][]byte{phix, phix}, [][]byte{auxA, auxB}},
		{"two files under one name, same arguments and input", []string{"insert", "10", auxPath}, [][]byte{phix, phix}, [][]byte{bigA, bigB}},
		{"two files under one name, same arguments and input", []string{"search", auxPath}, [][]byte{phix, phix}, [][]byte{auxB, auxA}},
	}
	for _, j := range jobs {
		if !c.NextShared() {
			continue
		}
		enc := fmt.Sprintf("cli gts %v: %s (%d inputs over one cache directory, then the first again)", j.args, j.name, len(j.inputs))
		c.Begin(enc)
		c.Count(enc, true)
		env.ResetCache()
		seq := append(append([][]byte{}, j.inputs...), j.inputs...)
		hits := 0
		for step, in := range seq {
			if j.aux != nil {
				os.WriteFile(auxPath, j.aux[step%len(j.aux)], 0644)
			}
			ref := env.Run(append(append([]string{}, j.args...), "--no-cache"), in, nil, to)
			if ref.TimedOut || ref.Exit != 0 {
				c.Inconclusive(fmt.Sprintf("reference run of gts %v failed: exit %d %s", j.args, ref.Exit, clipS(string(ref.Stderr), 300)))
				return
			}
			env.TruncTrace()
			got := env.Run(j.args, in, nil, to)
			for _, ev := range env.ReadTrace() {
				if ev.Ev == "hit" {
					hits++
				}
			}
			if got.TimedOut || got.Exit != ref.Exit || !bytes.Equal(got.Stdout, ref.Stdout) {
				c.Violate("cli:entry-replayed-differs:"+strings.ReplaceAll(j.name, " ", "-"), enc, fmt.Sprintf("step %d: exit %d, %d bytes (sha1 %s) as with --no-cache", step+1, ref.Exit, len(ref.Stdout), sha(ref.Stdout)),
					fmt.Sprintf("exit %d, %d bytes (sha1 %s)", got.Exit, len(got.Stdout), sha(got.Stdout)))
				break
			}
		}
		if hits == 0 {
			c.Inconclusive("no cache hit was traced in: " + enc)
		}
		c.Bucket("cli:" + strings.ReplaceAll(j.name, " ", "-"))
	}
}

// cliIOErrors injects a real I/O error (ENOSPC, EIO) into the N-th write(2) on
// the cache entry with strace, for every N the run performs; the faulted run
// itself must either fail or print the reference output, and the identical
// clean rerun over the same cache directory must equal the reference.
func (m c13) cliIOErrors(c *fw.Ctx, env *cli.Env, args []string, input, refOut []byte, refExit int) {
	if _, err := os.Stat("/usr/bin/strace"); err != nil {
		c.Note("strace not available: I/O error injection skipped")
		return
	}
	to := 90 * time.Second
	// the entry name of this (command, input): from a clean run.
	env.ResetCache()
	env.Run(args, input, nil, to)
	ents, _ := os.ReadDir(env.CacheDir())
	if len(ents) != 1 {
		c.Note(fmt.Sprintf("cannot identify the cache entry of gts %v (%d files)", args, len(ents)))
		return
	}
	entry := filepath.Join(env.CacheDir(), ents[0].Name())
	maxN := c.Pick(6, 40)
	for _, errno := range []string{"ENOSPC", "EIO"} {
		for n := 1; n <= maxN; n++ {
			if !c.NextShared() {
				continue
			}
			env.ResetCache()
			os.MkdirAll(env.CacheDir(), 0755)
			enc := fmt.Sprintf("cli gts %v with %s injected into write #%d on the cache entry, then clean rerun", args, errno, n)
			c.Begin(enc)
			tr := filepath.Join(env.Root, "strace.txt")
			os.Remove(tr)
			// run gts under strace through the cli driver's environment.
			sargs := append([]string{"-f", "-o", tr, "-e", "trace=write", "-e", fmt.Sprintf("inject=write:error=%s:when=%d", errno, n), "-P", entry, env.Bin}, args...)
			senv := &cli.Env{Bin: "/usr/bin/strace", Root: env.Root}
			fr := senv.Run(sargs, input, nil, to)
			tb, _ := os.ReadFile(tr)
			if !bytes.Contains(tb, []byte("(INJECTED)")) {
				// (no break: every shard must draw the same number of shared
				// sequence numbers, whichever cases it owns.)
				c.Skip("fewer writes on the cache entry than the injection index")
				c.Count(enc, false)
				continue
			}
			c.Count(enc, true)
			c.Hook("io-error-injected:" + errno)
			c.Bucket("cli:io-error-then-clean-run")
			if fr.Exit == 0 && !bytes.Equal(fr.Stdout, refOut) {
				c.Violate("cli:io-error-run-exits-0-with-wrong-output", enc, fmt.Sprintf("%d bytes or a failure", len(refOut)), fmt.Sprintf("exit 0, %d bytes", len(fr.Stdout)))
				continue
			}
			rr := env.Run(args, input, nil, to)
			if !bytes.Equal(rr.Stdout, refOut) || rr.Exit != refExit {
				c.Violate("cli:io-error-poisons-cache:"+errno, enc, fmt.Sprintf("exit %d, %d bytes equal to --no-cache", refExit, len(refOut)), fmt.Sprintf("exit %d, %d bytes", rr.Exit, len(rr.Stdout)))
			}
		}
	}
}
