package mon

import (
	"bytes"
	"fmt"
	"math/rand"
	"reflect"
	"regexp"
	"strings"

	"github.com/go-gts/gts"

	"verifharness/fw"
	"verifharness/gen"
	"verifharness/model"
)

type c08 struct{ base }

func init() { register(c08{}) }

func (c08) ID() string { return "C08" }
func (c08) Rule() string {
	return "regions of 1..5 segments (lengths 1..6, gaps>=1, forward, complemented, and mixed-strand lists) taken from Location.Region() on a 40..60-residue sequence (unique complement-invariant ids, and random IUPAC letters so the complement is visible) x all five modifier forms x offsets in [-len-3,len+3]: exhaustive for 1..3 segments on a fixed layout, seeded for 1..5. Oracle (spliced-coordinate model M3): Resize(m).Locate(seq).Bytes() == window [lo,hi) of the outward-extended spliced sequence; zero-length results compared by Head() (either side accepted at a junction); windows leaving the sequence are skipped; AsModifier(m.String())==m. Locators assembled from known parts (modifier | point | range | complement(range) | selector by key and /label regexp, each optionally @modifier, and bare @modifier): the regions returned, compared through extraction in table order, must be the model's. non-trivial: >=2 segments or a non-zero offset; distinct: canonical case text. CLI layer: gts extract [-v] <locator> (one or two locators, with modifiers) of the real binary (--no-cache) on generated records and streams: one record per distinct located region with the residues the spliced-coordinate model gives. Selectors whose regular expression holds = (/function=aa=Sec, =v, k=v=w) on tables whose values hold = themselves. Regions whose last part turns around at the coordinate where the previous one ends (opposite strands meeting in one coordinate); a full-length record emitted by gts extract must be the extraction of the located region. Locators M1@M2 (a bare modifier resized again). Locators complement(point) and complement(complement(range)); feature keys 5'UTR / 3'UTR in tables and selectors. Every locator is first applied to a longer sequence with the same table, then to the judged one."
}
func (c08) RequiredBuckets(tier string) []string {
	out := []string{"segments:1", "segments:2", "segments:3", "segments:4", "segments:5", "strand:fwd", "strand:rev", "strand:mixed",
		"mod:^", "mod:$", "mod:^$", "mod:^^", "mod:$$", "window:inside", "window:extends-5'", "window:extends-3'", "window:zero-length", "window:crosses-junction",
		"modifier-roundtrip", "locator:modifier", "locator:point", "locator:range", "locator:complement", "locator:selector", "locator:selector@mod", "locator:@mod", "locator:no-match", "locator:table-not-sorted", "locator:selector-regexp-holds-an-equals-sign", "locator:modifier@mod", "locator:complement-of-a-point-or-of-a-complement", "region:strand-turns-at-a-shared-coordinate"}
	out = append(out, "cmd:extract", "cmd:extract -v", "extract:two-locators", "stream:records-independent", "cache-on:after-sibling")
	return out
}
func (c08) Findings() []fw.Finding { return nil }

func mkMod(kind string, p, q int) gts.Modifier {
	switch kind {
	case "^":
		return gts.Head(p)
	case "$":
		return gts.Tail(p)
	case "^$":
		return gts.HeadTail{p, q}
	case "^^":
		return gts.HeadHead{p, q}
	default:
		return gts.TailTail{p, q}
	}
}

var modKinds = []string{"^", "$", "^$", "^^", "$$"}

// judgeRegion compares one resized region with the model window.
func judgeRegion(c *fw.Ctx, enc string, seq gts.Sequence, seqB []byte, ss []model.DSeg, res gts.Region, lo, hi int, cls string) bool {
	if lo == hi {
		acc := model.SplicedGap(ss, lo)
		for _, a := range acc {
			if a < 0 || a > len(seqB) {
				c.Skip("zero-length window outside the sequence")
				return true
			}
		}
		c.Bucket("window:zero-length")
		var head, ln int
		p, val, site, stack := fw.Guard(func() { head, ln = res.Head(), res.Len() })
		if p {
			c.ViolateX(cls+":"+panicClass(site, val), enc, "no panic", fmt.Sprint(val), stack, nil)
			return false
		}
		if ln != 0 {
			c.Violate(cls+":zero-length-window-not-empty", enc, fmt.Sprintf("empty at %v", acc), fmt.Sprintf("len=%d head=%d", ln, head))
			return false
		}
		for _, a := range acc {
			if a == head {
				return true
			}
		}
		c.Violate(cls+":zero-length-position", enc, fmt.Sprintf("head in %v", acc), fmt.Sprint(head))
		return false
	}
	want, ok := model.SplicedWindow(seqB, ss, lo, hi, model.ComplementByte)
	if !ok {
		c.Skip("window leaves the sequence")
		return true
	}
	n := model.SplicedLen(ss)
	switch {
	case lo < 0:
		c.Bucket("window:extends-5'")
	case hi > n:
		c.Bucket("window:extends-3'")
	default:
		c.Bucket("window:inside")
	}
	if len(ss) > 1 && lo < ss[0].Len() && hi > ss[0].Len() {
		c.Bucket("window:crosses-junction")
	}
	var got []byte
	p, val, site, stack := fw.Guard(func() { got = res.Locate(seq).Bytes() })
	if p {
		c.ViolateX(cls+":"+panicClass(site, val), enc, "no panic", fmt.Sprint(val), stack, nil)
		return false
	}
	if !bytes.Equal(normU(got), normU(want)) {
		c.Violate(cls+":extraction", enc, fmt.Sprintf("%q (spliced [%d,%d) of %v)", want, lo, hi, ss), fmt.Sprintf("%q", got))
		return false
	}
	return true
}

func (m c08) checkResize(c *fw.Ctx, loc gts.Location, reg gts.Region, seqB []byte, kind string, p, q int) {
	mod := mkMod(kind, p, q)
	enc := fmt.Sprintf("Resize loc=%s mod=%s seq=%q", model.SafeString(loc), mod.String(), seqB)
	c.Begin(enc)
	ss := model.RegionOf(loc)
	n := model.SplicedLen(ss)
	c.Count(enc, len(ss) >= 2 || p != 0 || q != 0)
	if len(ss) <= 5 {
		c.Bucket(fmt.Sprintf("segments:%d", len(ss)))
	}
	c.Bucket("strand:" + strandOf(model.Parts(loc)))
	c.Bucket("mod:" + kind)
	seq := gts.New(nil, nil, append([]byte(nil), seqB...))
	var res gts.Region
	// reg is shared by all the modifiers applied to this location: resizing
	// must not change the region it is applied to.
	pn, val, site, stack := fw.Guard(func() { res = reg.Resize(mod) })
	if pn {
		c.ViolateX("Resize:"+panicClass(site, val), enc, "no panic", fmt.Sprint(val), stack, nil)
		return
	}
	c.Hold(enc, func() string { return fmt.Sprintf("%v head=%d tail=%d len=%d", res, res.Head(), res.Tail(), res.Len()) })
	lo, hi := model.ModWindow(kind, p, q, n)
	judgeRegion(c, enc, seq, seqB, ss, res, lo, hi, "Resize")
}

func (m c08) checkModRoundTrip(c *fw.Ctx, kind string, p, q int) {
	mod := mkMod(kind, p, q)
	s := mod.String()
	enc := "Modifier " + s
	c.Begin(enc)
	c.Count(enc, p != 0 || q != 0)
	c.Bucket("modifier-roundtrip")
	var back gts.Modifier
	var err error
	pn, val, site, stack := fw.Guard(func() { back, err = gts.AsModifier(s) })
	if pn {
		c.ViolateX("Modifier:"+panicClass(site, val), enc, "no panic", fmt.Sprint(val), stack, nil)
		return
	}
	if err != nil {
		c.Violate("Modifier:print-not-accepted", enc, "accepted", err.Error())
		return
	}
	if !reflect.DeepEqual(back, mod) {
		c.Violate("Modifier:roundtrip", enc, fmt.Sprintf("%#v", mod), fmt.Sprintf("%#v", back))
	}
}

type locatorCase struct {
	str    string
	bucket string
	// expected regions as directed segments each, plus the window on them.
	exp []struct {
		ss     []model.DSeg
		lo, hi int
	}
}

func (m c08) checkLocator(c *fw.Ctx, r *rand.Rand, tab []gts.Feature, seqB []byte) {
	L := len(seqB)
	ht := []gts.Feature(gen.SortedTable(gen.CloneTable(tab)))
	if r.Intn(2) == 0 && len(ht) > 1 {
		// a table that is not in sorted order (records are read in file order,
		// tables are assembled by hand): "table order" is the order given.
		r.Shuffle(len(ht), func(i, j int) { ht[i], ht[j] = ht[j], ht[i] })
		c.Bucket("locator:table-not-sorted")
	}
	// some tables carry a qualifier whose values hold '=' themselves
	// (/transl_except=(pos:..,aa:Sec) style "name=value" texts): a selector's
	// regular expression is everything behind the first '='.
	eqVals := []string{"aa=Sec", "aa", "aa=Pyl", "k=v=w"}
	eqOf := map[string]string{}
	if r.Intn(4) == 0 {
		for i := range ht {
			v := eqVals[r.Intn(len(eqVals))]
			ht[i].Props = append(gts.Props{}, ht[i].Props...)
			ht[i].Props.Add("function", v)
			eqOf[gen.Label(ht[i])] = v
		}
	}
	host := gts.New(nil, ht, append([]byte(nil), seqB...))
	table := host.Features()
	// X part.
	type xr struct {
		ss []model.DSeg
	}
	var xs []xr
	var xstr, bucket string
	withMod := r.Intn(2) == 0
	kind := modKinds[r.Intn(len(modKinds))]
	switch r.Intn(7) {
	case 6: // a bare modifier as X of X@M: the whole sequence resized, resized again
		k1 := []string{"^$", "^^", "$$"}[r.Intn(3)]
		a, b := r.Intn(7), r.Intn(7)
		var m1 gts.Modifier
		switch k1 {
		case "^$":
			m1 = mkMod(k1, a, -b)
		case "^^":
			m1 = mkMod(k1, a, a+2+b)
		default:
			m1 = mkMod(k1, -a-2-b, -a)
		}
		lo, hi := 0, 0
		switch k1 {
		case "^$":
			lo, hi = a, L-b
		case "^^":
			lo, hi = a, a+2+b
		default:
			lo, hi = L-a-2-b, L-a
		}
		xs = []xr{{[]model.DSeg{{lo, hi}}}}
		xstr, bucket = m1.String(), "locator:modifier@mod"
		withMod = true
	case 0: // bare modifier (whole sequence)
		xs = []xr{{[]model.DSeg{{0, L}}}}
		xstr, bucket = "", "locator:modifier"
		withMod = true
	case 1:
		p := r.Intn(L)
		xs = []xr{{[]model.DSeg{{p, p + 1}}}}
		xstr, bucket = fmt.Sprint(p+1), "locator:point"
	case 2:
		a := r.Intn(L - 1)
		b := a + 1 + r.Intn(L-a-1)
		xs = []xr{{[]model.DSeg{{a, b}}}}
		xstr, bucket = fmt.Sprintf("%d..%d", a+1, b), "locator:range"
	case 3:
		a := r.Intn(L - 1)
		b := a + 1 + r.Intn(L-a-1)
		xs = []xr{{[]model.DSeg{{b, a}}}}
		xstr, bucket = fmt.Sprintf("complement(%d..%d)", a+1, b), "locator:complement"
		switch r.Intn(4) {
		case 0: // one residue on the other strand
			xs = []xr{{[]model.DSeg{{a + 1, a}}}}
			xstr = fmt.Sprintf("complement(%d)", a+1)
			c.Bucket("locator:complement-of-a-point-or-of-a-complement")
		case 1: // the complement of a complement: the forward range again
			xs = []xr{{[]model.DSeg{{a, b}}}}
			xstr = fmt.Sprintf("complement(complement(%d..%d))", a+1, b)
			c.Bucket("locator:complement-of-a-point-or-of-a-complement")
		}
	case 4: // all features
		for _, f := range table {
			xs = append(xs, xr{model.RegionOf(f.Loc)})
		}
		xstr, bucket = "", "locator:@mod"
		withMod = true
	default: // selector
		var key, clause string
		var re *regexp.Regexp
		if len(table) > 0 && r.Intn(4) != 0 {
			key = table[r.Intn(len(table))].Key
		}
		switch r.Intn(3) {
		case 0:
			pat := fmt.Sprintf("^h%d$", r.Intn(len(table)+1))
			clause, re = "/label="+pat, regexp.MustCompile(pat)
		case 1:
			pat := fmt.Sprintf("h[%d-%d]$", r.Intn(3), 3+r.Intn(5))
			clause, re = "/label="+pat, regexp.MustCompile(pat)
		}
		eqPat := ""
		if len(eqOf) > 0 {
			eqPat = []string{"aa=Sec", "aa=", "=v", "^aa$", "k=v=w"}[r.Intn(5)]
			clause, re = "/function="+eqPat, nil
			c.Bucket("locator:selector-regexp-holds-an-equals-sign")
		}
		if key == "" && clause == "" {
			key = "gene"
		}
		for _, f := range table {
			if key != "" && f.Key != key {
				continue
			}
			if re != nil && !re.MatchString(gen.Label(f)) {
				continue
			}
			if eqPat != "" && !regexp.MustCompile(eqPat).MatchString(eqOf[gen.Label(f)]) {
				continue
			}
			xs = append(xs, xr{model.RegionOf(f.Loc)})
		}
		xstr, bucket = key+clause, "locator:selector"
		if withMod {
			bucket = "locator:selector@mod"
		}
		if len(xs) == 0 {
			c.Bucket("locator:no-match")
		}
	}
	p, q := 0, 0
	str := xstr
	if withMod {
		maxLen := 6
		p, q = r.Intn(2*maxLen+1)-maxLen, r.Intn(2*maxLen+1)-maxLen
		mod := mkMod(kind, p, q)
		if bucket == "locator:modifier" {
			str = mod.String()
		} else {
			str = xstr + "@" + mod.String()
		}
	}
	enc := fmt.Sprintf("Locator %q seq=%q F=[", str, seqB)
	for _, f := range table {
		enc += fmt.Sprintf("%s %s %s;", f.Key, gen.Label(f), model.SafeString(f.Loc))
	}
	enc += "]"
	c.Begin(enc)
	c.Count(enc, true)
	c.Bucket(bucket)
	var rr gts.Regions
	var err error
	pn, val, site, stack := fw.Guard(func() {
		var locate gts.Locator
		locate, err = gts.AsLocator(str)
		if err == nil {
			// a Locator is a reusable function: what it returns for a sequence
			// must not depend on earlier invocations (the CLI applies one locator
			// to every record of a stream). The second result is the one judged.
			// (the earlier invocation is on a longer sequence with the same table:
			// positions counted from the 3' end differ between the two.)
			locate(gts.New(nil, ht, append(append([]byte(nil), seqB...), "nnnnnnnnn"...)))
			rr = locate(host)
		}
	})
	if pn {
		c.ViolateX("Locator:"+panicClass(site, val), enc, "no panic", fmt.Sprint(val), stack, nil)
		return
	}
	if err != nil {
		c.Violate("Locator:not-accepted:"+strings.TrimPrefix(bucket, "locator:"), enc, "accepted", err.Error())
		return
	}
	if len(rr) != len(xs) {
		c.Violate("Locator:region-count:"+strings.TrimPrefix(bucket, "locator:"), enc, fmt.Sprint(len(xs)), fmt.Sprint(len(rr)))
		return
	}
	for j, x := range xs {
		n := model.SplicedLen(x.ss)
		lo, hi := 0, n
		if withMod {
			lo, hi = model.ModWindow(kind, p, q, n)
		}
		if lo == hi && !withMod {
			continue // a site-only feature without modifier: nothing to extract
		}
		if !judgeRegion(c, enc, host, seqB, x.ss, rr[j], lo, hi, "Locator:"+strings.TrimPrefix(bucket, "locator:")) {
			return
		}
	}
}

func randSeqBytes(r *rand.Rand, L int, alpha string) []byte {
	if alpha == "unique-ids" {
		return gen.UniqueBytes(0, L)
	}
	const letters = "ACGTacgtRYKMSWBDHVN"
	b := make([]byte, L)
	for i := range b {
		b[i] = letters[r.Intn(len(letters))]
	}
	return b
}

func (m c08) Run(c *fw.Ctx) {
	// modifier print/parse round trip: all forms x offsets.
	for _, kind := range modKinds {
		for p := -12; p <= 12; p++ {
			for q := -12; q <= 12; q++ {
				if (kind == "^" || kind == "$") && q != 0 {
					continue
				}
				if !c.NextShared() {
					continue
				}
				m.checkModRoundTrip(c, kind, p, q)
			}
		}
	}
	c.Exhaustive("AsModifier(m.String()) for all five forms x offsets in [-12,12]^2")
	// systematic layouts: 1..3 segments at fixed places of a 40-residue sequence.
	seqU := gen.UniqueBytes(0, 40)
	sr := c.SubRng("acgt")
	seqA := randSeqBytes(sr, 40, "acgt")
	layouts := [][]gts.Location{
		{gts.Range(10, 14)},
		{gts.Point(12)},
		{gts.Range(10, 13), gts.Range(16, 18)},
		{gts.Range(10, 12), gts.Point(15)},
		{gts.Range(10, 13), gts.Range(15, 17), gts.Range(20, 24)},
		{gts.Range(10, 11), gts.Range(14, 18), gts.Point(21)},
		{gts.Range(9, 15), gts.Range(17, 18), gts.Range(20, 22)},
		// parts on opposite strands that meet in one coordinate (the reading
		// turns around there): nothing is merged.
		{gts.Range(6, 12).Complement(), gts.Range(6, 15)},
		{gts.Range(10, 18), gts.Range(14, 18).Complement()},
		{gts.Range(8, 11), gts.Range(14, 20).Complement(), gts.Range(14, 17)},
	}
	for _, parts := range layouts {
		base := gts.Join(parts...)
		variants := []gts.Location{base, base.Complement()}
		if len(parts) >= 2 {
			mixed := append([]gts.Location{}, parts...)
			mixed[1] = mixed[1].Complement()
			variants = append(variants, gts.Join(mixed...))
		}
		for _, loc := range variants {
			n := loc.Len()
			reg := loc.Region()
			for _, kind := range modKinds {
				for p := -n - 3; p <= n+3; p++ {
					for q := -n - 3; q <= n+3; q++ {
						if (kind == "^" || kind == "$") && q != -n-3 {
							continue
						}
						if !c.NextShared() {
							continue
						}
						sb := seqU
						if (p+q)&1 == 1 {
							sb = seqA
						}
						m.checkResize(c, loc, reg, sb, kind, p, q)
					}
				}
			}
		}
	}
	c.Exhaustive("Resize on 7 fixed layouts of 1..3 segments x {fwd,complement,mixed} x 5 modifier forms x offsets in [-len-3,len+3]")
	r := c.Rng
	N := c.Pick(30000, 400000)
	for it := 0; it < N; it++ {
		c.NextOwn()
		L := 40 + r.Intn(21)
		nseg := 1 + it%5
		var parts []gts.Location
		lo := 6 + r.Intn(4)
		for k := 0; k < nseg; k++ {
			ln := 1 + r.Intn(6)
			if lo+ln > L-6 {
				break
			}
			var l gts.Location
			if ln == 1 && r.Intn(2) == 0 {
				l = gts.Point(lo)
			} else {
				l = gts.Range(lo, lo+ln)
			}
			if r.Intn(6) == 0 {
				l = l.Complement()
			}
			parts = append(parts, l)
			lo += ln + 1 + r.Intn(3)
		}
		if r.Intn(8) == 0 && len(parts) > 0 {
			// a last part that turns around where the one before it ends.
			if pp := model.Parts(parts[len(parts)-1]); len(pp) == 1 && pp[0].Hi-pp[0].Lo >= 2 {
				a, b := pp[0].Lo, pp[0].Hi
				var turn gts.Location = gts.Range(a+r.Intn(b-a-1), b)
				if pp[0].Rev {
					turn = gts.Range(a, a+1+r.Intn(b-a-1))
				} else {
					turn = turn.Complement()
				}
				parts = append(parts, turn)
				c.Bucket("region:strand-turns-at-a-shared-coordinate")
			}
		}
		var loc gts.Location = gts.Join(parts...)
		if r.Intn(2) == 0 {
			loc = loc.Complement()
		}
		n := loc.Len()
		kind := modKinds[r.Intn(len(modKinds))]
		p := r.Intn(2*(n+3)+1) - (n + 3)
		q := r.Intn(2*(n+3)+1) - (n + 3)
		alpha := "unique-ids"
		if r.Intn(2) == 0 {
			alpha = "acgt"
		}
		seqB := randSeqBytes(r, L, alpha)
		o := gen.LocOpt{L: L - 12, MaxParts: 4, MaxDepth: 2, Sites: true}
		tab := gen.RandTable(r, r.Intn(7), o, "h", 10)
		for i := range tab {
			tab[i].Loc = tab[i].Loc.Shift(0, 6) // keep a margin for offsets
		}
		lseed := r.Int63()
		if c.Replaying() && c.Seq() != c.ReplaySeq {
			continue
		}
		lr := rand.New(rand.NewSource(lseed))
		reg := loc.Region()
		m.checkResize(c, loc, reg, seqB, kind, p, q)
		for extra := 0; extra < 2; extra++ {
			// further modifiers on the same region value.
			k2 := modKinds[lr.Intn(len(modKinds))]
			m.checkResize(c, loc, reg, seqB, k2, lr.Intn(2*(n+3)+1)-(n+3), lr.Intn(2*(n+3)+1)-(n+3))
		}
		m.checkLocator(c, lr, tab, seqB)
	}
	// `gts extract <locator>` on the real binary.
	c15Drive(c, []c15cmd{{"extract", nil}, {"extract", []string{"-v"}}, {"extract", nil}}, c.Pick(90, 3000))
}
