package mon

import (
	"bytes"
	"fmt"
	"reflect"

	"github.com/go-gts/gts"

	"verifharness/fw"
	"verifharness/gen"
	"verifharness/model"
)

type c05 struct{ base }

func init() { register(c05{}) }

func (c05) ID() string { return "C05" }
func (c05) Rule() string {
	return "location level: every location of gen.Universe(L<=6, arity<=3) plus seeded joins/orders of every arity 1..6 (nested under complement, all partial combinations, L<=40): loc.Reverse(L) must denote the mirror image (residue x->L-1-x, site g->L-g, parts in mirrored order, open ends swapped, nothing lost), Reverse.Reverse and Complement.Complement are identities (denotation and print). sequence level: gts.Reverse / gts.Complement on BasicSequence tables (bytes reversed / IUPAC-complemented by an independent table; every feature present once with mirrored / complemented location), Reverse and Complement involutions on residues, and extraction symmetry: for every feature Region().Locate on Reverse(Complement(rec)) yields the same bytes as on rec, and both equal the model extraction (residues at the base atoms in reading order, complemented on the reverse strand). non-trivial: the location has >=2 parts or a partial end or a site; distinct: canonical case text. A fifth of the sequences hold residue bytes from 0x80 up (left alone by Complement, never lengthened). gts reverse / gts complement also on one-residue records with a feature open at one end."
}
func (c05) RequiredBuckets(tier string) []string {
	out := []string{"arity:1", "arity:2", "arity:3", "arity:4", "arity:5", "arity:6", "arity-parity:odd", "arity-parity:even",
		"seq:reverse", "seq:complement", "seq:extract-symmetry", "loc:reverse-involution", "loc:complement-involution", "alphabet:acgt", "alphabet:unique-ids", "alphabet:bytes-beyond-ascii"}
	for _, k := range []string{"point", "site", "range", "prange", "ambiguous", "join", "order", "c-range", "c-join", "c-order"} {
		out = append(out, "kind|"+k)
	}
	return append(out, "cli:reverse", "cli:complement", "cli:reverse cache-on", "cli:complement cache-on", "cli:complement CONTIG-only record", "cli:one-residue record with an open end")
}
func (c05) Findings() []fw.Finding {
	return []fw.Finding{
		{ID: "join-drops-point-after-range", What: "join reduction drops a single base that directly follows a range", Witness: witnessJoinDropsPoint},
		{ID: "between-reverse-off-by-one", What: "Between(g).Reverse(L) returns the site L-1-g instead of L-g", Witness: func() (bool, string) {
			got := gts.Between(0).Reverse(10).String()
			return got != "10^11", "Between(0).Reverse(10) = " + got + ", want 10^11"
		}},
	}
}

func topArity(loc gts.Location) int {
	switch v := loc.(type) {
	case gts.Joined:
		return len(v)
	case gts.Ordered:
		return len(v)
	case gts.Complemented:
		return topArity(v.Location)
	}
	return 1
}

// compareMirror judges obs against the mirror image of before, attributing
// the listed deviations.
func compareMirror(c *fw.Ctx, before []model.Part, obs []model.Part, L int) (int, string, string, []model.XPart) {
	exp := model.ImageReverse(before, L, false)
	opt := model.CmpOpt{MaxCoord: -1, AllowDropPoint: c.KFEnabled("join-drops-point-after-range")}
	v, why, id := model.CompareImage(exp, obs, opt)
	if v != model.VBad {
		return v, why, id, exp
	}
	if c.KFEnabled("between-reverse-off-by-one") {
		hasSite := false
		for _, p := range before {
			if p.Kind == model.KSite {
				hasSite = true
			}
		}
		if hasSite {
			exp2 := model.ImageReverse(before, L, true)
			v2, _, _ := model.CompareImage(exp2, obs, opt)
			if v2 != model.VBad {
				return model.VKnown, why, "between-reverse-off-by-one", exp
			}
			// the shifted site may have been absorbed by (or have un-absorbed from)
			// a neighbouring part: residues and markers must still agree.
			opt2 := opt
			opt2.IgnoreSites = true
			if v3, _, _ := model.CompareImage(exp2, obs, opt2); v3 != model.VBad {
				ok := true
				acc := map[int]bool{}
				for _, x := range exp2 {
					if x.Kind == model.KSite {
						acc[x.Lo] = true
					}
				}
				for _, p := range obs {
					if p.Kind == model.KSite && !acc[p.Lo] {
						ok = false
					}
				}
				if ok {
					return model.VKnown, why, "between-reverse-off-by-one", exp
				}
			}
		}
	}
	return model.VBad, why, "", exp
}

func (m c05) checkLoc(c *fw.Ctx, loc gts.Location, L int) {
	enc := fmt.Sprintf("Location.Reverse loc=%s L=%d", model.SafeString(loc), L)
	c.Begin(enc)
	before := model.Parts(loc)
	ar := topArity(loc)
	nontrivial := len(before) >= 2 || len(model.Markers(before)) > 0 || len(model.Sites(model.Atoms(before))) > 0
	c.Count(enc, nontrivial)
	c.Bucket("kind|" + locKind(loc))
	if ar <= 6 {
		c.Bucket(fmt.Sprintf("arity:%d", ar))
	}
	if ar%2 == 1 {
		c.Bucket("arity-parity:odd")
	} else {
		c.Bucket("arity-parity:even")
	}
	var rv, rr gts.Location
	var obs []model.Part
	var rvs string
	p, val, site, stack := fw.Guard(func() {
		rv = loc.Reverse(L)
		obs = model.Parts(rv)
		rvs = rv.String()
	})
	if p {
		c.ViolateX("Location.Reverse:"+panicClass(site, val)+":"+locKind(loc), enc, "no panic", fmt.Sprint(val), stack, nil)
		return
	}
	_ = rvs
	v, why, id, exp := compareMirror(c, before, obs, L)
	switch v {
	case model.VKnown:
		c.Known(id, enc)
	case model.VBad:
		c.Violate("Location.Reverse:"+why+":"+locKind(loc), enc, model.XPartsString(exp), fmt.Sprintf("%s = %s", model.SafeString(rv), model.PartsString(obs)))
		return
	}
	// involution.
	c.Bucket("loc:reverse-involution")
	var obs2 []model.Part
	p, val, site, stack = fw.Guard(func() {
		rr = rv.Reverse(L)
		obs2 = model.Parts(rr)
	})
	if p {
		c.ViolateX("Location.Reverse.Reverse:"+panicClass(site, val), enc, "no panic", fmt.Sprint(val), stack, nil)
		return
	}
	opt := model.CmpOpt{MaxCoord: -1, AllowDropPoint: c.KFEnabled("join-drops-point-after-range")}
	known := v == model.VKnown
	hasSite := len(model.Sites(model.Atoms(before))) > 0
	if known || (hasSite && c.KFEnabled("between-reverse-off-by-one")) {
		opt.IgnoreSites = true // absorbed/shifted sites need not come back
	}
	v2, why2, id2 := model.CompareImage(model.ImageIdentity(before), obs2, opt)
	if v2 == model.VKnown {
		c.Known(id2, enc)
	} else if v2 == model.VBad && !known {
		c.Violate("Location.Reverse.Reverse:"+why2+":"+locKind(loc), enc, model.SafeString(loc), model.SafeString(rr))
		return
	} else if v2 == model.VOK && !known && !opt.IgnoreSites {
		if model.SafeString(rr) != model.SafeString(loc) {
			// printing may differ only by a legitimate reduction of the input
			// (e.g. join(1,1)); require equal print when the input is reduced.
			if reflect.DeepEqual(gen.CloneLoc(loc), loc) && isReduced(before) && !hasComplementRun(loc) {
				c.Violate("Location.Reverse.Reverse:print:"+locKind(loc), enc, model.SafeString(loc), model.SafeString(rr))
				return
			}
		}
	}
	c.Bucket("loc:complement-involution")
	cc := loc.Complement().Complement()
	if !reflect.DeepEqual(cc, loc) {
		c.Violate("Location.Complement.Complement", enc, model.SafeString(loc), model.SafeString(cc))
	}
	cp := model.Parts(loc.Complement())
	// complement: reading order reversed, strands flipped.
	want := make([]model.Part, 0, len(before))
	for k := len(before) - 1; k >= 0; k-- {
		q := before[k]
		q.Rev = !q.Rev
		want = append(want, q)
	}
	if !model.EqualAtoms(model.Atoms(want), model.Atoms(cp)) {
		c.Violate("Location.Complement:denotation", enc, model.PartsString(want), model.PartsString(cp))
	}
}

// isReduced: sorted, non-overlapping, non-abutting parts on one strand (no
// reduction can fire on the mirror image).
func isReduced(pp []model.Part) bool {
	for i := 1; i < len(pp); i++ {
		a, b := pp[i-1], pp[i]
		if a.Rev != b.Rev {
			return false
		}
		lo, hi := a, b
		if a.Rev {
			lo, hi = b, a
		}
		if lo.Hi >= hi.Lo {
			return false
		}
	}
	return true
}

func (m c05) checkSeq(c *fw.Ctx, tab []gts.Feature, hostB []byte, alpha string) {
	L := len(hostB)
	enc := fmt.Sprintf("Reverse/Complement host=%q F=[", hostB)
	for _, f := range tab {
		enc += fmt.Sprintf("%s %s %v;", f.Key, model.SafeString(f.Loc), f.Props)
	}
	enc += "]"
	c.Begin(enc)
	c.Count(enc, len(tab) > 0)
	c.Bucket("alphabet:" + alpha)
	host := mkHost("basic", tab, hostB)
	var rev, comp, rc, rr, cc gts.Sequence
	p, val, site, stack := fw.Guard(func() {
		// the sibling operation on the same alphabet runs in the same process
		// now and then: what Complement does must not depend on it.
		if c05Tick++; c05Tick%4 == 1 {
			gts.Transcribe(host)
		}
		rev = gts.Reverse(host)
		comp = gts.Complement(host)
		rc = gts.Reverse(gts.Complement(host))
		rr = gts.Reverse(rev)
		cc = gts.Complement(comp)
	})
	if p {
		c.ViolateX("seq:"+panicClass(site, val), enc, "no panic", fmt.Sprint(val), stack, nil)
		return
	}
	c.Hold(enc, func() string { return heldSeq(rev, comp, rc, rr, cc) })
	wantRev := make([]byte, L)
	wantComp := make([]byte, L)
	for i := range hostB {
		wantRev[L-1-i] = hostB[i]
		wantComp[i] = model.ComplementByte(hostB[i])
	}
	c.Bucket("seq:reverse")
	if !bytes.Equal(rev.Bytes(), wantRev) {
		c.Violate("seq:Reverse:residues", enc, string(wantRev), string(rev.Bytes()))
		return
	}
	c.Bucket("seq:complement")
	if !bytes.Equal(comp.Bytes(), wantComp) {
		c.Violate("seq:Complement:residues", enc, string(wantComp), string(comp.Bytes()))
		return
	}
	if !bytes.Equal(rr.Bytes(), hostB) {
		c.Violate("seq:Reverse.Reverse:residues", enc, string(hostB), string(rr.Bytes()))
		return
	}
	// Complement is an involution up to U being read back as T.
	ccb := cc.Bytes()
	for i := range hostB {
		w := hostB[i]
		if w == 'U' {
			w = 'T'
		}
		if w == 'u' {
			w = 't'
		}
		if i >= len(ccb) || ccb[i] != w {
			c.Violate("seq:Complement.Complement:residues", enc, string(hostB), string(ccb))
			return
		}
	}
	byLabel := func(s gts.Sequence) map[string][]gts.Feature {
		m := map[string][]gts.Feature{}
		for _, f := range s.Features() {
			m[gen.Label(f)] = append(m[gen.Label(f)], f)
		}
		return m
	}
	revF, compF, rcF := byLabel(rev), byLabel(comp), byLabel(rc)
	if len(rev.Features()) != len(tab) || len(comp.Features()) != len(tab) || len(rc.Features()) != len(tab) {
		c.Violate("seq:feature-count", enc, fmt.Sprint(len(tab)), fmt.Sprintf("rev=%d comp=%d rc=%d", len(rev.Features()), len(comp.Features()), len(rc.Features())))
		return
	}
	for _, f := range tab {
		lab := gen.Label(f)
		before := model.Parts(f.Loc)
		// Reverse.
		g := revF[lab]
		if len(g) != 1 || g[0].Key != f.Key || !reflect.DeepEqual(g[0].Props, f.Props) {
			c.Violate("seq:Reverse:feature-identity", enc, fmt.Sprintf("%s %v once", f.Key, f.Props), fmt.Sprint(g))
			return
		}
		var obs []model.Part
		pp, pv, _, _ := fw.Guard(func() { obs = model.Parts(g[0].Loc); _ = g[0].Loc.String() })
		if pp {
			c.Violate("seq:Reverse:unreadable-location:"+locKind(f.Loc), enc, "", fmt.Sprint(pv))
			return
		}
		v, why, id, exp := compareMirror(c, before, obs, L)
		switch v {
		case model.VKnown:
			c.Known(id, enc)
		case model.VBad:
			c.Violate("seq:Reverse:loc:"+why+":"+locKind(f.Loc), enc, fmt.Sprintf("%s %s -> %s", lab, model.SafeString(f.Loc), model.XPartsString(exp)),
				fmt.Sprintf("%s = %s", model.SafeString(g[0].Loc), model.PartsString(obs)))
			return
		}
		// Complement.
		h := compF[lab]
		if len(h) != 1 || h[0].Key != f.Key || !reflect.DeepEqual(h[0].Props, f.Props) {
			c.Violate("seq:Complement:feature-identity", enc, fmt.Sprintf("%s %v once", f.Key, f.Props), fmt.Sprint(h))
			return
		}
		if !reflect.DeepEqual(h[0].Loc, f.Loc.Complement()) {
			c.Violate("seq:Complement:loc", enc, model.SafeString(f.Loc.Complement()), model.SafeString(h[0].Loc))
			return
		}
		// extraction symmetry (skipped when a listed deviation already hit this
		// feature: the location in rc is then known to be off).
		if v == model.VKnown {
			continue
		}
		k := rcF[lab]
		if len(k) != 1 {
			c.Violate("seq:rc:feature-identity", enc, lab+" once", fmt.Sprint(len(k)))
			return
		}
		if ba := model.Bases(model.Atoms(before)); len(model.CollapseDups(ba)) != len(ba) {
			// a residue repeated back to back (join(1,1)): the documented join
			// reductions may drop the repeat when the location is rebuilt, which
			// shortens the extraction; outside the comparison.
			c.Bucket("seq:extract-symmetry-skipped:repeated-residue")
			continue
		}
		c.Bucket("seq:extract-symmetry")
		var e1, e2 []byte
		pp, pv, site, stack = fw.Guard(func() {
			e1 = f.Loc.Region().Locate(host).Bytes()
			e2 = k[0].Loc.Region().Locate(rc).Bytes()
		})
		if pp {
			c.ViolateX("seq:extract:"+panicClass(site, pv), enc, "no panic", fmt.Sprint(pv), stack, nil)
			return
		}
		want := model.Extract(hostB, before, model.ComplementByte)
		if !bytes.Equal(e1, want) {
			c.Violate("seq:extract:model:"+locKind(f.Loc), enc, fmt.Sprintf("%s %s -> %q", lab, model.SafeString(f.Loc), want), fmt.Sprintf("%q", e1))
			return
		}
		// the statement: equal extraction from the reverse-complemented record.
		// U is read back as T by the double complement on the reverse strand.
		if !bytes.Equal(normU(e2), normU(e1)) {
			if c.KFEnabled("join-drops-point-after-range") {
				if _, did := model.DropPointAfterRange(model.ImageReverse(model.Parts(f.Loc.Complement()), L, false)); did {
					c.Known("join-drops-point-after-range", enc)
					continue
				}
			}
			c.Violate("seq:extract:symmetry:"+locKind(f.Loc), enc, fmt.Sprintf("%s %s -> %q", lab, model.SafeString(f.Loc), e1), fmt.Sprintf("%s -> %q", model.SafeString(k[0].Loc), e2))
			return
		}
	}
}

func normU(b []byte) []byte {
	o := make([]byte, len(b))
	for i, x := range b {
		switch x {
		case 'U':
			x = 'T'
		case 'u':
			x = 't'
		}
		o[i] = x
	}
	return o
}

func (m c05) Run(c *fw.Ctx) {
	maxL := c.Pick(5, 6)
	for L := 1; L <= maxL; L++ {
		for _, loc := range gen.Universe(L, 3) {
			if !c.NextShared() {
				continue
			}
			m.checkLoc(c, loc, L)
		}
		c.Exhaustive(fmt.Sprintf("Location.Reverse on Universe(L=%d,arity<=3)", L))
	}
	r := c.Rng
	N := c.Pick(25000, 800000)
	for it := 0; it < N; it++ {
		c.NextOwn()
		L := 2 + r.Intn(39)
		ar := 1 + it%6
		o := gen.LocOpt{L: L, MaxParts: ar, MaxDepth: 1 + r.Intn(3), Ambiguous: true, Overlap: r.Intn(4) == 0, Sites: true}
		var loc gts.Location
		if ar == 1 {
			loc = gen.RandLeaf(r, 0, L, o)
		} else {
			// exactly ar top-level parts when they fit.
			var parts []gts.Location
			per := L / ar
			if per < 2 {
				per = 2
			}
			lo := 0
			for k := 0; k < ar && lo+1 < L; k++ {
				hi := lo + per - 1
				if hi > L {
					hi = L
				}
				if hi <= lo {
					break
				}
				l := gen.RandLeaf(r, lo, hi, o)
				if r.Intn(8) == 0 {
					l = l.Complement()
				}
				parts = append(parts, l)
				lo = hi + 1
			}
			if len(parts) == 0 {
				parts = append(parts, gen.RandLeaf(r, 0, L, o))
			}
			if r.Intn(3) == 0 {
				loc = gts.Order(parts...)
			} else {
				loc = gts.Join(parts...)
			}
			if r.Intn(6) == 0 {
				// the member-by-member spelling of a complement-strand join:
				// join(complement(15..17),complement(9..11),complement(2..4)),
				// as a literal value (what a table written by other tools holds).
				lit := make(gts.Joined, 0, len(parts))
				for k := len(parts) - 1; k >= 0; k-- {
					p := parts[k]
					if _, ok := p.(gts.Complemented); !ok {
						p = gts.Complemented{Location: p}
					}
					lit = append(lit, p)
				}
				if len(lit) > 1 {
					loc = lit
					c.Bucket("literal join of complemented members")
				}
			}
		}
		if r.Intn(3) == 0 {
			loc = loc.Complement()
		}
		if c.Replaying() && c.Seq() != c.ReplaySeq {
			continue
		}
		m.checkLoc(c, loc, L)
	}
	M := c.Pick(8000, 250000)
	for it := 0; it < M; it++ {
		c.NextOwn()
		L := 1 + r.Intn(60)
		o := gen.LocOpt{L: L, MaxParts: 6, MaxDepth: 3, Ambiguous: true, Overlap: r.Intn(4) == 0, Sites: true}
		tab := gen.RandTable(r, r.Intn(8), o, "h", 10)
		alpha := "unique-ids"
		var hostB []byte
		if ak := r.Intn(5); ak == 0 {
			// residue bytes beyond ASCII (no valid UTF-8): they are residues like
			// any other, left alone by Complement.
			alpha = "bytes-beyond-ascii"
			hostB = gen.UniqueBytes(60, L)
			for i := range hostB {
				if i%3 == 1 {
					hostB[i] = "acgtuACGTN"[i%10]
				}
			}
		} else if ak <= 2 {
			alpha = "acgt"
			hostB = make([]byte, L)
			const letters = "ACGTacgtRYKMSWBDHVNU"
			for i := range hostB {
				hostB[i] = letters[r.Intn(len(letters))]
			}
		} else {
			hostB = gen.UniqueBytes(0, L)
		}
		if c.Replaying() && c.Seq() != c.ReplaySeq {
			continue
		}
		m.checkSeq(c, tab, hostB, alpha)
	}
	cliReverseComplement(c)
}

// hasComplementRun reports a join with two complemented members in a row
// somewhere in loc: the member-by-member spelling of a complement-strand join,
// which gts.Join rewrites as complement(join(..)) (so the value is not in the
// form the constructors produce and need not print the same after a round
// trip through Reverse; what it denotes is still checked).
func hasComplementRun(loc gts.Location) bool {
	switch v := loc.(type) {
	case gts.Complemented:
		return hasComplementRun(v.Location)
	case gts.Joined:
		for i, m := range v {
			if _, ok := m.(gts.Complemented); ok && i > 0 {
				if _, ok2 := v[i-1].(gts.Complemented); ok2 {
					return true
				}
			}
			if hasComplementRun(m) {
				return true
			}
		}
	case gts.Ordered:
		for _, m := range v {
			if hasComplementRun(m) {
				return true
			}
		}
	}
	return false
}

var c05Tick int
