package mon

import (
	"bytes"
	"fmt"
	"math/rand"
	"os"
	"path/filepath"
	"regexp"
	"sort"
	"strings"
	"time"

	"github.com/go-gts/gts"
	"github.com/go-gts/gts/seqio"

	"verifharness/cli"
	"verifharness/fw"
	"verifharness/gen"
	"verifharness/model"
)

// The CLI layer: the properties C05, C12, C18 and C19 name gts reverse /
// complement, gts repair, gts search and gts select among their observation
// points. Their library semantics are judged by the library-level monitors;
// this layer runs the real binary (--no-cache) on generated records and judges
// its parsed output against the harness models, so that a defect in the
// command wiring (option handling, which filter / function is applied, state
// kept between records) is observed too. It is skipped (with a note) when the
// binary is not available.

func cliLayerEnv(c *fw.Ctx, tag string) *cli.Env {
	bin := os.Getenv("GTS_BIN")
	if bin == "" {
		c.Note("CLI layer skipped: GTS_BIN not set")
		return nil
	}
	env, err := cli.New(bin, filepath.Join(c.WorkDir, fmt.Sprintf("%s-cli-%d", tag, c.Shard)))
	if err != nil {
		c.Note("CLI layer skipped: " + err.Error())
		return nil
	}
	return env
}

// cliRecord builds a GenBank record with uniquely labelled features over
// forward/complement ranges and joins.
func cliRecord(r *rand.Rand, L int, iupac bool) (seqio.GenBank, []byte) {
	b := make([]byte, L)
	letters := "acgt"
	if iupac {
		letters = "acgtacgtacgtnrykm"
	}
	for i := range b {
		b[i] = letters[r.Intn(len(letters))]
	}
	o := gen.LocOpt{L: L, MaxParts: 3, MaxDepth: 2}
	var tab []gts.Feature
	keys := []string{"gene", "CDS", "misc_feature", "exon"}
	for i, n := 0, 1+r.Intn(7); i < n; i++ {
		loc := gen.RandLoc(r, o)
		if _, ok := loc.(gts.Ordered); ok {
			loc = gts.Range(0, 1+r.Intn(L))
		}
		p := gts.Props{{"label", fmt.Sprintf("h%d", i)}}
		if r.Intn(2) == 0 {
			p.Add("note", []string{"alpha", "beta", "alpha beta"}[r.Intn(3)])
		}
		tab = append(tab, gts.Feature{Key: keys[r.Intn(len(keys))], Loc: loc, Props: p})
	}
	if r.Intn(2) == 0 {
		tab = append(tab, gts.Feature{Key: "source", Loc: gts.Range(0, L), Props: gts.Props{{"label", "src"}}})
	}
	mol := []gts.Molecule{gts.DNA, gts.DNA, gts.RNA, gts.SingleStrandDNA, gts.DoubleStrandDNA}[r.Intn(5)]
	topo := []gts.Topology{gts.Linear, gts.Circular}[r.Intn(2)]
	gb := seqio.GenBank{Fields: seqio.GenBankFields{LocusName: "CLI", Molecule: mol, Topology: topo, Division: "SYN",
		Date: seqio.Date{Year: 2022, Month: 5, Day: 6}, Definition: "cli layer", Accession: "CLI1", Version: "CLI1.1",
		Source: seqio.Organism{Species: "synthetic construct", Name: "synthetic construct"}},
		Table: gen.SortedTable(tab), Origin: seqio.NewOrigin(b)}
	return gb, b
}

func labelsOf(ff []gts.Feature) []string {
	out := make([]string, len(ff))
	for i, f := range ff {
		out[i] = gen.Label(f)
	}
	return out
}

func runCLI(c *fw.Ctx, env *cli.Env, cls, enc string, args []string, stdin []byte) ([]gts.Sequence, bool) {
	res := env.Run(append(append([]string{}, args...), "--no-cache"), stdin, nil, 60*time.Second)
	if res.TimedOut {
		c.Violate(cls+":hang", enc, "terminates", "watchdog expired")
		return nil, false
	}
	if res.Exit != 0 {
		c.Violate(cls+":exit-nonzero", enc, "exit 0", fmt.Sprintf("exit %d: %s", res.Exit, clipS(string(res.Stderr), 600)))
		return nil, false
	}
	outs, err := parseOut(res.Stdout)
	if err != nil {
		c.Violate(cls+":output-not-readable", enc, "read back", err.Error())
		return nil, false
	}
	return outs, true
}

// cliCacheTwin runs main the way users do (cache on) over a fresh cache
// directory in which its nearest sibling invocation (sib; nil: none) and the
// same invocation on a slightly different input have just run. Twice in a row
// it must print what it prints with --no-cache.
func cliCacheTwin(c *fw.Ctx, env *cli.Env, cls, enc string, sib, main []string, stdin []byte) {
	ref := env.Run(append(append([]string{}, main...), "--no-cache"), stdin, nil, 60*time.Second)
	if ref.TimedOut {
		return
	}
	env.ResetCache()
	if sib != nil {
		env.Run(sib, stdin, nil, 60*time.Second)
	}
	other := bytes.Replace(stdin, []byte("DEFINITION  "), []byte("DEFINITION  another "), 1)
	if !bytes.Equal(other, stdin) {
		env.Run(main, other, nil, 60*time.Second)
	}
	for pass := 0; pass < 2; pass++ {
		got := env.Run(main, stdin, nil, 60*time.Second)
		if got.TimedOut || got.Exit != ref.Exit || !bytes.Equal(got.Stdout, ref.Stdout) {
			c.Violate(cls+":cached-run-differs", enc+fmt.Sprintf("  (cache on, pass %d, after: gts %s and the same command on another input)", pass+1, strings.Join(sib, " ")),
				fmt.Sprintf("exit %d and the %d bytes of the --no-cache run", ref.Exit, len(ref.Stdout)), fmt.Sprintf("exit %d, %d bytes: %s", got.Exit, len(got.Stdout), clipB(got.Stdout, 300)))
			return
		}
	}
	c.Bucket(cls + " cache-on")
}

// ---- C19: gts select ----

func cliSelect(c *fw.Ctx) {
	env := cliLayerEnv(c, "c19")
	if env == nil {
		return
	}
	defer os.RemoveAll(env.Root)
	r := c.Rng
	N := c.Pick(40, 600)
	for it := 0; it < N; it++ {
		c.NextOwn()
		seed := r.Int63()
		if c.Replaying() && c.Seq() != c.ReplaySeq {
			continue
		}
		rr := rand.New(rand.NewSource(seed))
		nrec := 1 + rr.Intn(2)
		var recs []seqio.GenBank
		var text []byte
		for k := 0; k < nrec; k++ {
			gb, _ := cliRecord(rr, 30+rr.Intn(30), false)
			// "in table order" whatever that order is: a table that is not
			// sorted (the source feature anywhere in it), a second source
			// feature further down.
			if rr.Intn(3) == 0 {
				t := append([]gts.Feature{}, gb.Table...)
				rr.Shuffle(len(t), func(i, j int) { t[i], t[j] = t[j], t[i] })
				gb.Table = t
				c.Bucket("cli:select table not sorted")
			}
			if rr.Intn(6) == 0 {
				gb.Table = append(append([]gts.Feature{}, gb.Table...), gts.Feature{Key: "source", Loc: gts.Range(0, 1+rr.Intn(gts.Len(gb))), Props: gts.Props{{"label", "src2"}}})
				c.Bucket("cli:select second source feature down the table")
			}
			recs = append(recs, gb)
			text = append(text, gb.String()...)
		}
		type sel struct {
			key string
			re  *regexp.Regexp
			str string
		}
		var sels []sel
		for k, n := 0, 1+rr.Intn(2); k < n; k++ {
			s := sel{}
			if rr.Intn(3) != 0 {
				s.key = []string{"gene", "CDS", "misc_feature", "exon"}[rr.Intn(4)]
			}
			if s.key != "" && rr.Intn(8) == 0 {
				// a blank is a character like any other: no feature has this key.
				s.key = " " + s.key
				c.Bucket("cli:select selector with outer blank")
			}
			s.str = s.key
			switch rr.Intn(4) {
			case 3:
				// a regexp that ends in a blank: "alpha beta" has it, "alpha" has not.
				pat := "alpha "
				s.re = regexp.MustCompile(pat)
				s.str += "/note=" + pat
				c.Bucket("cli:select selector with outer blank")
			case 0:
				pat := fmt.Sprintf("^h[%d-%d]$", rr.Intn(3), 3+rr.Intn(4))
				s.re = regexp.MustCompile(pat)
				s.str += "/label=" + pat
			case 1:
				if s.key == "" {
					s.key = "gene"
					s.str = "gene"
				}
			default:
				pat := "alpha"
				s.re = regexp.MustCompile(pat)
				s.str += "/note=" + pat
			}
			sels = append(sels, s)
		}
		if rr.Intn(7) == 0 {
			// the empty selector: no key asked for, no clause - every feature.
			sels = append(sels, sel{key: "", str: ""})
			c.Bucket("cli:select empty selector")
		}
		if rr.Intn(5) == 0 {
			// a selector that accepts the source feature too (which is kept
			// whatever the selection, also under -v).
			sels = append(sels, sel{key: "source", str: "source"})
			c.Bucket("cli:select selector that accepts the source feature")
		}
		if s0 := sels[0]; s0.re != nil && rr.Intn(3) == 0 {
			// a second selector whose text starts with the text of the first one
			// and accepts more: the selection is the union of both.
			ext := "|beta"
			if strings.Contains(s0.str, "/label=") {
				ext = "|^h7$|^h1$"
			}
			e := sel{key: s0.key, re: regexp.MustCompile(s0.re.String() + ext), str: s0.str + ext}
			if rr.Intn(2) == 0 {
				sels = append(sels, e)
			} else {
				sels = append([]sel{e}, sels...)
			}
			c.Bucket("cli:select selector that extends another one's text")
		}
		strand := []string{"", "both", "forward", "reverse"}[rr.Intn(4)]
		invert := rr.Intn(3) == 0
		args := []string{"select"}
		for _, s := range sels {
			args = append(args, s.str)
		}
		if strand != "" {
			args = append(args, "-s", strand)
		}
		if invert {
			args = append(args, "-v")
		}
		enc := fmt.Sprintf("cli: gts %s  on %d record(s)", strings.Join(args, " "), nrec)
		for _, gb := range recs {
			enc += "\n  F=["
			for _, f := range gb.Table {
				enc += fmt.Sprintf("%s %s %s %v;", f.Key, gen.Label(f), model.SafeString(f.Loc), f.Props)
			}
			enc += "]"
		}
		c.Begin(enc)
		c.Count(enc, true)
		c.Bucket("cli:select")
		if invert {
			c.Bucket("cli:select -v")
		}
		if strand == "forward" || strand == "reverse" {
			c.Bucket("cli:select -s")
		}
		outs, ok := runCLI(c, env, "cli:select", enc, args, text)
		if !ok {
			continue
		}
		if it%3 == 0 {
			// sibling: the same selection with -v toggled.
			sib := append([]string{}, args...)
			if invert {
				for i, a := range sib {
					if a == "-v" {
						sib = append(sib[:i], sib[i+1:]...)
						break
					}
				}
			} else {
				sib = append(sib, "-v")
			}
			cliCacheTwin(c, env, "cli:select", enc, sib, args, text)
		}
		if len(outs) != nrec {
			c.Violate("cli:select:record-count", enc, fmt.Sprint(nrec), fmt.Sprint(len(outs)))
			continue
		}
		for k, gb := range recs {
			var want []string
			for _, f := range gb.Table {
				hit := false
				for _, s := range sels {
					if s.key != "" && f.Key != s.key {
						continue
					}
					if s.re != nil {
						name := "label"
						if strings.Contains(s.str, "/note=") {
							name = "note"
						}
						m := false
						for _, v := range f.Props.Get(name) {
							if s.re.MatchString(v) {
								m = true
							}
						}
						if !m {
							continue
						}
					}
					hit = true
				}
				keep := f.Key == "source" || (hit != invert)
				st := strandOf(model.Parts(f.Loc))
				switch strand {
				case "forward":
					keep = keep && st == "fwd"
				case "reverse":
					keep = keep && st == "rev"
				}
				if keep {
					want = append(want, gen.Label(f))
				}
			}
			got := labelsOf(outs[k].Features())
			if fmt.Sprint(got) != fmt.Sprint(want) {
				c.Violate("cli:select:features", enc, fmt.Sprintf("record %d: %v", k+1, want), fmt.Sprint(got))
				break
			}
			if !bytes.Equal(outs[k].Bytes(), gb.Bytes()) {
				c.Violate("cli:select:residues", enc, string(gb.Bytes()), string(outs[k].Bytes()))
				break
			}
		}
	}
}

// ---- C18: gts search ----

func cliSearch(c *fw.Ctx) {
	env := cliLayerEnv(c, "c18")
	if env == nil {
		return
	}
	defer os.RemoveAll(env.Root)
	r := c.Rng
	kdev := c.KFEnabled("match-k-row")
	N := c.Pick(60, 800)
	for it := 0; it < N; it++ {
		c.NextOwn()
		seed := r.Int63()
		if c.Replaying() && c.Seq() != c.ReplaySeq {
			continue
		}
		rr := rand.New(rand.NewSource(seed))
		// one or two input records; every third case is RNA (u in the record).
		rna := it%3 == 2
		var gbs []seqio.GenBank
		var seqs [][]byte
		for n := 1 + (it/2)%2; n > 0; n-- {
			L := 30 + rr.Intn(50)
			gb, seq := cliRecord(rr, L, true)
			if it%7 == 3 && len(gbs) == 0 {
				// a scaffold spacer: spelled with letters that are their own
				// complement only.
				for i := range seq {
					seq[i] = "nnnnwsnNSW"[rr.Intn(10)]
				}
				gb.Origin = seqio.NewOrigin(seq)
				c.Bucket("cli:search record of self-complementary letters")
			}
			if it%7 == 5 && len(gbs) == 0 {
				// a record that reads the same on both strands.
				h := seq[:len(seq)/2]
				pal := append([]byte{}, h...)
				for i := len(h) - 1; i >= 0; i-- {
					pal = append(pal, model.ComplementByte(h[i]))
				}
				seq = pal
				gb.Origin = seqio.NewOrigin(seq)
				c.Bucket("cli:search record equal to its reverse complement")
			}
			if rna {
				seq = bytes.ReplaceAll(seq, []byte("t"), []byte("u"))
				gb.Origin = seqio.NewOrigin(seq)
				gb.Fields.Molecule = gts.RNA
			}
			gb.Fields.LocusName = fmt.Sprintf("CLI%d", len(gbs))
			gbs = append(gbs, gb)
			seqs = append(seqs, seq)
		}
		qa := "acgtn"
		switch rr.Intn(4) {
		case 0:
			qa = "acgtryn"
		case 1:
			qa = "acgun"
		}
		// 1..3 queries; more than one (or a coin flip) go through a query
		// file, and one of them may be longer than a record.
		nq := 1 + rr.Intn(3)
		var queries [][]byte
		for i := 0; i < nq; i++ {
			q := make([]byte, 2+rr.Intn(3))
			for j := range q {
				q[j] = qa[rr.Intn(len(qa))]
			}
			src := seqs[rr.Intn(len(seqs))]
			if rr.Intn(2) == 0 {
				// take the query from a record so there is at least one hit.
				a := rr.Intn(len(src) - len(q))
				copy(q, src[a:a+len(q)])
			}
			if nq == 1 && rr.Intn(6) == 0 {
				// a query that itself starts with the byte that marks a literal
				// on the command line (outside the alphabet: it matches only
				// itself, so nothing in these records).
				q = append([]byte("@"), q...)
				c.Bucket("cli:search query starting with @")
			}
			if nq > 1 && i < nq-1 && rr.Intn(4) == 0 {
				// longer than the shortest record: no hit there, the later
				// queries must still be searched.
				short := seqs[0]
				for _, sq := range seqs {
					if len(sq) < len(short) {
						short = sq
					}
				}
				q = append(append([]byte{}, short...), q...)
				c.Bucket("cli:search query longer than a record")
			}
			queries = append(queries, q)
		}
		exact := rr.Intn(3) == 0
		nocomp := rr.Intn(3) == 0
		key := "misc_feature"
		qarg := "@" + string(queries[0])
		if nq > 1 || rr.Intn(3) == 0 {
			var fa bytes.Buffer
			for i, q := range queries {
				fmt.Fprintf(&fa, ">q%d\n%s\n", i, q)
			}
			qarg = env.File(fmt.Sprintf("queries-%d.fasta", it))
			os.MkdirAll(filepath.Dir(qarg), 0755)
			if err := os.WriteFile(qarg, fa.Bytes(), 0644); err != nil {
				c.Inconclusive("cannot write the query file: " + err.Error())
				return
			}
			c.Bucket("cli:search query file")
			if nq > 1 {
				c.Bucket("cli:search several queries")
			}
		}
		args := []string{"search", qarg}
		if exact {
			args = append(args, "-e")
		}
		if nocomp {
			args = append(args, "--no-complement")
		}
		if rr.Intn(3) == 0 {
			key = "primer_bind"
			args = append(args, "-k", key)
		}
		args = append(args, "-q", "label=hit")
		var stdin bytes.Buffer
		for _, gb := range gbs {
			stdin.WriteString(gb.String())
		}
		enc := fmt.Sprintf("cli: gts %s  queries=%q seqs=%q", strings.Join(args[2:], " "), queries, seqs)
		c.Begin(enc)
		c.Count(enc, true)
		c.Bucket("cli:search")
		if exact {
			c.Bucket("cli:search -e")
		}
		if nocomp {
			c.Bucket("cli:search --no-complement")
		}
		if rna {
			c.Bucket("cli:search RNA record")
		}
		if len(gbs) > 1 {
			c.Bucket("cli:search stream")
		}
		outs, ok := runCLI(c, env, "cli:search", enc, args, stdin.Bytes())
		if ok && it%3 == 0 {
			// sibling: the same search with -e toggled.
			sib := append([]string{}, args...)
			if exact {
				for i, a := range sib {
					if a == "-e" {
						sib = append(sib[:i], sib[i+1:]...)
						break
					}
				}
			} else {
				sib = append(sib, "-e")
			}
			cliCacheTwin(c, env, "cli:search", enc, sib, args, stdin.Bytes())
		}
		if ok && qarg[0] != '@' {
			// the same command line after a search whose query file, under the
			// same name, held the same letters cut into records differently
			// (all queries run together; or the first one cut in two).
			mine, _ := os.ReadFile(qarg)
			var oth bytes.Buffer
			if len(queries) > 1 {
				fmt.Fprintf(&oth, ">q0\n%s\n", bytes.Join(queries, nil))
			} else {
				h := len(queries[0]) / 2
				fmt.Fprintf(&oth, ">q0\n%s\n>q1\n%s\n", queries[0][:h], queries[0][h:])
			}
			ref := env.Run(append(append([]string{}, args...), "--no-cache"), stdin.Bytes(), nil, 60*time.Second)
			env.ResetCache()
			os.WriteFile(qarg, oth.Bytes(), 0644)
			env.Run(args, stdin.Bytes(), nil, 60*time.Second)
			os.WriteFile(qarg, mine, 0644)
			for pass := 0; pass < 2 && !ref.TimedOut; pass++ {
				got := env.Run(args, stdin.Bytes(), nil, 60*time.Second)
				if got.TimedOut || got.Exit != ref.Exit || !bytes.Equal(got.Stdout, ref.Stdout) {
					c.Violate("cli:search:cached-run-differs-after-other-query-file", enc+fmt.Sprintf("  (cache on, pass %d, after the same command line with the query file holding %q)", pass+1, oth.String()),
						fmt.Sprintf("exit %d and the %d bytes of the --no-cache run", ref.Exit, len(ref.Stdout)), fmt.Sprintf("exit %d, %d bytes: %s", got.Exit, len(got.Stdout), clipB(got.Stdout, 300)))
					break
				}
			}
			c.Bucket("cli:search cache-on after another query file")
		}
		if qarg[0] != '@' {
			os.Remove(qarg)
		}
		if !ok {
			continue
		}
		if len(outs) != len(gbs) {
			c.Violate("cli:search:record-count", enc, fmt.Sprint(len(gbs)), fmt.Sprint(len(outs)))
			continue
		}
		for ri, seq := range seqs {
			L := len(seq)
			// sequence letters outside the query n don't-care do not occur (IUPAC only).
			want := map[string]int{}
			for _, q := range queries {
				q := q
				find := func(s []byte) [][2]int {
					if exact {
						var out [][2]int
						ls, lq := bytes.ToLower(s), bytes.ToLower(q)
						for i := 0; i+len(lq) <= len(ls); i++ {
							if bytes.Equal(ls[i:i+len(lq)], lq) {
								out = append(out, [2]int{i, i + len(lq)})
							}
						}
						return out
					}
					return c18Scan(s, q, kdev, false)
				}
				for _, m := range find(seq) {
					want[gts.Range(m[0], m[1]).String()]++
				}
				if !nocomp {
					rc := make([]byte, L)
					for i := range seq {
						rc[L-1-i] = model.ComplementByte(seq[i])
					}
					for _, m := range find(rc) {
						want[gts.Range(L-m[1], L-m[0]).Complement().String()]++
					}
				}
			}
			got := map[string]int{}
			orig := 0
			for _, f := range outs[ri].Features() {
				if gen.Label(f) == "hit" {
					if f.Key != key {
						c.Violate("cli:search:feature-key", enc, key, f.Key)
					}
					got[f.Loc.String()]++
				} else {
					orig++
				}
			}
			if orig != len(gbs[ri].Table) {
				c.Violate("cli:search:original-features-changed", enc, fmt.Sprint(len(gbs[ri].Table)), fmt.Sprint(orig))
				continue
			}
			if fmt.Sprint(sortedCounts(got)) != fmt.Sprint(sortedCounts(want)) {
				c.Violate("cli:search:hits", enc, fmt.Sprintf("record %d: %v", ri+1, sortedCounts(want)), fmt.Sprint(sortedCounts(got)))
			}
		}
	}
}

func sortedCounts(m map[string]int) []string {
	var out []string
	for k, n := range m {
		out = append(out, fmt.Sprintf("%s x%d", k, n))
	}
	sort.Strings(out)
	return out
}

// ---- C05: gts reverse / gts complement ----

func cliReverseComplement(c *fw.Ctx) {
	env := cliLayerEnv(c, "c05")
	if env == nil {
		return
	}
	defer os.RemoveAll(env.Root)
	r := c.Rng
	N := c.Pick(40, 500)
	for it := 0; it < N; it++ {
		c.NextOwn()
		seed := r.Int63()
		if c.Replaying() && c.Seq() != c.ReplaySeq {
			continue
		}
		rr := rand.New(rand.NewSource(seed))
		nrec := 1 + rr.Intn(2)
		var recs []seqio.GenBank
		var seqs [][]byte
		var text []byte
		for k := 0; k < nrec; k++ {
			gb, b := cliRecord(rr, 20+rr.Intn(40), true)
			if rr.Intn(5) == 0 {
				// a record of one residue with a feature open at one end: the
				// residue stays where it is, the marker changes ends.
				b = []byte{"acgt"[rr.Intn(4)]}
				gb.Origin = seqio.NewOrigin(append([]byte(nil), b...))
				pt := []gts.Partial{gts.Partial5, gts.Partial3}[rr.Intn(2)]
				var loc gts.Location = gts.PartialRange(0, 1, pt)
				if rr.Intn(2) == 0 {
					loc = loc.Complement()
				}
				gb.Table = gts.FeatureSlice{{Key: "gene", Loc: loc, Props: gts.Props{{"label", "h0"}}}}
				c.Bucket("cli:one-residue record with an open end")
			}
			if it%2 == 1 && rr.Intn(4) == 0 {
				// an annotated record without residues (CONTIG only), as the
				// databases ship large genomes: complementing it still puts
				// every feature on the other strand.
				gb.Origin = seqio.NewOrigin(nil)
				gb.Fields.Contig = seqio.Contig{Accession: "U00096.3", Region: gts.Segment{0, len(b)}}
				b = []byte{}
				c.Bucket("cli:complement CONTIG-only record")
			}
			recs = append(recs, gb)
			seqs = append(seqs, b)
			text = append(text, gb.String()...)
		}
		cmd := []string{"reverse", "complement"}[it%2]
		enc := fmt.Sprintf("cli: gts %s on %d record(s)", cmd, nrec)
		for k, gb := range recs {
			enc += fmt.Sprintf("\n  seq=%q F=[", seqs[k])
			for _, f := range gb.Table {
				enc += fmt.Sprintf("%s %s;", gen.Label(f), model.SafeString(f.Loc))
			}
			enc += "]"
		}
		c.Begin(enc)
		c.Count(enc, true)
		c.Bucket("cli:" + cmd)
		outs, ok := runCLI(c, env, "cli:"+cmd, enc, []string{cmd}, text)
		if !ok {
			continue
		}
		if len(outs) != nrec {
			c.Violate("cli:"+cmd+":record-count", enc, fmt.Sprint(nrec), fmt.Sprint(len(outs)))
			continue
		}
		if it%3 == 0 {
			cliCacheTwin(c, env, "cli:"+cmd, enc, []string{[]string{"complement", "reverse"}[it%2]}, []string{cmd}, text)
		}
		for k, gb := range recs {
			L := len(seqs[k])
			want := make([]byte, L)
			for i, b := range seqs[k] {
				if cmd == "reverse" {
					want[L-1-i] = b
				} else {
					want[i] = model.ComplementByte(b)
				}
			}
			if !bytes.Equal(normU(outs[k].Bytes()), normU(want)) {
				c.Violate("cli:"+cmd+":residues", enc, string(want), string(outs[k].Bytes()))
				break
			}
			got := map[string]gts.Feature{}
			for _, f := range outs[k].Features() {
				got[gen.Label(f)] = f
			}
			bad := false
			for _, f := range gb.Table {
				g, ok := got[gen.Label(f)]
				if !ok || len(outs[k].Features()) != len(gb.Table) {
					c.Violate("cli:"+cmd+":feature-missing", enc, gen.Label(f), fmt.Sprint(labelsOf(outs[k].Features())))
					bad = true
					break
				}
				before := model.Parts(f.Loc)
				if cmd == "reverse" {
					v, why, id, exp := compareMirror(c, before, model.Parts(g.Loc), L)
					if v == model.VKnown {
						c.Known(id, enc)
					} else if v == model.VBad {
						c.Violate("cli:reverse:loc:"+why, enc, model.XPartsString(exp), model.SafeString(g.Loc))
						bad = true
						break
					}
				} else {
					var want []model.Part
					for j := len(before) - 1; j >= 0; j-- {
						q := before[j]
						q.Rev = !q.Rev
						want = append(want, q)
					}
					if !model.EqualAtoms(model.Atoms(want), model.Atoms(model.Parts(g.Loc))) {
						c.Violate("cli:complement:loc", enc, model.PartsString(want), model.SafeString(g.Loc))
						bad = true
						break
					}
				}
			}
			if bad {
				break
			}
		}
	}
}

// ---- C12: gts split | gts join | gts repair ----

func cliRepair(c *fw.Ctx) {
	env := cliLayerEnv(c, "c12")
	if env == nil {
		return
	}
	defer os.RemoveAll(env.Root)
	r := c.Rng
	N := c.Pick(30, 400)
	for it := 0; it < N; it++ {
		c.NextOwn()
		seed := r.Int63()
		if c.Replaying() && c.Seq() != c.ReplaySeq {
			continue
		}
		rr := rand.New(rand.NewSource(seed))
		L := 40 + rr.Intn(40)
		b := make([]byte, L)
		for i := range b {
			b[i] = "acgt"[rr.Intn(4)]
		}
		// core domain: forward contiguous ranges (partial or complete), unique labels.
		var tab []gts.Feature
		for i, n := 0, 1+rr.Intn(6); i < n; i++ {
			s := rr.Intn(L - 1)
			e := s + 1 + rr.Intn(L-s)
			pt := gts.Partial{Partial5: rr.Intn(5) == 0, Partial3: rr.Intn(5) == 0}
			p := gts.Props{{"label", fmt.Sprintf("h%d", i)}}
			if rr.Intn(3) == 0 {
				// a value-less qualifier that no built-in list knows.
				p.Add([]string{"curated", "zt_flag"}[rr.Intn(2)], "")
				c.Bucket("cli:repair value-less unlisted qualifier")
			}
			if rr.Intn(3) == 0 {
				p.Add("note", []string{"alpha", "beta gamma", "x=1; y"}[rr.Intn(3)])
			}
			if rr.Intn(2) == 0 {
				// confined to one half, so that cuts between features exist.
				s = rr.Intn(L/3 + 1)
				e = s + 1 + rr.Intn(L/3)
			}
			tab = append(tab, gts.Feature{Key: []string{"gene", "CDS", "exon"}[rr.Intn(3)], Loc: gts.PartialRange(s, e, pt), Props: p})
		}
		if rr.Intn(3) > 0 {
			sp := gts.Props{{"label", "src"}, {"organism", "synthetic construct"}, {"mol_type", "other DNA"}}
			if rr.Intn(2) == 0 {
				// the same qualifier given twice, word for word, and once more.
				sp = append(sp, []string{"db_xref", "taxon:32630", "taxon:32630", "ATCC:1"})
			}
			tab = append(tab, gts.Feature{Key: "source", Loc: gts.Range(0, L), Props: sp})
			c.Bucket("cli:repair source feature")
		}
		gb := seqio.GenBank{Fields: seqio.GenBankFields{LocusName: "REP", Molecule: gts.DNA, Topology: gts.Linear, Division: "SYN",
			Date: seqio.Date{Year: 2022, Month: 5, Day: 6}, Definition: "repair", Accession: "REP1", Version: "REP1.1"},
			Table: gen.SortedTable(tab), Origin: seqio.NewOrigin(b)}
		if rr.Intn(3) == 0 && len(tab) > 2 {
			// a table listed as an annotator left it: the source first, the other
			// features in no particular order.
			var listed []gts.Feature
			for _, f := range tab {
				if f.Key == "source" {
					listed = append(listed, f)
				}
			}
			for _, f := range tab {
				if f.Key != "source" {
					listed = append(listed, f)
				}
			}
			gb.Table = listed
			c.Bucket("cli:repair table not in location order")
		}
		cut := 1 + rr.Intn(L-1)
		if rr.Intn(2) == 0 {
			// prefer a cut that falls inside no feature but the source.
			var free []int
			for p := 1; p < L; p++ {
				in := false
				for _, f := range tab {
					if rg, ok := f.Loc.(gts.Ranged); ok && f.Key != "source" && rg.Start < p && p < rg.End {
						in = true
					}
				}
				if !in {
					free = append(free, p)
				}
			}
			if len(free) > 0 {
				cut = free[rr.Intn(len(free))]
				c.Bucket("cli:repair cut between features")
			}
		}
		enc := fmt.Sprintf("cli: gts split %d | gts join | gts repair  seq=%q F=[", cut+1, b)
		for _, f := range gb.Table {
			enc += fmt.Sprintf("%s %s %s %d qualifiers;", f.Key, gen.Label(f), model.SafeString(f.Loc), len(f.Props))
		}
		enc += "]"
		c.Begin(enc)
		c.Count(enc, true)
		c.Bucket("cli:repair")
		run := func(args []string, in []byte) ([]byte, bool) {
			res := env.Run(append(args, "--no-cache"), in, nil, 60*time.Second)
			if res.TimedOut || res.Exit != 0 {
				c.Violate("cli:repair-pipeline:"+args[0]+"-fails", enc, "exit 0", fmt.Sprintf("exit %d %s", res.Exit, clipS(string(res.Stderr), 500)))
				return nil, false
			}
			return res.Stdout, true
		}
		// the value-less qualifiers are spelled as in a flat file (/curated).
		input := gb.String()
		for _, nm := range []string{"curated", "zt_flag"} {
			input = strings.ReplaceAll(input, "/"+nm+"=\"\"\n", "/"+nm+"\n")
		}
		s1, ok := run([]string{"split", fmt.Sprint(cut + 1)}, []byte(input))
		if !ok {
			continue
		}
		s2, ok := run([]string{"join"}, s1)
		if !ok {
			continue
		}
		s3, ok := run([]string{"repair"}, s2)
		if !ok {
			continue
		}
		if it%3 == 0 {
			cliCacheTwin(c, env, "cli:repair", enc, nil, []string{"repair"}, s2)
		}
		// gts repair on a stream whose last record has no features: every record
		// comes out.
		if it%2 == 0 {
			bare := seqio.GenBank{Fields: seqio.GenBankFields{LocusName: "BARE", Molecule: gts.DNA, Topology: gts.Linear, Division: "SYN",
				Date: seqio.Date{Year: 2022, Month: 5, Day: 6}, Definition: "no features", Accession: "BARE1", Version: "BARE1.1"}, Origin: seqio.NewOrigin([]byte("acgtacgtac"))}
			st := append(append([]byte{}, s2...), bare.String()...)
			if so, ok := run([]string{"repair"}, st); ok {
				c.Bucket("cli:repair stream ending in a record without features")
				if rs, err := parseOut(so); err != nil || len(rs) != 2 {
					c.Violate("cli:repair-pipeline:stream-records-lost", enc, "2 records", fmt.Sprintf("%d records err=%v", len(rs), err))
					continue
				}
			}
		}
		// a stream of the intact record followed by the joined pieces: each
		// record is repaired on its own.
		if it%2 == 1 {
			alone, ok1 := run([]string{"repair"}, []byte(input))
			if both, ok2 := run([]string{"repair"}, append([]byte(input), s2...)); ok1 && ok2 {
				c.Bucket("cli:repair stream of an intact record and a cut one")
				if !bytes.Equal(both, append(append([]byte{}, alone...), s3...)) {
					c.Violate("cli:repair-pipeline:stream-differs-from-records-alone", enc, clipS(string(alone)+string(s3), 2500), clipS(string(both), 2500))
					continue
				}
			}
		}
		outs, err := parseOut(s3)
		if err != nil || len(outs) != 1 {
			c.Violate("cli:repair-pipeline:output", enc, "1 readable record", fmt.Sprintf("%d records err=%v", len(outs), err))
			continue
		}
		if !bytes.Equal(outs[0].Bytes(), b) {
			c.Violate("cli:repair-pipeline:residues", enc, string(b), string(outs[0].Bytes()))
			continue
		}
		want := map[string]int{}
		for _, f := range gb.Table {
			want[fmt.Sprintf("%s %s %q", f.Key, f.Loc, f.Props)]++
		}
		got := map[string]int{}
		for _, f := range outs[0].Features() {
			got[fmt.Sprintf("%s %s %q", f.Key, f.Loc, f.Props)]++
		}
		if fmt.Sprint(sortedCounts(got)) != fmt.Sprint(sortedCounts(want)) {
			c.Violate("cli:repair-pipeline:table-not-restored", enc, fmt.Sprint(sortedCounts(want)), fmt.Sprint(sortedCounts(got)))
			continue
		}
		// the order of the table: the three commands are gts.Slice, gts.Concat
		// and gts.Repair and nothing else, so the pipeline lists the features as
		// the library composition does on the record gts read (whatever that
		// order is for a table that was not sorted).
		if ins, err := parseOut([]byte(input)); err == nil && len(ins) == 1 {
			var lib []gts.Feature
			p, _, _, _ := fw.Guard(func() {
				cat := gts.Concat(gts.Slice(ins[0], 0, cut), gts.Slice(ins[0], cut, gts.Len(ins[0])))
				lib = gts.Repair(cat.Features())
			})
			if !p && len(lib) == len(outs[0].Features()) {
				if w, g := fmt.Sprint(labelsOf(lib)), fmt.Sprint(labelsOf(outs[0].Features())); w != g {
					c.Violate("cli:repair-pipeline:table-order-differs-from-slice-concat-repair", enc, w, g)
				}
			}
		}
	}
}

// ---- C17: gts <cmd> -F fasta ----

// cliFasta runs pass-through and residue-wise commands with -F fasta on
// streams of GenBank records (lengths on the 70-column boundaries, a CONTIG-
// only record now and then) and judges the text: one FASTA record per input
// record, description = VERSION + " " + DEFINITION, residues as the command
// implies, exact 70-column layout; the FASTA text fed back through
// `gts clear -F fasta` comes out byte-identical.
func cliFasta(c *fw.Ctx) {
	env := cliLayerEnv(c, "c17")
	if env == nil {
		return
	}
	defer os.RemoveAll(env.Root)
	r := c.Rng
	defer cliFormatPlumbing(c, env)
	cmds := [][]string{{"clear"}, {"reverse"}, {"complement"}, {"select", "gene"}, {"sort"}, {"clear"}, {"pick", "1"}}
	lens := []int{1, 69, 70, 71, 139, 140, 141, 210}
	N := c.Pick(48, 600)
	for it := 0; it < N; it++ {
		c.NextOwn()
		seed := r.Int63()
		if c.Replaying() && c.Seq() != c.ReplaySeq {
			continue
		}
		rr := rand.New(rand.NewSource(seed))
		cmd := cmds[it%len(cmds)]
		k := 1 + rr.Intn(3)
		if cmd[0] == "sort" || cmd[0] == "pick" {
			k = 1 // the order of a sorted stream / which records are picked is not this property's subject
		}
		var stdin bytes.Buffer
		var wantD []string
		var wantR [][]byte
		var encs []string
		for i := 0; i < k; i++ {
			L := lens[rr.Intn(len(lens))]
			if rr.Intn(3) == 0 {
				L = 1 + rr.Intn(300)
			}
			gb, seq := cliRecord(rr, L, true)
			gb.Fields.Version = fmt.Sprintf("CLI%d.%d", i, 1+rr.Intn(9))
			gb.Fields.Definition = []string{"cli layer", "wrapped over\ntwo lines", "has > inside", "d"}[rr.Intn(4)]
			if cmd[0] == "clear" && rr.Intn(5) == 0 {
				// CONTIG-only record: no ORIGIN block, no residues.
				gb.Table = nil
				gb.Origin = seqio.NewOrigin(nil)
				gb.Fields.Contig = seqio.Contig{Accession: "NC_000913.3", Region: gts.Segment{0, L}}
				seq = []byte{}
				c.Bucket("cli:fasta CONTIG-only record")
			}
			stdin.WriteString(gb.String())
			wantD = append(wantD, gb.Fields.Version+" "+c17Flat(gb.Fields.Definition))
			want := append([]byte(nil), seq...)
			switch cmd[0] {
			case "reverse":
				for a, b := 0, len(want)-1; a < b; a, b = a+1, b-1 {
					want[a], want[b] = want[b], want[a]
				}
			case "complement":
				for j := range want {
					want[j] = model.ComplementByte(want[j])
				}
			}
			wantR = append(wantR, want)
			encs = append(encs, fmt.Sprintf("{%d residues ver=%q def=%q}", len(seq), gb.Fields.Version, gb.Fields.Definition))
			if len(seq)%70 == 0 && len(seq) > 0 {
				c.Bucket("cli:fasta len%70=0")
			}
		}
		args := append(append([]string{}, cmd...), "-F", "fasta")
		enc := fmt.Sprintf("cli: gts %s  records=%s seed=%d", strings.Join(args, " "), strings.Join(encs, " "), seed)
		c.Begin(enc)
		c.Count(enc, true)
		c.Bucket("cli:fasta " + cmd[0])
		if k > 1 {
			c.Bucket("cli:fasta stream")
		}
		res := env.Run(append(append([]string{}, args...), "--no-cache"), stdin.Bytes(), nil, 60*time.Second)
		if res.TimedOut || res.Exit != 0 {
			c.Violate("cli:fasta:exit-nonzero", enc, "exit 0", fmt.Sprintf("exit %d timeout=%v: %s", res.Exit, res.TimedOut, clipS(string(res.Stderr), 600)))
			continue
		}
		want := ""
		for i := range wantD {
			want += model.FastaRecord(wantD[i], wantR[i])
		}
		text := string(res.Stdout)
		if text != want {
			// the tolerated layout variants (blank line after an exact multiple
			// of 70, empty line for zero residues) are accepted record by record.
			got, err, bad := c17read(text, k+3)
			same := err == nil && bad == "" && len(got) == k
			for i := 0; same && i < k; i++ {
				same = got[i].desc == wantD[i] && bytes.Equal(got[i].data, wantR[i])
			}
			ok := same
			if same {
				rest := text
				for i := 0; i < k && ok; i++ {
					// cut the text at the next header line.
					end := strings.Index(rest[1:], "\n>")
					piece := rest
					if end >= 0 {
						piece, rest = rest[:end+2], rest[end+2:]
					} else {
						rest = ""
					}
					ok, _ = model.FastaLayoutOK(wantD[i], wantR[i], piece)
				}
			}
			if !ok {
				c.Violate("cli:fasta:output", enc, clipS(want, 1500), clipS(text, 1500))
				continue
			}
		}
		// -F decides the format, whatever the name of the -o file suggests.
		ext := []string{".gb", ".genbank", ".fasta", ".txt", ""}[rr.Intn(5)]
		outp := env.File("c17out" + ext)
		os.MkdirAll(filepath.Dir(outp), 0755)
		// the file exists already and holds more than this run will write.
		os.WriteFile(outp, bytes.Repeat([]byte(">left over from an earlier run\nnnnnnnnnnn\n"), 40+len(res.Stdout)/30), 0644)
		ro := env.Run(append(append([]string{}, args...), "--no-cache", "-o", outp), stdin.Bytes(), nil, 60*time.Second)
		ob, rerr := os.ReadFile(outp)
		os.Remove(outp)
		c.Bucket("cli:fasta -o")
		if ro.TimedOut || ro.Exit != 0 || rerr != nil || !bytes.Equal(ob, res.Stdout) {
			c.Violate("cli:fasta:-o-file-differs-from-stdout", enc+" -o c17out"+ext, clipS(text, 1200), fmt.Sprintf("exit %d err=%v: %s", ro.Exit, rerr, clipS(string(ob), 1200)))
			continue
		}
		if it%3 == 0 {
			cliCacheTwin(c, env, "cli:fasta", enc, append([]string{}, cmd...), args, stdin.Bytes())
		}
		// FASTA in, FASTA out.
		res2 := env.Run([]string{"clear", "-F", "fasta", "--no-cache"}, res.Stdout, nil, 60*time.Second)
		if res2.TimedOut || res2.Exit != 0 {
			c.Violate("cli:fasta:second-pass-exit-nonzero", enc, "exit 0", fmt.Sprintf("exit %d: %s", res2.Exit, clipS(string(res2.Stderr), 600)))
			continue
		}
		got2, err2, bad2 := c17read(string(res2.Stdout), k+3)
		same := err2 == nil && bad2 == "" && len(got2) == k
		for i := 0; same && i < k; i++ {
			same = got2[i].desc == wantD[i] && bytes.Equal(got2[i].data, wantR[i])
		}
		if !same {
			c.Violate("cli:fasta:second-pass", enc, clipS(want, 1500), clipS(string(res2.Stdout), 1500))
		}
	}
}

// cliFormatPlumbing: for every record-writing subcommand, -F decides the
// format and -o only the destination: `-F fasta` on stdout is well-formed
// FASTA, the same command with `-o name.ext` writes the same bytes to the file
// whatever ext suggests, and `-F genbank -o name.fasta` writes what
// `-F genbank` prints.
func cliFormatPlumbing(c *fw.Ctx, env *cli.Env) {
	r := c.Rng
	cmds := [][]string{{"delete", "gene"}, {"delete", "-e", "3..5"}, {"extract", "gene"}, {"extract", "-v", "CDS"}, {"rotate", "gene"}, {"split", "gene"},
		{"insert", "3", "@acgt"}, {"insert", "-e", "gene", "@acgt"}, {"define", "misc_feature", "1..2"}, {"search", "@acg"}, {"join"}, {"select", "-v", "CDS"}, {"pick", "1"}, {"sort", "-r"}}
	N := c.Pick(42, 420)
	for it := 0; it < N; it++ {
		c.NextOwn()
		seed := r.Int63()
		if c.Replaying() && c.Seq() != c.ReplaySeq {
			continue
		}
		rr := rand.New(rand.NewSource(seed))
		cmd := cmds[it%len(cmds)]
		var stdin bytes.Buffer
		var single, resid [][]byte
		for i, k := 0, 1+rr.Intn(3); i < k; i++ {
			gb, _ := cliRecord(rr, []int{20, 69, 70, 71, 140, 150}[rr.Intn(6)], true)
			gb.Fields.Version = fmt.Sprintf("PLB%d.1", i)
			if rr.Intn(5) == 0 {
				// a spacer: letters that are their own complement only.
				sp := make([]byte, gts.Len(gb))
				for j := range sp {
					sp[j] = "nnnnwsnNSW"[rr.Intn(10)]
				}
				gb.Origin = seqio.NewOrigin(sp)
				c.Bucket("cli:plumbing record of self-complementary letters")
			}
			if i > 0 && rr.Intn(2) == 0 {
				// a later record in which the usual selectors find nothing.
				gb.Table = nil
				if rr.Intn(2) == 0 {
					// and without residues: a CONTIG-only record.
					gb.Origin = seqio.NewOrigin(nil)
					gb.Fields.Contig = seqio.Contig{Accession: "U00096.3", Region: gts.Segment{0, 100}}
				}
			}
			stdin.WriteString(gb.String())
			single = append(single, []byte(gb.String()))
			resid = append(resid, append([]byte(nil), gb.Bytes()...))
		}
		enc := fmt.Sprintf("cli: gts %s with -F / -o variants, seed=%d", strings.Join(cmd, " "), seed)
		c.Begin(enc)
		run := func(extra ...string) cli.Result {
			return env.Run(append(append(append([]string{}, cmd...), extra...), "--no-cache"), stdin.Bytes(), nil, 60*time.Second)
		}
		fa := run("-F", "fasta")
		if fa.TimedOut || fa.Exit != 0 {
			c.Skip("gts " + cmd[0] + " does not process this record (judged elsewhere)")
			c.Count(enc, false)
			continue
		}
		c.Count(enc, true)
		c.Bucket("cli:plumbing " + cmd[0])
		// the commands that map records one by one: the FASTA text of a stream
		// is the text of its records alone, one after the other.
		if len(single) > 1 && cmd[0] != "join" && cmd[0] != "sort" && cmd[0] != "pick" {
			var cat []byte
			okAll := true
			for _, one := range single {
				r1 := env.Run(append(append(append([]string{}, cmd...), "-F", "fasta"), "--no-cache"), one, nil, 60*time.Second)
				if r1.TimedOut || r1.Exit != 0 {
					okAll = false
					break
				}
				cat = append(cat, r1.Stdout...)
			}
			if okAll {
				c.Bucket("cli:plumbing stream")
				if !bytes.Equal(cat, fa.Stdout) {
					c.Violate("cli:plumbing:stream-differs-from-records-alone:"+cmd[0], enc, string(clipB(cat, 1200)), string(clipB(fa.Stdout, 1200)))
					continue
				}
			}
		}
		text := string(fa.Stdout)
		if oneToOne := map[string]bool{"delete": true, "rotate": true, "insert": true, "define": true, "search": true, "select": true, "sort": true}[cmd[0]]; oneToOne {
			// one output record per input record, whatever it holds.
			got, err, bad := c17read(text, 64)
			if err != nil || bad != "" || len(got) != len(single) {
				c.Violate("cli:plumbing:record-count:"+cmd[0], enc, fmt.Sprintf("%d records", len(single)), fmt.Sprintf("%d records err=%v %s", len(got), err, bad))
				continue
			}
			// the commands that annotate or filter leave the residues alone.
			if cmd[0] == "define" || cmd[0] == "search" || cmd[0] == "select" {
				same := true
				for i := range got {
					if !bytes.Equal(got[i].data, resid[i]) {
						c.Violate("cli:plumbing:residues-changed:"+cmd[0], enc, string(clipB(resid[i], 200)), string(clipB(got[i].data, 200)))
						same = false
						break
					}
				}
				if !same {
					continue
				}
			}
		}
		if len(text) > 0 {
			got, err, bad := c17read(text, 64)
			ok := err == nil && bad == "" && text[0] == '>'
			rest := text
			for i := 0; ok && i < len(got); i++ {
				end := strings.Index(rest[1:], "\n>")
				piece := rest
				if end >= 0 {
					piece, rest = rest[:end+2], rest[end+2:]
				} else {
					rest = ""
				}
				ok, _ = model.FastaLayoutOK(got[i].desc, got[i].data, piece)
			}
			if !ok || rest != "" {
				c.Violate("cli:plumbing:-F-fasta-is-not-fasta:"+cmd[0], enc, "well-formed FASTA records", clipS(text, 1500))
				continue
			}
		}
		ext := []string{".gb", ".genbank", ".fasta", ".txt", ""}[rr.Intn(5)]
		outp := env.File("plumb" + ext)
		os.MkdirAll(filepath.Dir(outp), 0755)
		for _, f := range [][]string{{"-F", "fasta"}, {"-F", "genbank"}} {
			ref := fa
			if f[1] == "genbank" {
				ref = run(f...)
				if ref.TimedOut || ref.Exit != 0 {
					c.Violate("cli:plumbing:-F-genbank-fails:"+cmd[0], enc, "exit 0", fmt.Sprintf("exit %d %s", ref.Exit, clipS(string(ref.Stderr), 300)))
					break
				}
				if len(ref.Stdout) > 0 && !bytes.HasPrefix(ref.Stdout, []byte("LOCUS")) {
					c.Violate("cli:plumbing:-F-genbank-is-not-genbank:"+cmd[0], enc, "GenBank text", string(clipB(ref.Stdout, 300)))
					break
				}
			}
			os.WriteFile(outp, bytes.Repeat([]byte(">left over from an earlier run\nnnnnnnnnnn\n"), 40+len(ref.Stdout)/30), 0644)
			ro := run(append(append([]string{}, f...), "-o", outp)...)
			ob, rerr := os.ReadFile(outp)
			os.Remove(outp)
			if ro.TimedOut || ro.Exit != 0 || rerr != nil || !bytes.Equal(ob, ref.Stdout) {
				c.Violate("cli:plumbing:-o-file-differs-from-stdout:"+cmd[0], enc+fmt.Sprintf(" (%s -o plumb%s)", strings.Join(f, " "), ext), string(clipB(ref.Stdout, 600)), fmt.Sprintf("exit %d err=%v: %s", ro.Exit, rerr, clipB(ob, 600)))
				break
			}
			if len(ro.Stdout) != 0 {
				c.Violate("cli:plumbing:-o-also-prints:"+cmd[0], enc, "nothing on stdout", string(clipB(ro.Stdout, 300)))
				break
			}
		}
	}
}
