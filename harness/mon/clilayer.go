package mon

import (
	"bytes"
	"fmt"
	"math/rand"
	"os"
	"path/filepath"
	"regexp"
	"sort"
	"strings"
	"time"

	"github.com/go-gts/gts"
	"github.com/go-gts/gts/seqio"

	"verifharness/cli"
	"verifharness/fw"
	"verifharness/gen"
	"verifharness/model"
)

// The CLI layer: the properties C05, C12, C18 and C19 name gts reverse /
// complement, gts repair, gts search and gts select among their observation
// points. Their library semantics are judged by the library-level monitors;
// this layer runs the real binary (--no-cache) on generated records and judges
// its parsed output against the harness models, so that a defect in the
// command wiring (option handling, which filter / function is applied, state
// kept between records) is observed too. It is skipped (with a note) when the
// binary is not available.

func cliLayerEnv(c *fw.Ctx, tag string) *cli.Env {
	bin := os.Getenv("GTS_BIN")
	if bin == "" {
		c.Note("CLI layer skipped: GTS_BIN not set")
		return nil
	}
	env, err := cli.New(bin, filepath.Join(c.WorkDir, fmt.Sprintf("%s-cli-%d", tag, c.Shard)))
	if err != nil {
		c.Note("CLI layer skipped: " + err.Error())
		return nil
	}
	return env
}

// cliRecord builds a GenBank record with uniquely labelled features over
// forward/complement ranges and joins.
func cliRecord(r *rand.Rand, L int, iupac bool) (seqio.GenBank, []byte) {
	b := make([]byte, L)
	letters := "acgt"
	if iupac {
		letters = "acgtacgtacgtnrykm"
	}
	for i := range b {
		b[i] = letters[r.Intn(len(letters))]
	}
	o := gen.LocOpt{L: L, MaxParts: 3, MaxDepth: 2}
	var tab []gts.Feature
	keys := []string{"gene", "CDS", "misc_feature", "exon"}
	for i, n := 0, 1+r.Intn(7); i < n; i++ {
		loc := gen.RandLoc(r, o)
		if _, ok := loc.(gts.Ordered); ok {
			loc = gts.Range(0, 1+r.Intn(L))
		}
		p := gts.Props{{"label", fmt.Sprintf("h%d", i)}}
		if r.Intn(2) == 0 {
			p.Add("note", []string{"alpha", "beta", "alpha beta"}[r.Intn(3)])
		}
		tab = append(tab, gts.Feature{Key: keys[r.Intn(len(keys))], Loc: loc, Props: p})
	}
	if r.Intn(2) == 0 {
		tab = append(tab, gts.Feature{Key: "source", Loc: gts.Range(0, L), Props: gts.Props{{"label", "src"}}})
	}
	gb := seqio.GenBank{Fields: seqio.GenBankFields{LocusName: "CLI", Molecule: gts.DNA, Topology: gts.Linear, Division: "SYN",
		Date: seqio.Date{Year: 2022, Month: 5, Day: 6}, Definition: "cli layer", Accession: "CLI1", Version: "CLI1.1",
		Source: seqio.Organism{Species: "synthetic construct", Name: "synthetic construct"}},
		Table: gen.SortedTable(tab), Origin: seqio.NewOrigin(b)}
	return gb, b
}

func labelsOf(ff []gts.Feature) []string {
	out := make([]string, len(ff))
	for i, f := range ff {
		out[i] = gen.Label(f)
	}
	return out
}

func runCLI(c *fw.Ctx, env *cli.Env, cls, enc string, args []string, stdin []byte) ([]gts.Sequence, bool) {
	res := env.Run(append(append([]string{}, args...), "--no-cache"), stdin, nil, 60*time.Second)
	if res.TimedOut {
		c.Violate(cls+":hang", enc, "terminates", "watchdog expired")
		return nil, false
	}
	if res.Exit != 0 {
		c.Violate(cls+":exit-nonzero", enc, "exit 0", fmt.Sprintf("exit %d: %s", res.Exit, clipS(string(res.Stderr), 600)))
		return nil, false
	}
	outs, err := parseOut(res.Stdout)
	if err != nil {
		c.Violate(cls+":output-not-readable", enc, "read back", err.Error())
		return nil, false
	}
	return outs, true
}

// ---- C19: gts select ----

func cliSelect(c *fw.Ctx) {
	env := cliLayerEnv(c, "c19")
	if env == nil {
		return
	}
	defer os.RemoveAll(env.Root)
	r := c.Rng
	N := c.Pick(40, 600)
	for it := 0; it < N; it++ {
		c.NextOwn()
		seed := r.Int63()
		if c.Replaying() && c.Seq() != c.ReplaySeq {
			continue
		}
		rr := rand.New(rand.NewSource(seed))
		nrec := 1 + rr.Intn(2)
		var recs []seqio.GenBank
		var text []byte
		for k := 0; k < nrec; k++ {
			gb, _ := cliRecord(rr, 30+rr.Intn(30), false)
			recs = append(recs, gb)
			text = append(text, gb.String()...)
		}
		type sel struct {
			key string
			re  *regexp.Regexp
			str string
		}
		var sels []sel
		for k, n := 0, 1+rr.Intn(2); k < n; k++ {
			s := sel{}
			if rr.Intn(3) != 0 {
				s.key = []string{"gene", "CDS", "misc_feature", "exon"}[rr.Intn(4)]
			}
			s.str = s.key
			switch rr.Intn(3) {
			case 0:
				pat := fmt.Sprintf("^h[%d-%d]$", rr.Intn(3), 3+rr.Intn(4))
				s.re = regexp.MustCompile(pat)
				s.str += "/label=" + pat
			case 1:
				if s.key == "" {
					s.key = "gene"
					s.str = "gene"
				}
			default:
				pat := "alpha"
				s.re = regexp.MustCompile(pat)
				s.str += "/note=" + pat
			}
			sels = append(sels, s)
		}
		strand := []string{"", "both", "forward", "reverse"}[rr.Intn(4)]
		invert := rr.Intn(3) == 0
		args := []string{"select"}
		for _, s := range sels {
			args = append(args, s.str)
		}
		if strand != "" {
			args = append(args, "-s", strand)
		}
		if invert {
			args = append(args, "-v")
		}
		enc := fmt.Sprintf("cli: gts %s  on %d record(s)", strings.Join(args, " "), nrec)
		for _, gb := range recs {
			enc += "\n  F=["
			for _, f := range gb.Table {
				enc += fmt.Sprintf("%s %s %s %v;", f.Key, gen.Label(f), model.SafeString(f.Loc), f.Props)
			}
			enc += "]"
		}
		c.Begin(enc)
		c.Count(enc, true)
		c.Bucket("cli:select")
		if invert {
			c.Bucket("cli:select -v")
		}
		if strand == "forward" || strand == "reverse" {
			c.Bucket("cli:select -s")
		}
		outs, ok := runCLI(c, env, "cli:select", enc, args, text)
		if !ok {
			continue
		}
		if len(outs) != nrec {
			c.Violate("cli:select:record-count", enc, fmt.Sprint(nrec), fmt.Sprint(len(outs)))
			continue
		}
		for k, gb := range recs {
			var want []string
			for _, f := range gb.Table {
				hit := false
				for _, s := range sels {
					if s.key != "" && f.Key != s.key {
						continue
					}
					if s.re != nil {
						name := "label"
						if strings.Contains(s.str, "/note=") {
							name = "note"
						}
						m := false
						for _, v := range f.Props.Get(name) {
							if s.re.MatchString(v) {
								m = true
							}
						}
						if !m {
							continue
						}
					}
					hit = true
				}
				keep := f.Key == "source" || (hit != invert)
				st := strandOf(model.Parts(f.Loc))
				switch strand {
				case "forward":
					keep = keep && st == "fwd"
				case "reverse":
					keep = keep && st == "rev"
				}
				if keep {
					want = append(want, gen.Label(f))
				}
			}
			got := labelsOf(outs[k].Features())
			if fmt.Sprint(got) != fmt.Sprint(want) {
				c.Violate("cli:select:features", enc, fmt.Sprintf("record %d: %v", k+1, want), fmt.Sprint(got))
				break
			}
			if !bytes.Equal(outs[k].Bytes(), gb.Bytes()) {
				c.Violate("cli:select:residues", enc, string(gb.Bytes()), string(outs[k].Bytes()))
				break
			}
		}
	}
}

// ---- C18: gts search ----

func cliSearch(c *fw.Ctx) {
	env := cliLayerEnv(c, "c18")
	if env == nil {
		return
	}
	defer os.RemoveAll(env.Root)
	r := c.Rng
	kdev := c.KFEnabled("match-k-row")
	N := c.Pick(40, 600)
	for it := 0; it < N; it++ {
		c.NextOwn()
		seed := r.Int63()
		if c.Replaying() && c.Seq() != c.ReplaySeq {
			continue
		}
		rr := rand.New(rand.NewSource(seed))
		L := 30 + rr.Intn(50)
		gb, seq := cliRecord(rr, L, true)
		qa := "acgtn"
		if rr.Intn(3) == 0 {
			qa = "acgtryn"
		}
		q := make([]byte, 2+rr.Intn(3))
		for i := range q {
			q[i] = qa[rr.Intn(len(qa))]
		}
		if rr.Intn(2) == 0 {
			// take the query from the sequence so there is at least one hit.
			a := rr.Intn(L - len(q))
			copy(q, seq[a:a+len(q)])
		}
		exact := rr.Intn(3) == 0
		nocomp := rr.Intn(3) == 0
		key := "misc_feature"
		args := []string{"search", "@" + string(q)}
		if exact {
			args = append(args, "-e")
		}
		if nocomp {
			args = append(args, "--no-complement")
		}
		if rr.Intn(3) == 0 {
			key = "primer_bind"
			args = append(args, "-k", key)
		}
		args = append(args, "-q", "label=hit")
		enc := fmt.Sprintf("cli: gts %s  seq=%q", strings.Join(args, " "), seq)
		c.Begin(enc)
		c.Count(enc, true)
		c.Bucket("cli:search")
		if exact {
			c.Bucket("cli:search -e")
		}
		if nocomp {
			c.Bucket("cli:search --no-complement")
		}
		// sequence letters outside the query n don't-care do not occur (IUPAC only).
		find := func(s []byte) [][2]int {
			if exact {
				var out [][2]int
				ls, lq := bytes.ToLower(s), bytes.ToLower(q)
				for i := 0; i+len(lq) <= len(ls); i++ {
					if bytes.Equal(ls[i:i+len(lq)], lq) {
						out = append(out, [2]int{i, i + len(lq)})
					}
				}
				return out
			}
			return c18Scan(s, q, kdev, false)
		}
		want := map[string]int{}
		for _, m := range find(seq) {
			want[gts.Range(m[0], m[1]).String()]++
		}
		if !nocomp {
			rc := make([]byte, L)
			for i := range seq {
				rc[L-1-i] = model.ComplementByte(seq[i])
			}
			for _, m := range find(rc) {
				want[gts.Range(L-m[1], L-m[0]).Complement().String()]++
			}
		}
		outs, ok := runCLI(c, env, "cli:search", enc, args, []byte(gb.String()))
		if !ok {
			continue
		}
		if len(outs) != 1 {
			c.Violate("cli:search:record-count", enc, "1", fmt.Sprint(len(outs)))
			continue
		}
		got := map[string]int{}
		orig := 0
		for _, f := range outs[0].Features() {
			if gen.Label(f) == "hit" {
				if f.Key != key {
					c.Violate("cli:search:feature-key", enc, key, f.Key)
				}
				got[f.Loc.String()]++
			} else {
				orig++
			}
		}
		if orig != len(gb.Table) {
			c.Violate("cli:search:original-features-changed", enc, fmt.Sprint(len(gb.Table)), fmt.Sprint(orig))
			continue
		}
		if fmt.Sprint(sortedCounts(got)) != fmt.Sprint(sortedCounts(want)) {
			c.Violate("cli:search:hits", enc, fmt.Sprint(sortedCounts(want)), fmt.Sprint(sortedCounts(got)))
		}
	}
}

func sortedCounts(m map[string]int) []string {
	var out []string
	for k, n := range m {
		out = append(out, fmt.Sprintf("%s x%d", k, n))
	}
	sort.Strings(out)
	return out
}

// ---- C05: gts reverse / gts complement ----

func cliReverseComplement(c *fw.Ctx) {
	env := cliLayerEnv(c, "c05")
	if env == nil {
		return
	}
	defer os.RemoveAll(env.Root)
	r := c.Rng
	N := c.Pick(40, 500)
	for it := 0; it < N; it++ {
		c.NextOwn()
		seed := r.Int63()
		if c.Replaying() && c.Seq() != c.ReplaySeq {
			continue
		}
		rr := rand.New(rand.NewSource(seed))
		nrec := 1 + rr.Intn(2)
		var recs []seqio.GenBank
		var seqs [][]byte
		var text []byte
		for k := 0; k < nrec; k++ {
			gb, b := cliRecord(rr, 20+rr.Intn(40), true)
			recs = append(recs, gb)
			seqs = append(seqs, b)
			text = append(text, gb.String()...)
		}
		cmd := []string{"reverse", "complement"}[it%2]
		enc := fmt.Sprintf("cli: gts %s on %d record(s)", cmd, nrec)
		for k, gb := range recs {
			enc += fmt.Sprintf("\n  seq=%q F=[", seqs[k])
			for _, f := range gb.Table {
				enc += fmt.Sprintf("%s %s;", gen.Label(f), model.SafeString(f.Loc))
			}
			enc += "]"
		}
		c.Begin(enc)
		c.Count(enc, true)
		c.Bucket("cli:" + cmd)
		outs, ok := runCLI(c, env, "cli:"+cmd, enc, []string{cmd}, text)
		if !ok {
			continue
		}
		if len(outs) != nrec {
			c.Violate("cli:"+cmd+":record-count", enc, fmt.Sprint(nrec), fmt.Sprint(len(outs)))
			continue
		}
		for k, gb := range recs {
			L := len(seqs[k])
			want := make([]byte, L)
			for i, b := range seqs[k] {
				if cmd == "reverse" {
					want[L-1-i] = b
				} else {
					want[i] = model.ComplementByte(b)
				}
			}
			if !bytes.Equal(outs[k].Bytes(), want) {
				c.Violate("cli:"+cmd+":residues", enc, string(want), string(outs[k].Bytes()))
				break
			}
			got := map[string]gts.Feature{}
			for _, f := range outs[k].Features() {
				got[gen.Label(f)] = f
			}
			bad := false
			for _, f := range gb.Table {
				g, ok := got[gen.Label(f)]
				if !ok || len(outs[k].Features()) != len(gb.Table) {
					c.Violate("cli:"+cmd+":feature-missing", enc, gen.Label(f), fmt.Sprint(labelsOf(outs[k].Features())))
					bad = true
					break
				}
				before := model.Parts(f.Loc)
				if cmd == "reverse" {
					v, why, id, exp := compareMirror(c, before, model.Parts(g.Loc), L)
					if v == model.VKnown {
						c.Known(id, enc)
					} else if v == model.VBad {
						c.Violate("cli:reverse:loc:"+why, enc, model.XPartsString(exp), model.SafeString(g.Loc))
						bad = true
						break
					}
				} else {
					var want []model.Part
					for j := len(before) - 1; j >= 0; j-- {
						q := before[j]
						q.Rev = !q.Rev
						want = append(want, q)
					}
					if !model.EqualAtoms(model.Atoms(want), model.Atoms(model.Parts(g.Loc))) {
						c.Violate("cli:complement:loc", enc, model.PartsString(want), model.SafeString(g.Loc))
						bad = true
						break
					}
				}
			}
			if bad {
				break
			}
		}
	}
}

// ---- C12: gts split | gts join | gts repair ----

func cliRepair(c *fw.Ctx) {
	env := cliLayerEnv(c, "c12")
	if env == nil {
		return
	}
	defer os.RemoveAll(env.Root)
	r := c.Rng
	N := c.Pick(30, 400)
	for it := 0; it < N; it++ {
		c.NextOwn()
		seed := r.Int63()
		if c.Replaying() && c.Seq() != c.ReplaySeq {
			continue
		}
		rr := rand.New(rand.NewSource(seed))
		L := 40 + rr.Intn(40)
		b := make([]byte, L)
		for i := range b {
			b[i] = "acgt"[rr.Intn(4)]
		}
		// core domain: forward contiguous ranges (partial or complete), unique labels.
		var tab []gts.Feature
		for i, n := 0, 1+rr.Intn(6); i < n; i++ {
			s := rr.Intn(L - 1)
			e := s + 1 + rr.Intn(L-s)
			pt := gts.Partial{Partial5: rr.Intn(5) == 0, Partial3: rr.Intn(5) == 0}
			tab = append(tab, gts.Feature{Key: []string{"gene", "CDS", "exon"}[rr.Intn(3)], Loc: gts.PartialRange(s, e, pt), Props: gts.Props{{"label", fmt.Sprintf("h%d", i)}}})
		}
		gb := seqio.GenBank{Fields: seqio.GenBankFields{LocusName: "REP", Molecule: gts.DNA, Topology: gts.Linear, Division: "SYN",
			Date: seqio.Date{Year: 2022, Month: 5, Day: 6}, Definition: "repair", Accession: "REP1", Version: "REP1.1"},
			Table: gen.SortedTable(tab), Origin: seqio.NewOrigin(b)}
		cut := 1 + rr.Intn(L-1)
		enc := fmt.Sprintf("cli: gts split %d | gts join | gts repair  seq=%q F=[", cut+1, b)
		for _, f := range gb.Table {
			enc += fmt.Sprintf("%s %s %s;", f.Key, gen.Label(f), model.SafeString(f.Loc))
		}
		enc += "]"
		c.Begin(enc)
		c.Count(enc, true)
		c.Bucket("cli:repair")
		run := func(args []string, in []byte) ([]byte, bool) {
			res := env.Run(append(args, "--no-cache"), in, nil, 60*time.Second)
			if res.TimedOut || res.Exit != 0 {
				c.Violate("cli:repair-pipeline:"+args[0]+"-fails", enc, "exit 0", fmt.Sprintf("exit %d %s", res.Exit, clipS(string(res.Stderr), 500)))
				return nil, false
			}
			return res.Stdout, true
		}
		s1, ok := run([]string{"split", fmt.Sprint(cut + 1)}, []byte(gb.String()))
		if !ok {
			continue
		}
		s2, ok := run([]string{"join"}, s1)
		if !ok {
			continue
		}
		s3, ok := run([]string{"repair"}, s2)
		if !ok {
			continue
		}
		outs, err := parseOut(s3)
		if err != nil || len(outs) != 1 {
			c.Violate("cli:repair-pipeline:output", enc, "1 readable record", fmt.Sprintf("%d records err=%v", len(outs), err))
			continue
		}
		if !bytes.Equal(outs[0].Bytes(), b) {
			c.Violate("cli:repair-pipeline:residues", enc, string(b), string(outs[0].Bytes()))
			continue
		}
		want := map[string]int{}
		for _, f := range gb.Table {
			want[fmt.Sprintf("%s %s %s", f.Key, gen.Label(f), f.Loc)]++
		}
		got := map[string]int{}
		for _, f := range outs[0].Features() {
			got[fmt.Sprintf("%s %s %s", f.Key, gen.Label(f), f.Loc)]++
		}
		if fmt.Sprint(sortedCounts(got)) != fmt.Sprint(sortedCounts(want)) {
			c.Violate("cli:repair-pipeline:table-not-restored", enc, fmt.Sprint(sortedCounts(want)), fmt.Sprint(sortedCounts(got)))
		}
	}
}
