package mon

import (
	"bytes"
	"fmt"
	"reflect"
	"regexp"
	"sort"
	"strings"

	"github.com/go-gts/gts"

	"verifharness/fw"
	"verifharness/gen"
	"verifharness/model"
)

// C18 — Alphabet operations follow IUPAC semantics; search is sound and
// complete.
//
// The reference model is the 16-entry IUPAC nucleotide table below (letter ->
// set of bases over {A,C,G,T}, U read as T), written from the IUPAC-IUB 1984
// nomenclature, plus brute-force scans. Nothing here calls into /repo except
// the four functions under observation.

type c18 struct{ base }

func init() { register(c18{}) }

func (c18) ID() string { return "C18" }

func (c18) Rule() string {
	return "systematic (every shard enumerates, shared sharding): Complement and Transcribe on every byte value 0..255 alone and embedded, on the 256-byte sequence in ascending and two permuted orders; Match on all 32x32 single-letter cells (query letter x sequence letter, IUPAC alphabet acgturyswkmbdhvn in both cases) and every query letter against permutations of the whole alphabet; every ASCII byte outside the alphabet as a one-byte query (and in front of 'r') against sequences holding all 128 ASCII bytes; Match and Search on ALL sequences up to length Ls and ALL queries up to length Lq over the small-alphabet universes listed in c18Universes (plain bases, ambiguity codes, the k row, mixed case, a literal '-', and the regexp metacharacters . + * ? ( ) [ ] \\ | ^ $ { }); empty sequence/query combinations. seeded (per shard): random Complement/Transcribe inputs over all byte values with feature tables (BasicSequence and GenBank hosts), random Match/Search cases of length <= 120 (periodic, mixed-case, ambiguity-generalised queries cut from the sequence) and random cases over the combined 19-symbol alphabet. Oracle: IUPAC base-set table; Complement/Transcribe byte-by-byte from the complementary set, length, involution up to U, feature i keeps key/qualifiers and denotes the same parts on the other strand; Match judged against the statement directly (every reported segment has query length, lies inside, is not contradicted by any cell, list ascending and non-overlapping, every definitely matching window is reported or overlaps an earlier reported segment) and, when no don't-care cell (query n against a sequence byte outside the alphabet) is involved, equal to the leftmost non-overlapping scan; Search equal to the brute-force list of all case-folded occurrences, ascending. non-trivial: Complement/Transcribe input holds an IUPAC letter; a table cell always; other Match/Search cases when the oracle expects at least one segment; distinct: canonical case text. Sequences spelled with u are searched with the t spelling of their own stretches of 6..15 letters (and the reverse); gts search with a query file is re-run with the cache on after the same command line whose query file held the same letters cut into records differently. A sequence holding well-formed two- and three-byte UTF-8 runs (every byte is a residue); every other Match/Search call reuses the buffer of that length from an earlier call; gts search on spacer records spelled with n/s/w only. Search on a sequence of 2 MiB + 70 with the query planted at both ends, across the 2^20 mark, ending on and starting on the 2^21 mark: each occurrence once. gts search on records that equal their own reverse complement."
}

func (c18) RequiredBuckets(tier string) []string {
	return append([]string{
		"complement:all-256", "transcribe:all-256", "complement:features", "complement:involution",
		"match-table:cell", "match-table:row", "literal-bytes", "metachar-queries",
		"match:multi", "match:overlap-suppressed", "match:ambiguity", "match:case-fold",
		"search:overlapping", "search:case-fold", "search:hit", "search:no-hit", "empty-inputs", "multi:long-query-in-the-other-spelling-of-t/u", "search:sequence-of-several-MiB",
	}, "cli:search", "cli:search -e", "cli:search --no-complement", "cli:search RNA record", "cli:search stream", "cli:search query file", "cli:search several queries", "cli:search query longer than a record", "cli:search cache-on", "cli:search cache-on after another query file", "cli:search record of self-complementary letters", "cli:search record equal to its reverse complement", "cli:search query starting with @")
}

const (
	c18KRow     = "match-k-row"
	c18Unquoted = "match-query-bytes-unquoted"
)

func (c18) Findings() []fw.Finding {
	return []fw.Finding{
		{ID: c18KRow, What: "Match: query letter k (G or T) matches the sequence letters {g,t,u,y} instead of {g,t,u,k}", Witness: func() (bool, string) {
			obs, p, val, _, _ := c18Call("Match", []byte("gtuyk"), []byte("k"))
			if p {
				return true, fmt.Sprintf("Match(gtuyk, k) panicked: %v", val)
			}
			want := [][2]int{{0, 1}, {1, 2}, {2, 3}, {4, 5}}
			return !reflect.DeepEqual(obs, want), fmt.Sprintf("Match(seq gtuyk, query k) = %v, want %v", obs, want)
		}},
		{ID: c18Unquoted, What: "Match: query bytes outside the alphabet are pasted into a regular expression unquoted (panic on ( ) [ * + ? \\, wildcard/anchor/alternation semantics for . ^ $ |)", Witness: func() (bool, string) {
			_, p, val, _, _ := c18Call("Match", []byte("a(c"), []byte("("))
			obs, p2, val2, _, _ := c18Call("Match", []byte("a.c"), []byte("."))
			want := [][2]int{{1, 2}}
			s := ""
			if p {
				s = fmt.Sprintf("Match(seq a(c, query '(') panics: %v; ", val)
			} else {
				s = "Match(seq a(c, query '(') does not panic; "
			}
			if p2 {
				s += fmt.Sprintf("Match(seq a.c, query '.') panics: %v", val2)
			} else {
				s += fmt.Sprintf("Match(seq a.c, query '.') = %v, want %v", obs, want)
			}
			return p || p2 || !reflect.DeepEqual(obs, want), s
		}},
	}
}

// ---------------------------------------------------------------------------
// The IUPAC table.

const (
	c18A = 1 << iota
	c18C
	c18G
	c18T
)

// c18Letters lists the 16 letters; c18Bases gives the bases each denotes.
const c18Letters = "acgturyswkmbdhvn"

var c18Bases = map[byte]uint8{
	'a': c18A,                      // Adenine
	'c': c18C,                      // Cytosine
	'g': c18G,                      // Guanine
	't': c18T,                      // Thymine
	'u': c18T,                      // Uracil, read as T
	'r': c18A | c18G,               // puRine
	'y': c18C | c18T,               // pYrimidine
	's': c18C | c18G,               // Strong
	'w': c18A | c18T,               // Weak
	'k': c18G | c18T,               // Keto
	'm': c18A | c18C,               // aMino
	'b': c18C | c18G | c18T,        // not A
	'd': c18A | c18G | c18T,        // not C
	'h': c18A | c18C | c18T,        // not G
	'v': c18A | c18C | c18G,        // not T
	'n': c18A | c18C | c18G | c18T, // aNy
}

func c18Fold(b byte) byte {
	if b >= 'A' && b <= 'Z' {
		return b + 'a' - 'A'
	}
	return b
}

func c18FoldAll(p []byte) []byte {
	q := make([]byte, len(p))
	for i, b := range p {
		q[i] = c18Fold(b)
	}
	return q
}

// c18Set returns the base set of a byte and whether it is an IUPAC letter.
func c18Set(b byte) (uint8, bool) {
	s, ok := c18Bases[c18Fold(b)]
	return s, ok
}

// c18CompSet is the set of the complementary bases (A<->T, C<->G).
func c18CompSet(s uint8) uint8 {
	var o uint8
	if s&c18A != 0 {
		o |= c18T
	}
	if s&c18T != 0 {
		o |= c18A
	}
	if s&c18C != 0 {
		o |= c18G
	}
	if s&c18G != 0 {
		o |= c18C
	}
	return o
}

// c18LetterOf names a base set (lower case; {T} is t, never u).
func c18LetterOf(s uint8) byte {
	for i := 0; i < len(c18Letters); i++ {
		l := c18Letters[i]
		if l != 'u' && c18Bases[l] == s {
			return l
		}
	}
	return 0
}

// c18ExpectComp is the expected image of one byte under Complement (rna=false)
// or Transcribe (rna=true).
func c18ExpectComp(b byte, rna bool) byte {
	s, ok := c18Set(b)
	if !ok {
		return b
	}
	l := c18LetterOf(c18CompSet(s))
	if rna && l == 't' {
		l = 'u'
	}
	if b >= 'A' && b <= 'Z' {
		l = l - 'a' + 'A'
	}
	return l
}

// ---------------------------------------------------------------------------
// Match model.

const (
	c18No = iota
	c18Yes
	c18DC
)

// c18Cell: may query byte q be reported against sequence byte s? kdev swaps in
// the deviation row of the known finding match-k-row.
func c18Cell(q, s byte, kdev bool) int {
	qs, qok := c18Set(q)
	ss, sok := c18Set(s)
	if !qok {
		// a literal matches only itself (case folded like everything else).
		if c18Fold(q) == c18Fold(s) {
			return c18Yes
		}
		return c18No
	}
	if !sok {
		if c18Fold(q) == 'n' {
			return c18DC
		}
		return c18No
	}
	if kdev && c18Fold(q) == 'k' {
		if strings.IndexByte("gtuy", c18Fold(s)) >= 0 {
			return c18Yes
		}
		return c18No
	}
	if ss&^qs == 0 {
		return c18Yes
	}
	return c18No
}

func c18Window(seq, q []byte, p int, kdev bool) int {
	r := c18Yes
	for j := range q {
		switch c18Cell(q[j], seq[p+j], kdev) {
		case c18No:
			return c18No
		case c18DC:
			r = c18DC
		}
	}
	return r
}

// c18Scan is the leftmost non-overlapping scan; don't-care windows count as
// matches iff dcYes.
func c18Scan(seq, q []byte, kdev, dcYes bool) [][2]int {
	var out [][2]int
	m := len(q)
	if m == 0 {
		return nil
	}
	for p := 0; p+m <= len(seq); {
		w := c18Window(seq, q, p, kdev)
		if w == c18Yes || (w == c18DC && dcYes) {
			out = append(out, [2]int{p, p + m})
			p += m
		} else {
			p++
		}
	}
	return out
}

func c18HasDC(seq, q []byte) bool {
	hasN := false
	for _, b := range q {
		if c18Fold(b) == 'n' {
			hasN = true
		}
	}
	if !hasN {
		return false
	}
	for _, b := range seq {
		if _, ok := c18Set(b); !ok {
			return true
		}
	}
	return false
}

// c18Judge checks an observed Match result against the statement. It returns
// "" when nothing is wrong, else a static reason and a detail.
func c18Judge(seq, q []byte, obs [][2]int, kdev bool) (reason, detail string) {
	m := len(q)
	if m == 0 || len(seq) == 0 {
		if len(obs) != 0 {
			return "nonempty-on-empty-input", "a result for an empty query or sequence"
		}
		return "", ""
	}
	reported := map[int]bool{}
	prevEnd := 0
	for i, g := range obs {
		if g[0] < 0 || g[1] > len(seq) || g[1]-g[0] != m {
			return "segment-shape", fmt.Sprintf("segment %v is not a window of query length %d inside [0,%d]", g, m, len(seq))
		}
		if i > 0 && g[0] < prevEnd {
			return "overlapping-or-unordered", fmt.Sprintf("segment %v starts before the end of the previously reported one (%d)", g, prevEnd)
		}
		if c18Window(seq, q, g[0], kdev) == c18No {
			return "unsound-segment", fmt.Sprintf("segment %v = %q: some sequence letter's base set is not contained in the query letter's", g, seq[g[0]:g[1]])
		}
		prevEnd = g[1]
		reported[g[0]] = true
	}
	for p := 0; p+m <= len(seq); p++ {
		if reported[p] || c18Window(seq, q, p, kdev) != c18Yes {
			continue
		}
		covered := false
		for _, g := range obs {
			if g[0] < p && g[1] > p {
				covered = true
			}
		}
		if !covered {
			return "missed-segment", fmt.Sprintf("window [%d,%d) = %q matches and overlaps no earlier reported segment", p, p+m, seq[p:p+m])
		}
	}
	if !c18HasDC(seq, q) {
		want := c18Scan(seq, q, kdev, false)
		if !c18SegEq(obs, want) {
			return "differs-from-scan", "differs from the leftmost non-overlapping scan"
		}
	}
	return "", ""
}

func c18SegEq(a, b [][2]int) bool {
	if len(a) != len(b) {
		return false
	}
	for i := range a {
		if a[i] != b[i] {
			return false
		}
	}
	return true
}

// Deviation model of the finding match-query-bytes-unquoted: the query is
// turned into a Go regular expression in which IUPAC letters are spelled as
// the character classes below, n as '.', and every other byte is pasted raw.
var c18Spelling = map[byte]string{
	't': "tu", 'u': "tu", 'r': "agr", 'y': "ctuy", 'k': "gtuk", 'm': "acm", 's': "cgs", 'w': "atuw",
	'b': "cgtuyksb", 'd': "agturkwd", 'h': "actuymwh", 'v': "acgrmsv",
}

// c18SpellingOK cross-checks the spelled classes against the base-set table.
func c18SpellingOK() string {
	for l, sp := range c18Spelling {
		for i := 0; i < len(c18Letters); i++ {
			s := c18Letters[i]
			in := strings.IndexByte(sp, s) >= 0
			if in != (c18Cell(l, s, false) == c18Yes) {
				return fmt.Sprintf("spelled class of %c disagrees with the base-set table at %c", l, s)
			}
		}
	}
	return ""
}

func c18IsMeta(b byte) bool {
	if _, ok := c18Set(b); ok {
		return false
	}
	return regexp.QuoteMeta(string([]byte{b})) != string([]byte{b})
}

func c18HasMeta(q []byte) bool {
	for _, b := range q {
		if c18IsMeta(b) {
			return true
		}
	}
	return false
}

func c18HasK(q []byte) bool {
	for _, b := range q {
		if c18Fold(b) == 'k' {
			return true
		}
	}
	return false
}

func c18RawPattern(q []byte, kdev bool) string {
	var sb strings.Builder
	for _, b := range c18FoldAll(q) {
		switch {
		case b == 'n':
			sb.WriteByte('.')
		case b == 'k' && kdev:
			sb.WriteString("[gtuy]")
		case c18Spelling[b] != "":
			sb.WriteString("[" + c18Spelling[b] + "]")
		default:
			sb.WriteByte(b)
		}
	}
	return sb.String()
}

// c18RawPredict: what the raw-paste deviation produces (compile error, or the
// list of all leftmost matches of the pattern in the folded sequence).
func c18RawPredict(seq, q []byte, kdev bool) (compileErr bool, segs [][2]int) {
	re, err := regexp.Compile(c18RawPattern(q, kdev))
	if err != nil {
		return true, nil
	}
	for _, p := range re.FindAllIndex(c18FoldAll(seq), -1) {
		segs = append(segs, [2]int{p[0], p[1]})
	}
	return false, segs
}

// ---------------------------------------------------------------------------
// Calls into the code under observation.

func c18Call(op string, seq, q []byte) (obs [][2]int, panicked bool, val interface{}, site, stack string) {
	var s, qq gts.Sequence
	if seq == nil {
		s = gts.New(nil, nil, nil)
	} else if c18CallTick++; c18CallTick%2 == 0 && len(seq) > 0 {
		// a buffer of that length that held another sequence in an earlier call
		// (a caller refilling one buffer): the answer is about what it holds now.
		buf := c18Buffers[len(seq)]
		if buf == nil {
			buf = make([]byte, len(seq))
			c18Buffers[len(seq)] = buf
		}
		copy(buf, seq)
		s = gts.New(nil, nil, buf)
	} else {
		s = gts.New(nil, nil, append([]byte{}, seq...))
	}
	if q == nil {
		qq = gts.New(nil, nil, nil)
	} else {
		qq = gts.New(nil, nil, append([]byte{}, q...))
	}
	var segs []gts.Segment
	panicked, val, site, stack = fw.Guard(func() {
		if op == "Match" {
			segs = gts.Match(s, qq)
		} else {
			segs = gts.Search(s, qq)
		}
	})
	for _, g := range segs {
		obs = append(obs, [2]int{g[0], g[1]})
	}
	c18LastSegs = segs
	// searching reads its arguments: the sequence and the query hold the same
	// bytes afterwards (the gts search command writes the record back).
	c18ArgChanged = ""
	if !panicked {
		if !bytes.Equal(s.Bytes(), seq) {
			c18ArgChanged = fmt.Sprintf("the sequence reads %q after the call", s.Bytes())
		} else if !bytes.Equal(qq.Bytes(), q) {
			c18ArgChanged = fmt.Sprintf("the query reads %q after the call", qq.Bytes())
		}
	}
	return
}

var (
	c18CallTick int
	c18Buffers  = map[int][]byte{}
)

// c18ArgChanged says how the last Match/Search call changed an argument ("" if not).
var c18ArgChanged string

// c18LastSegs is the slice the last Match/Search call returned (for Hold).
var c18LastSegs []gts.Segment

// match runs one Match case. kind is "table", "row", "literal" or "multi".
func (m c18) match(c *fw.Ctx, kind string, seq, q []byte) {
	enc := fmt.Sprintf("Match seq=%q query=%q", seq, q)
	c.Begin(enc)
	definite := c18Scan(seq, q, false, false)
	switch kind {
	case "table":
		c.Bucket("match-table:cell")
		if len(definite) > 0 {
			c.Bucket("match-table:cell-yes")
		} else {
			c.Bucket("match-table:cell-no")
		}
	case "row":
		c.Bucket("match-table:row")
	case "literal":
		c.Bucket("literal-bytes")
	}
	if len(q) == 0 || len(seq) == 0 {
		c.Bucket("empty-inputs")
	}
	if c18HasMeta(q) {
		c.Bucket("metachar-queries")
	}
	if kind == "multi" || kind == "literal" {
		if len(q) > 1 {
			c.Bucket("match:multi")
		}
		amb, fold := false, false
		for _, b := range q {
			if s, ok := c18Set(b); ok && s&(s-1) != 0 {
				amb = true
			}
		}
		for _, g := range definite {
			if !bytes.Equal(seq[g[0]:g[1]], q) && bytes.Equal(c18FoldAll(seq[g[0]:g[1]]), c18FoldAll(q)) {
				fold = true
			}
		}
		if amb && len(definite) > 0 {
			c.Bucket("match:ambiguity")
		}
		if fold {
			c.Bucket("match:case-fold")
		}
		if len(q) > 1 {
			// a matching window that the scan must skip because it overlaps.
			rep := map[int]bool{}
			for _, g := range definite {
				rep[g[0]] = true
			}
			for p := 0; p+len(q) <= len(seq); p++ {
				if !rep[p] && c18Window(seq, q, p, false) == c18Yes {
					c.Bucket("match:overlap-suppressed")
					break
				}
			}
		}
		if c18HasDC(seq, q) {
			c.Bucket("match:dont-care-cell")
		}
	}
	c.Count(enc, kind == "table" || len(definite) > 0)

	obs, panicked, val, site, stack := c18Call("Match", seq, q)
	if c18ArgChanged != "" {
		c.Violate("Match:argument-modified", enc, "arguments unchanged", c18ArgChanged)
		return
	}
	if held := c18LastSegs; !panicked {
		c.Hold(enc, func() string { return fmt.Sprint(held) })
	}
	reason, detail := "", ""
	if !panicked {
		reason, detail = c18Judge(seq, q, obs, false)
		if reason == "" {
			return
		}
	}
	// deviation models of the listed findings.
	hasK, hasMeta := c18HasK(q), c18HasMeta(q)
	kOn, uOn := c.KFEnabled(c18KRow), c.KFEnabled(c18Unquoted)
	if !panicked && hasK && kOn {
		if r, _ := c18Judge(seq, q, obs, true); r == "" {
			c.Known(c18KRow, enc)
			return
		}
	}
	if hasMeta && uOn {
		cerr, pred := c18RawPredict(seq, q, false)
		if panicked && cerr && strings.Contains(fmt.Sprint(val), "regexp: Compile(") && strings.Contains(site, "Match") {
			c.Known(c18Unquoted, enc)
			return
		}
		if !panicked && !cerr && c18SegEq(obs, pred) {
			c.Known(c18Unquoted, enc)
			return
		}
		if !panicked && hasK && kOn {
			cerr2, pred2 := c18RawPredict(seq, q, true)
			if !cerr2 && c18SegEq(obs, pred2) {
				c.Known(c18Unquoted, enc)
				c.Known(c18KRow, enc)
				return
			}
		}
	}
	if panicked {
		c.ViolateX("Match:"+panicClass(site, val), enc, "no panic; "+c18Expect(seq, q), fmt.Sprint(val), stack, nil)
		return
	}
	class := "Match:" + kind + ":" + reason
	if kind == "table" || kind == "row" {
		class += ":" + string([]byte{c18Fold(q[0])})
	} else if hasMeta {
		class += ":metachar-query"
	}
	c.Violate(class, enc, c18Expect(seq, q), fmt.Sprintf("%v (%s)", obs, detail))
}

func c18Expect(seq, q []byte) string {
	if c18HasDC(seq, q) {
		return fmt.Sprintf("%v or, with n matching bytes outside the alphabet, %v", c18Scan(seq, q, false, false), c18Scan(seq, q, false, true))
	}
	return fmt.Sprint(c18Scan(seq, q, false, false))
}

// search runs one Search case.
func (m c18) search(c *fw.Ctx, seq, q []byte) {
	enc := fmt.Sprintf("Search seq=%q query=%q", seq, q)
	c.Begin(enc)
	var want [][2]int
	fs, fq := c18FoldAll(seq), c18FoldAll(q)
	if len(q) > 0 {
		for p := 0; p+len(q) <= len(seq); p++ {
			if bytes.Equal(fs[p:p+len(q)], fq) {
				want = append(want, [2]int{p, p + len(q)})
			}
		}
	}
	if len(q) == 0 || len(seq) == 0 {
		c.Bucket("empty-inputs")
	}
	if len(want) > 0 {
		c.Bucket("search:hit")
	} else {
		c.Bucket("search:no-hit")
	}
	for i, g := range want {
		if i > 0 && g[0] < want[i-1][1] {
			c.Bucket("search:overlapping")
			break
		}
	}
	for _, g := range want {
		if !bytes.Equal(seq[g[0]:g[1]], q) {
			c.Bucket("search:case-fold")
			break
		}
	}
	if c18HasMeta(q) {
		c.Bucket("search:metachar-query")
	}
	c.Count(enc, len(want) > 0)
	obs, panicked, val, site, stack := c18Call("Search", seq, q)
	if c18ArgChanged != "" {
		c.Violate("Search:argument-modified", enc, "arguments unchanged", c18ArgChanged)
		return
	}
	if held := c18LastSegs; !panicked {
		c.Hold(enc, func() string { return fmt.Sprint(held) })
	}
	if panicked {
		c.ViolateX("Search:"+panicClass(site, val), enc, "no panic; "+fmt.Sprint(want), fmt.Sprint(val), stack, nil)
		return
	}
	if c18SegEq(obs, want) {
		return
	}
	ws, os := map[[2]int]bool{}, map[[2]int]int{}
	for _, g := range want {
		ws[g] = true
	}
	for _, g := range obs {
		os[g]++
	}
	reason := "not-ascending"
	for _, g := range obs {
		if os[g] > 1 {
			reason = "duplicate-occurrence"
		}
	}
	for _, g := range obs {
		if !ws[g] {
			reason = "spurious-occurrence"
		}
	}
	for _, g := range want {
		if os[g] == 0 {
			reason = "missing-occurrence"
		}
	}
	c.Violate("Search:"+reason, enc, fmt.Sprint(want), fmt.Sprint(obs))
}

// ---------------------------------------------------------------------------
// Complement / Transcribe.

func c18HasLetter(p []byte) bool {
	for _, b := range p {
		if _, ok := c18Set(b); ok {
			return true
		}
	}
	return false
}

func c18PartsEq(a, b []model.Part) bool {
	if len(a) != len(b) {
		return false
	}
	for i := range a {
		if a[i] != b[i] {
			return false
		}
	}
	return true
}

func c18FirstDiff(a, b []byte) string {
	if len(a) != len(b) {
		return fmt.Sprintf("length %d vs %d", len(a), len(b))
	}
	for i := range a {
		if a[i] != b[i] {
			return fmt.Sprintf("position %d: input %q", i, a[i:i+1])
		}
	}
	return ""
}

// comp runs one Complement + Transcribe case on the same input.
func (m c18) comp(c *fw.Ctx, op, kind string, in []byte, tab []gts.Feature) {
	enc := fmt.Sprintf("%s host=%s bytes=%q F=[", op, kind, in)
	for _, f := range tab {
		enc += fmt.Sprintf("%s %s %v;", f.Key, model.SafeString(f.Loc), f.Props)
	}
	enc += "]"
	c.Begin(enc)
	c.Count(enc, c18HasLetter(in))
	rna := op == "Transcribe"
	if len(in) == 0 {
		c.Bucket("empty-inputs")
	}
	seen := [256]bool{}
	n := 0
	for _, b := range in {
		if !seen[b] {
			seen[b] = true
			n++
		}
	}
	if n == 256 {
		if rna {
			c.Bucket("transcribe:all-256")
		} else {
			c.Bucket("complement:all-256")
		}
	}
	if len(tab) > 0 && !rna {
		c.Bucket("complement:features")
	}
	c.Bucket(strings.ToLower(op) + ":host-" + kind)

	host := mkHost(kind, tab, in)
	inTab := host.Features()
	var out, twice, other gts.Sequence
	p, val, site, stack := fw.Guard(func() {
		if rna {
			out = gts.Transcribe(host)
			other = gts.Complement(host)
		} else {
			out = gts.Complement(host)
			twice = gts.Complement(out)
		}
	})
	if p {
		c.ViolateX(op+":"+panicClass(site, val), enc, "no panic", fmt.Sprint(val), stack, nil)
		return
	}
	got := out.Bytes()
	if len(got) != len(in) || gts.Len(out) != len(in) {
		c.Violate(op+":length", enc, fmt.Sprint(len(in)), fmt.Sprintf("len(Bytes)=%d Len=%d", len(got), gts.Len(out)))
		return
	}
	want := make([]byte, len(in))
	for i, b := range in {
		want[i] = c18ExpectComp(b, rna)
	}
	for i := range in {
		if got[i] == want[i] {
			continue
		}
		_, letter := c18Set(in[i])
		class := op + ":non-letter-changed"
		if letter {
			class = op + ":letter-map:" + string([]byte{c18Fold(in[i])})
		}
		c.Violate(class, enc, fmt.Sprintf("byte %q at %d -> %q", in[i:i+1], i, want[i:i+1]), fmt.Sprintf("%q", got[i:i+1]))
		return
	}
	if rna {
		// differs from Complement only in U for the complement of A.
		cb := other.Bytes()
		for i := range in {
			isA := c18Fold(in[i]) == 'a'
			if len(cb) != len(in) || (isA && (c18Fold(got[i]) != 'u' || c18Fold(cb[i]) != 't' || (got[i] == 'u') != (cb[i] == 't'))) || (!isA && got[i] != cb[i]) {
				c.Violate("Transcribe:differs-from-Complement-beyond-A", enc, fmt.Sprintf("%q", cb), fmt.Sprintf("%q", got))
				return
			}
		}
		return
	}
	// involution up to U -> A -> T.
	c.Bucket("complement:involution")
	back := make([]byte, len(in))
	for i, b := range in {
		switch b {
		case 'U':
			back[i] = 'T'
		case 'u':
			back[i] = 't'
		default:
			back[i] = b
		}
	}
	if !bytes.Equal(twice.Bytes(), back) {
		c.Violate("Complement:involution", enc, fmt.Sprintf("%q", back), fmt.Sprintf("%q (%s)", twice.Bytes(), c18FirstDiff(back, twice.Bytes())))
		return
	}
	// features: same table order, key and qualifiers; same parts, other strand.
	of := out.Features()
	if len(of) != len(inTab) {
		c.Violate("Complement:feature-count", enc, fmt.Sprint(len(inTab)), fmt.Sprint(len(of)))
		return
	}
	for i, f := range inTab {
		g := of[i]
		if g.Key != f.Key || !reflect.DeepEqual(g.Props, f.Props) {
			c.Violate("Complement:feature-key-props", enc, fmt.Sprintf("%s %v", f.Key, f.Props), fmt.Sprintf("%s %v", g.Key, g.Props))
			return
		}
		exp := model.Parts(gts.Complemented{Location: f.Loc})
		var obs []model.Part
		pp, pv, _, _ := fw.Guard(func() { obs = model.Parts(g.Loc) })
		if pp {
			c.Violate("Complement:unreadable-location", enc, "", fmt.Sprint(pv))
			return
		}
		if !c18PartsEq(exp, obs) {
			c.Violate("Complement:feature-location", enc, fmt.Sprintf("feature %d %s -> the same parts on the other strand %v", i, model.SafeString(f.Loc), exp), fmt.Sprintf("%s = %v", model.SafeString(g.Loc), obs))
			return
		}
		c.Bucket("complement:feature|" + locKind(f.Loc))
	}
}

// ---------------------------------------------------------------------------
// Workload.

type c18Universe struct {
	name   string
	s, q   string // sequence and query alphabets
	lsQ    int    // max sequence length, quick
	lsT    int    // max sequence length, thorough
	lq     int    // max query length
	match  bool
	search bool
}

// c18Universes: every sequence up to ls over s x every query up to lq over q.
var c18Universes = []c18Universe{
	{"bases", "acgt", "acgt", 5, 8, 3, true, true},
	{"purines", "agrc", "arn", 5, 7, 3, true, false},
	{"k-row", "tuyk", "kyt", 5, 8, 3, true, false},
	{"three-base-codes", "abdv", "bdv", 5, 6, 3, true, false},
	{"sw-hm", "swhm", "swhm", 5, 6, 3, true, false},
	{"case", "aAcN", "Aan", 5, 7, 3, true, true},
	{"literal-dash", "ac-", "a-n", 6, 8, 3, true, true},
	{"meta-dot", "ac.", "a.c", 6, 8, 3, true, true},
	{"meta-plus", "a+c", "a+", 6, 8, 3, true, true},
	{"meta-star-quest", "a*?", "a*?", 6, 7, 3, true, false},
	{"meta-paren", "a()", "a()", 6, 7, 3, true, true},
	{"meta-bracket", "a[]", "a[]", 6, 7, 3, true, false},
	{"meta-backslash", "a\\d", "a\\d", 6, 7, 3, true, true},
	{"meta-bar", "a|c", "a|c", 6, 7, 3, true, false},
	{"meta-anchors", "a^$", "a^$", 6, 7, 3, true, false},
	{"meta-brace", "a{2}", "a{2}", 5, 6, 4, true, false},
	{"search-periodic", "ac", "ac", 9, 12, 4, false, true},
	{"search-case", "aAc", "aAC", 6, 8, 3, false, true},
	{"search-tu", "tuT", "tu", 6, 8, 3, false, true},
}

// c18Words lists all words over alpha of length lo..hi.
func c18Words(alpha string, lo, hi int) [][]byte {
	var out [][]byte
	for l := lo; l <= hi; l++ {
		idx := make([]int, l)
		for {
			w := make([]byte, l)
			for i, k := range idx {
				w[i] = alpha[k]
			}
			out = append(out, w)
			i := l - 1
			for ; i >= 0; i-- {
				idx[i]++
				if idx[i] < len(alpha) {
					break
				}
				idx[i] = 0
			}
			if i < 0 {
				break
			}
		}
	}
	return out
}

const c18Combined = "acgtnryk-.+([*?\\|^$"

func (m c18) Run(c *fw.Ctx) {
	if s := c18SpellingOK(); s != "" {
		c.Inconclusive("internal: " + s)
		return
	}
	letters32 := []byte(c18Letters + strings.ToUpper(c18Letters))

	// A. Complement / Transcribe on all 256 byte values.
	for _, op := range []string{"Complement", "Transcribe"} {
		for b := 0; b < 256; b++ {
			for _, in := range [][]byte{{byte(b)}, {'A', 'c', byte(b), 'g', 'T', byte(b), 'u'}} {
				if c.NextShared() {
					m.comp(c, op, "basic", in, nil)
				}
			}
		}
		all := make([]byte, 256)
		for i := range all {
			all[i] = byte(i)
		}
		rr := c.SubRng("perm256")
		for k := 0; k < 3; k++ {
			in := append([]byte{}, all...)
			if k > 0 {
				rr.Shuffle(len(in), func(i, j int) { in[i], in[j] = in[j], in[i] })
			}
			tab := []gts.Feature{
				{Key: "source", Loc: gts.Range(0, 256), Props: gts.Props{{"label", "s"}}},
				{Key: "gene", Loc: gts.Join(gts.Range(2, 40), gts.Range(60, 100).Complement()), Props: gts.Props{{"label", "g"}}},
			}
			if c.NextShared() {
				m.comp(c, op, "basic", in, tab)
			}
		}
		for _, in := range [][]byte{nil, {}} {
			if c.NextShared() {
				m.comp(c, op, "basic", in, nil)
			}
		}
	}
	c.Exhaustive("Complement, Transcribe: every byte value 0..255 (single, embedded, whole 256-byte sequence)")

	// A2. long runs of one query letter (a pattern builder that compresses
	// runs must not hit a repeat-count limit): run lengths around 1000.
	for _, n := range []int{999, 1000, 1001, 1500} {
		for _, q := range []byte{'a', 'n', 'r', '-'} {
			if !c.NextShared() {
				continue
			}
			seq := bytes.Repeat([]byte{'a'}, n+300)
			if q == '-' {
				seq = bytes.Repeat([]byte{'-'}, n+300)
			}
			seq[n+100] = 'c'
			m.match(c, "long-run", seq, bytes.Repeat([]byte{q}, n))
		}
	}

	// B. Match table: 32 x 32 cells, and each query letter against the alphabet.
	for _, q := range letters32 {
		for _, s := range letters32 {
			if c.NextShared() {
				m.match(c, "table", []byte{s}, []byte{q})
			}
		}
	}
	{
		rr := c.SubRng("rows")
		for k := 0; k < 4; k++ {
			row := append([]byte{}, letters32...)
			row = append(row, letters32...)
			if k > 0 {
				rr.Shuffle(len(row), func(i, j int) { row[i], row[j] = row[j], row[i] })
			}
			for _, q := range letters32 {
				if c.NextShared() {
					m.match(c, "row", row, []byte{q})
				}
			}
		}
	}
	c.Exhaustive("Match: all 32x32 (query letter x sequence letter) cells of the IUPAC alphabet in both cases")

	// C. literal bytes: every ASCII byte outside the alphabet as a query.
	{
		ascii := make([]byte, 128)
		for i := range ascii {
			ascii[i] = byte(i)
		}
		rr := c.SubRng("ascii")
		mixed := append([]byte{}, ascii...)
		mixed = append(mixed, ascii...)
		rr.Shuffle(len(mixed), func(i, j int) { mixed[i], mixed[j] = mixed[j], mixed[i] })
		// ... and every byte beyond ASCII (Latin-1 text, stray UTF-8 bytes).
		all := make([]byte, 256)
		for i := range all {
			all[i] = byte(i)
		}
		for b := 0; b < 256; b++ {
			if _, ok := c18Set(byte(b)); ok {
				continue
			}
			lit := byte(b)
			seqs := [][]byte{
				ascii, mixed, []byte(c18Letters + strings.ToUpper(c18Letters)),
				{lit}, {lit, lit, lit}, {'a', lit, 'c', lit, lit, 'N'},
			}
			if b >= 128 {
				seqs = [][]byte{all, {lit}, {'a', lit, 'c', lit, lit, 'N'}, {0xc3, lit, 0xa9, lit}}
			}
			for _, s := range seqs {
				if c.NextShared() {
					m.match(c, "literal", s, []byte{lit})
				}
				if c.NextShared() {
					m.search(c, s, []byte{lit})
				}
			}
			// the literal in front of an ambiguity code.
			s2 := []byte{lit, 'a', lit, 'G', lit, 'c', 'a', lit}
			if c.NextShared() {
				m.match(c, "literal", s2, []byte{lit, 'r'})
			}
			if c.NextShared() {
				m.match(c, "literal", s2, []byte{'R', lit})
			}
		}
		// IUPAC letters against all ASCII bytes (bytes outside the alphabet must
		// not be reported except, don't-care, for n).
		// (also a sequence holding well-formed multi-byte UTF-8: every byte of it
		// is a residue of its own.)
		utf8seq := []byte("ac\xc3\xa9gt\xe2\x82\xacnN\xc3\xa9acgt\xc3\xa9")
		for _, q := range [][]byte{[]byte("gt"), []byte("ng"), []byte("nn"), []byte("cnn"), {0xc3}, {0xa9, 'g'}, []byte("\xc3\xa9"), []byte("tn")} {
			if c.NextShared() {
				m.match(c, "multi", utf8seq, q)
			}
			if c.NextShared() {
				m.search(c, utf8seq, q)
			}
		}
		for _, q := range letters32 {
			for _, s := range [][]byte{ascii, mixed, utf8seq} {
				if c.NextShared() {
					m.match(c, "row", s, []byte{q})
				}
				if c.NextShared() {
					m.search(c, s, []byte{q})
				}
			}
		}
	}
	c.Exhaustive("Match, Search: every ASCII byte outside the IUPAC alphabet as a one-byte query")

	// D. small-alphabet universes.
	for _, u := range c18Universes {
		ls := c.Pick(u.lsQ, u.lsT)
		seqs := c18Words(u.s, 0, ls)
		qs := c18Words(u.q, 0, u.lq)
		for _, s := range seqs {
			for _, q := range qs {
				if u.match && c.NextShared() {
					m.match(c, "multi", s, q)
				}
				if u.search && c.NextShared() {
					m.search(c, s, q)
				}
			}
		}
		ops := ""
		if u.match {
			ops += "Match "
		}
		if u.search {
			ops += "Search "
		}
		c.Exhaustive(fmt.Sprintf("%s: all sequences over %q of length<=%d x all queries over %q of length<=%d (%s)", strings.TrimSpace(ops), u.s, ls, u.q, u.lq, u.name))
	}

	// E. empty inputs, nil and empty slices.
	for _, op := range []string{"Match", "Search"} {
		for _, s := range [][]byte{nil, {}, []byte("acgt"), []byte("n.(")} {
			for _, q := range [][]byte{nil, {}, []byte("a"), []byte("(")} {
				if len(s) != 0 && len(q) != 0 {
					continue
				}
				if !c.NextShared() {
					continue
				}
				if op == "Match" {
					m.match(c, "multi", s, q)
				} else {
					m.search(c, s, q)
				}
			}
		}
	}

	// F. seeded cases.
	r := c.Rng
	nComp := c.Pick(300, 50000)
	for it := 0; it < nComp; it++ {
		L := r.Intn(150)
		lettersOnly := r.Intn(3) == 0
		in := make([]byte, L)
		for i := range in {
			if lettersOnly || r.Intn(10) < 6 {
				in[i] = letters32[r.Intn(len(letters32))]
			} else {
				in[i] = byte(r.Intn(256))
			}
		}
		var tab []gts.Feature
		if L > 0 && r.Intn(4) > 0 {
			o := gen.LocOpt{L: L, MaxParts: 4, MaxDepth: 3, Ambiguous: true, Overlap: r.Intn(3) == 0, Sites: true}
			tab = gen.RandTable(r, 1+r.Intn(6), o, "h", 15)
		}
		kind := "basic"
		if lettersOnly && L > 0 && r.Intn(2) == 0 {
			kind = "genbank"
		}
		for _, op := range []string{"Complement", "Transcribe"} {
			c.NextOwn()
			if c.Replaying() && c.Seq() != c.ReplaySeq {
				continue
			}
			m.comp(c, op, kind, in, tab)
		}
	}

	nMS := c.Pick(4000, 600000)
	alphas := []string{"acgt", c18Letters, c18Letters + strings.ToUpper(c18Letters), "acgtnrykACGT-.x*", "aAcC"}
	for it := 0; it < nMS; it++ {
		c.NextOwn()
		var seq, q []byte
		if rk := r.Intn(8); rk == 0 {
			// an RNA-spelled sequence searched with the DNA spelling of one of
			// its own stretches (and the other way round): t and u name the
			// same base, however long the query.
			from, to := byte('u'), byte('t')
			al := "acgu"
			if r.Intn(3) == 0 {
				from, to, al = 't', 'u', "acgt"
			}
			L := 6 + r.Intn(80)
			seq = make([]byte, L)
			for i := range seq {
				seq[i] = al[r.Intn(4)]
				if r.Intn(12) == 0 {
					seq[i] -= 32
				}
			}
			n := 6 + r.Intn(10)
			if n > L {
				n = L
			}
			at := r.Intn(L - n + 1)
			q = bytes.ToLower(seq[at : at+n])
			for i := range q {
				if q[i] == from {
					q[i] = to
				}
			}
			c.Bucket("multi:long-query-in-the-other-spelling-of-t/u")
		} else if rk <= 2 {
			// the combined small alphabet of the statement's examples.
			seq = make([]byte, r.Intn(9))
			for i := range seq {
				seq[i] = c18Combined[r.Intn(len(c18Combined))]
			}
			q = make([]byte, 1+r.Intn(3))
			for i := range q {
				q[i] = c18Combined[r.Intn(len(c18Combined))]
			}
		} else {
			al := alphas[r.Intn(len(alphas))]
			L := 1 + r.Intn(120)
			seq = make([]byte, L)
			if r.Intn(3) == 0 {
				unit := make([]byte, 1+r.Intn(3))
				for i := range unit {
					unit[i] = al[r.Intn(len(al))]
				}
				for i := range seq {
					seq[i] = unit[i%len(unit)]
					if r.Intn(15) == 0 {
						seq[i] = al[r.Intn(len(al))]
					}
				}
			} else {
				for i := range seq {
					seq[i] = al[r.Intn(len(al))]
				}
			}
			if r.Intn(4) > 0 {
				n := 1 + r.Intn(8)
				if n > L {
					n = L
				}
				at := r.Intn(L - n + 1)
				q = append([]byte{}, seq[at:at+n]...)
				for i := range q {
					switch r.Intn(5) {
					case 0: // generalise to a letter whose set contains this one's
						if s, ok := c18Set(q[i]); ok {
							for try := 0; try < 8; try++ {
								l := c18Letters[r.Intn(len(c18Letters))]
								if s&^c18Bases[l] == 0 {
									q[i] = l
									break
								}
							}
						}
					case 1: // flip case
						if q[i] >= 'a' && q[i] <= 'z' {
							q[i] -= 32
						} else if q[i] >= 'A' && q[i] <= 'Z' {
							q[i] += 32
						}
					}
				}
			} else {
				q = make([]byte, 1+r.Intn(4))
				for i := range q {
					q[i] = al[r.Intn(len(al))]
				}
			}
		}
		doSearch := r.Intn(2) == 0
		if c.Replaying() && c.Seq() != c.ReplaySeq {
			continue
		}
		if doSearch {
			m.search(c, seq, q)
		} else {
			m.match(c, "multi", seq, q)
		}
	}
	// G. a sequence of more than two MiB: occurrences that start exactly on the
	// 2^20 and 2^21 marks, straddle them, and stand at the two ends.
	if c.NextShared() {
		const n = 2<<20 + 70
		big := make([]byte, n)
		for i := range big {
			big[i] = "at"[(i*7+i/13)%2]
		}
		q := []byte("ggatccgcatgc")
		var at []int
		for _, o := range []int{0, 100, 1<<20 - 5, 1<<20 + 20, 2<<20 - 12, 2 << 20, n - 12} {
			copy(big[o:], q)
			at = append(at, o)
		}
		enc := fmt.Sprintf("Search: %d-residue sequence of a/t with %q planted at %v", n, q, at)
		c.Begin(enc)
		c.Count(enc, true)
		c.Bucket("search:sequence-of-several-MiB")
		obs, panicked, val, site, stack := c18Call("Search", big, q)
		switch {
		case panicked:
			c.ViolateX("Search:"+panicClass(site, val), enc, "no panic", fmt.Sprint(val), stack, nil)
		case c18ArgChanged != "":
			c.Violate("Search:argument-modified", enc, "arguments unchanged", "the sequence or the query reads differently after the call")
		default:
			var got []int
			for _, g := range obs {
				got = append(got, g[0])
				if g[1]-g[0] != len(q) {
					got = append(got, -g[1])
				}
			}
			sort.Ints(got)
			if fmt.Sprint(got) != fmt.Sprint(at) {
				c.Violate("Search:large-sequence:occurrences", enc, fmt.Sprintf("each planted occurrence once: %v", at), fmt.Sprintf("starts %v", got))
			}
		}
	}
	cliSearch(c)
}
