package mon

import (
	"bytes"
	"fmt"
	"math/rand"
	"sort"
	"strings"

	"github.com/go-gts/gts"
	"github.com/go-gts/gts/seqio"

	"verifharness/fw"
	"verifharness/gen"
)

// C11 - library operations are pure: arguments are never modified.
//
// Monitor = snapshot + canary. Every argument is built so that memory the
// caller can reach but the slice length hides is observable (byte slices carved
// out of a larger canary buffer, feature tables / Joined / Ordered / Props with
// guard elements beyond len). A deep snapshot of every argument taken before
// an operation must equal the snapshot taken after it.
//
// Known-finding attribution works on a shadow world: a second, identically
// built set of arguments on which only the listed deviations ("this append
// happens in place") are executed as literal Go expressions. An observed
// change is KNOWN only if the actual arguments now equal the shadow
// arguments in the changed category; anything else is a VIOLATION.

type c11 struct{ base }

func init() { register(c11{}) }

const (
	c11KFInsert   = "insert-appends-into-arguments"
	c11KFRotate   = "rotate-appends-past-host-end"
	c11KFConcat   = "concat-appends-into-head-capacity"
	c11KFFSInsert = "featureslice-insert-shifts-in-place"
	c11KFDelete   = "delete-assigns-into-caller-table"
)

var c11OpNames = []string{"Insert", "Embed", "Delete", "Erase", "Slice", "Concat", "Reverse", "Rotate",
	"WithInfo", "WithFeatures", "WithBytes", "Copy", "Complement", "Transcribe", "Repair",
	"FeatureSlice.Filter", "FeatureSlice.Insert", "WithTopology", "Locate"}
var c11Shapes = []string{"exact", "spare", "sub"}
var c11Kinds = []string{"basic", "gb-unparsed", "gb-parsed", "gb-raw"}
var c11TabModes = []string{"exact", "spare", "shared"}

func (c11) ID() string { return "C11" }
func (c11) Rule() string {
	return "arguments are built by a deterministic builder from (host kind in {gts.New BasicSequence, seqio.GenBank with NewOrigin not yet decoded, the same after one Bytes() call, seqio.GenBank over &Origin{Buffer: carved slice, Parsed: true}}, buffer shape in {len==cap, spare capacity, sub-slice of a larger residue buffer}, table mode in {len==cap, spare capacity with guard features beyond len, one spare-capacity table shared by host and guest}, lengths, content seed): residues are carved out of a canary buffer (guard bytes before, between len and cap, after); Joined/Ordered/Props (outer and value slices) and the info slices (keywords, references, comments, taxonomy, dblink) carry guard elements beyond len; one Props value and one Joined value are shared between host and guest features. For the NewOrigin kinds the library never sees the carved slice (NewOrigin copies), so the shape only matters for the guest, the WithBytes argument and the gb-raw/basic hosts. A program is 1..4 operations out of {Insert, Embed, Delete, Erase, Slice (forward, negative, wrap-around), Concat (1..3 operands, host or guest first, host twice), Reverse, Rotate, WithInfo, WithFeatures, WithBytes, Copy, Complement, Transcribe, Repair, FeatureSlice.Filter, FeatureSlice.Insert, WithTopology, Segment/Regions.Locate} applied to the same original arguments, followed by a re-application of operation 1. systematic: every operation variant x shape x host kind x table mode as a 1-operation program; every ordered pair of representative variants (all variants in the thorough tier) x shape x host kind; seeded: random arguments (host length<=40, tables<=6 features from the location generator incl. source features, split partial pairs for Repair) and random programs of length 1..4. Oracle: after EVERY operation the deep snapshot of every argument (residues through Bytes()/Len(), bytes between len and cap, guard bytes, every feature's key, location structure incl. nested slices up to cap, qualifiers incl. value slices up to cap, table elements beyond len, info incl. slice capacity, the WithInfo/WithFeatures/WithBytes/FeatureSlice.Insert/Locate arguments) equals the snapshot before it; the result of operation 1 (bytes, Len, features, info through the accessors) reads the same after operations 2..4; the re-applied operation 1 returns an equal result. Origin's lazy decode is not observed (Bytes() is never called on an undecoded host before the first operation; the expected residues are the ones the Origin was built from). A panic is not a purity verdict: arguments are still compared; the C12 Repair panic on a top-level join is skipped, any other panic is reported. non-trivial: some argument has reachable memory beyond its length (buffer shape != len==cap or a spare-capacity table); distinct: canonical case text. The WithFeatures argument is a table in caller order (source feature last) half of the time. /note values of two lines; Qualifier(note, regexp) and Selector(/note=regexp) among the filters."
}

func (c11) RequiredBuckets(tier string) []string {
	var out []string
	for _, op := range c11OpNames {
		out = append(out, "op:"+op)
		for _, sh := range c11Shapes {
			for _, k := range c11Kinds {
				out = append(out, "combo:"+op+"|"+sh+"|"+k)
			}
		}
	}
	for _, sh := range c11Shapes {
		out = append(out, "shape:"+sh, "guest-shape:"+sh)
	}
	for _, k := range c11Kinds {
		out = append(out, "host:"+k, "guest:"+k)
	}
	out = append(out, "table:spare-capacity", "table:len==cap", "table:shared-host-guest",
		"shared:props-host-guest", "shared:joined-host-guest", "guest:is-host",
		"len:1", "len:2", "len:3", "len:4",
		"stability:result-after-later-ops", "stability:reapplied", "stability:result-aliases-argument",
		"slice:wrap", "unparsed-origin-decoded-by-operation")
	return out
}

func (c11) Findings() []fw.Finding {
	return []fw.Finding{
		{ID: c11KFInsert, What: "insert() (Insert, Embed) appends into the spare capacity of the host (and of the guest)", Witness: func() (bool, string) {
			buf := make([]byte, 4, 16)
			copy(buf, "acgt")
			host := gts.New(nil, nil, buf)
			gts.Insert(host, 1, gts.New(nil, nil, []byte("NN")))
			got := string(host.Bytes())
			return got != "acgt", fmt.Sprintf("host := New(make([]byte,4,16)=\"acgt\"); Insert(host,1,\"NN\"); host.Bytes() = %q, want \"acgt\"", got)
		}},
		{ID: c11KFRotate, What: "Rotate appends the head of the sequence behind a host that is a sub-slice of a larger buffer", Witness: func() (bool, string) {
			big := []byte("acgtTTTT")
			gts.Rotate(gts.New(nil, nil, big[:4]), 1)
			return string(big) != "acgtTTTT", fmt.Sprintf("big := \"acgtTTTT\"; Rotate(New(big[:4]),1); big = %q, want \"acgtTTTT\"", big)
		}},
		{ID: c11KFConcat, What: "Concat appends the tail into the spare capacity of the head, so two results share memory", Witness: func() (bool, string) {
			buf := make([]byte, 4, 16)
			copy(buf, "acgt")
			head := gts.New(nil, nil, buf)
			r1 := gts.Concat(head, gts.New(nil, nil, []byte("gg")))
			gts.Concat(head, gts.New(nil, nil, []byte("tt")))
			got := string(r1.Bytes())
			return got != "acgtgg", fmt.Sprintf("head := New(make([]byte,4,16)=\"acgt\"); r1 := Concat(head,\"gg\"); Concat(head,\"tt\"); r1.Bytes() = %q, want \"acgtgg\"", got)
		}},
		{ID: c11KFFSInsert, What: "FeatureSlice.Insert shifts the caller's elements in place when the table has spare capacity", Witness: func() (bool, string) {
			tab := make(gts.FeatureSlice, 2, 4)
			tab[0] = gts.Feature{Key: "gene", Loc: gts.Range(0, 2)}
			tab[1] = gts.Feature{Key: "gene", Loc: gts.Range(4, 6)}
			tab.Insert(gts.Feature{Key: "gene", Loc: gts.Range(2, 4)})
			got := tab[1].Loc.String()
			return got != "5..6", fmt.Sprintf("tab := make(FeatureSlice,2,4){gene 1..2, gene 5..6}; tab.Insert(gene 3..4); tab[1] = %s, want 5..6", got)
		}},
		{ID: c11KFDelete, What: "Delete assigns the shortened locations into the caller's feature table", Witness: func() (bool, string) {
			tab := gts.FeatureSlice{{Key: "gene", Loc: gts.Range(4, 8)}}
			gts.Delete(gts.New(nil, tab, []byte("acgtacgtac")), 0, 2)
			got := tab[0].Loc.String()
			return got != "5..8", fmt.Sprintf("tab := {gene 5..8}; Delete(New(nil,tab,\"acgtacgtac\"),0,2); tab[0] = %s, want 5..8", got)
		}},
	}
}

// c11Live caches, per worker process, whether the witness of each finding
// still fails. A listed finding whose witness no longer fails is stale: it
// suppresses nothing, and its deviation must not be executed on the shadow
// arguments (the shadow would run ahead of the real ones).
var c11Live map[string]bool

func c11On(c *fw.Ctx, id string) bool {
	if !c.KFEnabled(id) {
		return false
	}
	if c11Live == nil {
		c11Live = map[string]bool{}
		for _, f := range (c11{}).Findings() {
			still := false
			fw.Guard(func() { still, _ = f.Witness() })
			c11Live[f.ID] = still
		}
	}
	return c11Live[id]
}

// ---------------------------------------------------------------------------
// arguments

// c11Info is the metadata of BasicSequence hosts: a value type with a slice
// (spare capacity) that implements the optional Shift/Expand/Slice hooks
// purely.
type c11Info struct {
	Name string
	Tags []string
}

func (x c11Info) Shift(i, n int) interface{} {
	return c11Info{fmt.Sprintf("%s>shift(%d,%d)", x.Name, i, n), x.Tags}
}
func (x c11Info) Expand(i, n int) interface{} {
	return c11Info{fmt.Sprintf("%s>expand(%d,%d)", x.Name, i, n), x.Tags}
}
func (x c11Info) Slice(s, e int) interface{} {
	return c11Info{fmt.Sprintf("%s>slice(%d,%d)", x.Name, s, e), x.Tags}
}

type c11Params struct {
	shape, gshape       string
	hostKind, guestKind string
	tabMode             string
	L, G                int
	nfeat               int
	noJoin              bool // no top-level join in the host table (Repair then runs without the C12 panic)
	self                bool // the guest IS the host
	seed                int64
}

func (p c11Params) String() string {
	return fmt.Sprintf("host=%s/%s L=%d guest=%s/%s G=%d table=%s n=%d nojoin=%v self=%v seed=%d",
		p.hostKind, p.shape, p.L, p.guestKind, p.gshape, p.G, p.tabMode, p.nfeat, p.noJoin, p.self, p.seed)
}

// c11Buf is a byte slice carved out of a canary buffer.
type c11Buf struct {
	shape       string
	full        []byte
	off, n, end int
}

func (b *c11Buf) data() []byte { return b.full[b.off : b.off+b.n : b.end] }

const c11Letters = "acgtACGTnNrykmswbdhvu"

func c11Residues(r *rand.Rand, n int) []byte {
	p := make([]byte, n)
	for i := range p {
		p[i] = c11Letters[r.Intn(len(c11Letters))]
	}
	return p
}

func c11Carve(r *rand.Rand, shape string, res []byte, spare int) *c11Buf {
	pre, post := 1+r.Intn(4), 1+r.Intn(4)
	n := len(res)
	var total, end int
	switch shape {
	case "exact":
		total, end = pre+n+post, pre+n
	case "spare":
		total, end = pre+n+spare+post, pre+n+spare
	default: // sub-slice of a larger residue buffer: capacity runs to its end
		total, end = pre+n+spare, pre+n+spare
	}
	full := make([]byte, total)
	for i := range full {
		if shape == "sub" {
			full[i] = "WXZwxz"[r.Intn(6)] // neighbouring residues of the larger buffer
		} else {
			full[i] = byte(0x80 + r.Intn(0x7f))
		}
	}
	copy(full[pre:], res)
	return &c11Buf{shape: shape, full: full, off: pre, n: n, end: end}
}

// c11Tab is a feature table inside a larger array (guard features beyond len).
type c11Tab struct {
	full gts.FeatureSlice // len == cap: the whole array
	n    int
}

func (t *c11Tab) tab() gts.FeatureSlice { return t.full[:t.n] }

func c11GuardFeature(i int) gts.Feature {
	return gts.Feature{Key: "GUARD", Loc: gts.Range(700+i, 710+i), Props: gts.Props{{"guard", fmt.Sprint(i)}}}
}

func c11MakeTab(ff []gts.Feature, spare int) *c11Tab {
	n := len(ff)
	full := make(gts.FeatureSlice, n+spare)
	copy(full, ff)
	for i := n; i < len(full); i++ {
		full[i] = c11GuardFeature(i - n)
	}
	return &c11Tab{full: full, n: n}
}

// c11SpareLoc rebuilds every Joined/Ordered with spare capacity and guard
// locations beyond len.
func c11SpareLoc(r *rand.Rand, l gts.Location) gts.Location {
	fill := func(dst []gts.Location, src []gts.Location) {
		for i := range src {
			dst[i] = c11SpareLoc(r, src[i])
		}
		g := dst[:cap(dst)]
		for i := len(src); i < len(g); i++ {
			g[i] = gts.Range(900+i, 910+i)
		}
	}
	switch v := l.(type) {
	case gts.Joined:
		out := make(gts.Joined, len(v), len(v)+1+r.Intn(3))
		fill(out, v)
		return out
	case gts.Ordered:
		out := make(gts.Ordered, len(v), len(v)+1+r.Intn(3))
		fill(out, v)
		return out
	case gts.Complemented:
		return gts.Complemented{Location: c11SpareLoc(r, v.Location)}
	}
	return l
}

// c11SpareProps builds qualifiers whose outer slice and value slices have
// spare capacity with guard entries beyond len.
func c11SpareProps(r *rand.Rand, label string) gts.Props {
	return c11SparePropsKind(r, label, r.Intn(5))
}

// c11SparePropsKind: kind 5 is the qualifier set of a source feature.
func c11SparePropsKind(r *rand.Rand, label string, kind int) gts.Props {
	type kv struct {
		k  string
		vv []string
	}
	items := []kv{{"label", []string{label}}}
	switch kind {
	case 5:
		items = append(items, kv{"organism", []string{"synthetic construct " + label}}, kv{"mol_type", []string{"genomic DNA"}}, kv{"db_xref", []string{"taxon:" + label}})
	case 4:
		// the qualifier set of a coding sequence as databases write it, the
		// translation not in last place.
		items = append(items, kv{"codon_start", []string{"1"}}, kv{"product", []string{"p " + label}}, kv{"translation", []string{"MKV" + label}},
			kv{"protein_id", []string{"P" + label}}, kv{"db_xref", []string{"MIM:" + label, "GeneID:" + label}})
	case 0:
		// (a value wrapped over two lines, as long notes are.)
		items = append(items, kv{"note", []string{"n " + label + " membrane\nprotein"}})
	case 1:
		items = append(items, kv{"gene", []string{"z" + label, "g" + label, "m" + label}}, kv{"codon_start", []string{"1"}})
	case 2:
		items = append(items, kv{"pseudo", []string{""}})
	}
	// one or two further qualifiers from the INSDC vocabulary with a value of
	// the vocabulary: an operation that treats some qualifier specially
	// (re-phasing, re-orienting, re-typing it) meets it here.
	for n := r.Intn(3); n > 0; n-- {
		name := c11Vocabulary[r.Intn(len(c11Vocabulary))]
		dup := false
		for _, it := range items {
			if it.k == name {
				dup = true
			}
		}
		if !dup {
			items = append(items, kv{name, []string{c11VocabValues[r.Intn(len(c11VocabValues))]}})
		}
	}
	out := make(gts.Props, len(items), len(items)+2)
	for i, it := range items {
		p := make([]string, 1+len(it.vv), 3+len(it.vv))
		p[0] = it.k
		copy(p[1:], it.vv)
		g := p[:cap(p)]
		g[len(p)], g[len(p)+1] = "GUARDV1", "GUARDV2"
		out[i] = p
	}
	g := out[:cap(out)]
	g[len(out)] = []string{"GUARDK1", "x"}
	g[len(out)+1] = []string{"GUARDK2", "y"}
	return out
}

var c11Keys = []string{"gene", "CDS", "misc_feature", "exon"}

// c11Features draws n features over [0,fit] plus the deliberately shared
// structures; the table is sorted the documented way.
func c11Features(r *rand.Rand, n, fit int, prefix string, noJoin bool, sharedProps gts.Props, sharedJoin gts.Location) []gts.Feature {
	o := gen.LocOpt{L: fit, MaxParts: 4, MaxDepth: 2, Ambiguous: true, Overlap: r.Intn(3) == 0, Sites: true}
	if noJoin {
		o.MaxDepth = 0
	}
	var ff []gts.Feature
	for i := 0; i < n; i++ {
		key := c11Keys[r.Intn(len(c11Keys))]
		if r.Intn(5) == 0 {
			key = "source"
		}
		loc := c11SpareLoc(r, gen.RandLoc(r, o))
		props := c11SpareProps(r, fmt.Sprintf("%s%d", prefix, i))
		if key == "source" && r.Intn(2) == 0 {
			props = c11SparePropsKind(r, fmt.Sprintf("%s%d", prefix, i), 5)
		}
		switch {
		case i == 0 && sharedProps != nil:
			props = sharedProps
		case i == 1 && sharedJoin != nil:
			loc = sharedJoin
			if noJoin {
				loc = gts.Complemented{Location: sharedJoin}
			}
		case i == 2 && sharedProps != nil && r.Intn(2) == 0:
			props = sharedProps
		}
		ff = append(ff, gts.Feature{Key: key, Loc: loc, Props: props})
	}
	if n >= 2 && fit >= 4 && r.Intn(2) == 0 {
		// a split pair of one class (same key, same qualifiers, > meeting <):
		// Repair merges it.
		a := r.Intn(fit - 2)
		m := a + 1 + r.Intn(fit-a-2)
		e := m + 1 + r.Intn(fit-m)
		pp := c11SpareProps(r, prefix+"pair")
		ff = append(ff, gts.Feature{Key: "gene", Loc: gts.PartialRange(a, m, gts.Partial3), Props: pp},
			gts.Feature{Key: "gene", Loc: gts.PartialRange(m, e, gts.Partial5), Props: pp})
	}
	return []gts.Feature(gen.SortedTable(ff))
}

type c11Seq struct {
	kind string
	seq  gts.Sequence
	want []byte
	buf  *c11Buf
	org  *seqio.Origin
	tab  *c11Tab
}

// bytes reads the residues without triggering Origin's lazy decode: an
// undecoded Origin denotes the residues it was built from.
func (q *c11Seq) bytes() []byte {
	if q.org != nil && !q.org.Parsed {
		return q.want
	}
	return q.seq.Bytes()
}

type c11World struct {
	p           c11Params
	host, guest *c11Seq
	aux         *c11Buf
	tab2        *c11Tab
	info2same   interface{} // same dynamic type as the host's info
	info2other  interface{}
	feats       map[string]gts.Feature // FeatureSlice.Insert arguments
	regionsFull gts.Regions
	regionsN    int
	sharedProps bool
	sharedJoin  bool
}

func c11Fields(r *rand.Rand, name string, L int) seqio.GenBankFields {
	spareStr := func(items ...string) []string {
		out := make([]string, len(items), len(items)+2)
		copy(out, items)
		g := out[:cap(out)]
		g[len(items)], g[len(items)+1] = "GUARD-A", "GUARD-B"
		return out
	}
	refs := make([]seqio.Reference, 0, 4)
	a := r.Intn(L)
	b := a + 1 + r.Intn(L-a)
	// the numbers are those of the parent entry, not always 1..n.
	n1 := []int{1, 2, 7}[r.Intn(3)]
	refs = append(refs, seqio.Reference{Number: n1, Info: fmt.Sprintf("(bases %d to %d)", a+1, b), Authors: "A", Title: "T", Journal: "J",
		Xref: map[string]string{"PUBMED": "1"}})
	refs = append(refs, seqio.Reference{Number: n1 + 1 + r.Intn(2)*3, Info: fmt.Sprintf("(bases 1 to %d)", L), Title: "U"})
	g := refs[:cap(refs)]
	g[2] = seqio.Reference{Number: 98, Info: "GUARD"}
	g[3] = seqio.Reference{Number: 99, Info: "GUARD"}
	db := make(seqio.Dictionary, 1, 3)
	db[0] = seqio.Pair{Key: "BioProject", Value: "PRJ1"}
	db[:3][1] = seqio.Pair{Key: "GUARD", Value: "1"}
	db[:3][2] = seqio.Pair{Key: "GUARD", Value: "2"}
	topo := gts.Linear
	if r.Intn(2) == 0 {
		topo = gts.Circular
	}
	return seqio.GenBankFields{LocusName: name, Molecule: gts.DNA, Topology: topo, Division: "SYN",
		Date: seqio.Date{Year: 2020, Month: 2, Day: 29}, Definition: "definition of " + name, Accession: "AC" + name, Version: "AC" + name + ".1",
		DBLink: db, Keywords: spareStr("kw1", "kw2"), Source: seqio.Organism{Species: "sp", Name: "nm", Taxon: spareStr("Viruses", "X")},
		References: refs, Comments: spareStr("comment one"), Extra: []seqio.ExtraField{seqio.GenBankExtraField("EXTRA", "value")}}
}

func c11BasicInfo(r *rand.Rand, name string) interface{} {
	switch r.Intn(4) {
	case 0:
		return nil
	case 1:
		return "plain " + name
	}
	tags := make([]string, 2, 4)
	tags[0], tags[1] = "t1", "t2"
	tags[:4][2], tags[:4][3] = "GUARD-T1", "GUARD-T2"
	return c11Info{Name: name, Tags: tags}
}

func c11MakeSeq(r *rand.Rand, kind, shape, name string, n, spare int, tab *c11Tab) *c11Seq {
	res := c11Residues(r, n)
	q := &c11Seq{kind: kind, want: append([]byte(nil), res...), tab: tab}
	q.buf = c11Carve(r, shape, res, spare)
	switch kind {
	case "basic":
		q.seq = gts.New(c11BasicInfo(r, name), tab.tab(), q.buf.data())
	default:
		fields := c11Fields(r, name, c11Max(n, 1))
		switch kind {
		case "gb-raw":
			q.org = &seqio.Origin{Buffer: q.buf.data(), Parsed: true}
		case "gb-parsed":
			q.org = seqio.NewOrigin(q.buf.data())
			q.org.Bytes()
		default:
			q.org = seqio.NewOrigin(q.buf.data())
		}
		q.seq = seqio.GenBank{Fields: fields, Table: tab.tab(), Origin: q.org}
	}
	return q
}

func c11Max(a, b int) int {
	if a > b {
		return a
	}
	return b
}
func c11Min(a, b int) int {
	if a < b {
		return a
	}
	return b
}

// c11Build builds the arguments. It is a pure function of p, so calling it
// twice yields two worlds with equal contents and disjoint memory.
func c11Build(p c11Params) *c11World {
	r := rand.New(rand.NewSource(p.seed))
	w := &c11World{p: p}
	fitH, fitG := p.L, p.G
	if p.self {
		fitG = p.L
	} else if p.tabMode == "shared" {
		fitH = c11Min(p.L, c11Max(p.G, 1))
	}
	spareT := 0
	if p.tabMode != "exact" {
		spareT = 2 + r.Intn(4)
	}
	var sp gts.Props
	var sj gts.Location
	if r.Intn(4) != 0 {
		sp = c11SpareProps(r, "shared")
	}
	if fs := c11Min(fitH, c11Max(fitG, 1)); fs >= 4 && r.Intn(4) != 0 {
		a := r.Intn(fs - 3)
		sj = c11SpareLoc(r, gts.Joined{gts.PartialRange(a, a+1, gts.Partial5), gts.Range(a+2, fs)})
	}
	htab := c11MakeTab(c11Features(r, p.nfeat, fitH, "h", p.noJoin, sp, sj), spareT)
	gtab := htab
	if p.tabMode != "shared" {
		ng := r.Intn(4)
		gtab = c11MakeTab(c11Features(r, ng, fitG, "g", false, sp, sj), r.Intn(3))
		w.sharedProps = sp != nil && p.nfeat >= 1 && ng >= 1
		w.sharedJoin = sj != nil && p.nfeat >= 2 && ng >= 2
	}
	// spare capacity large enough for every in-place append to be possible,
	// small enough (sometimes) for a reallocation.
	spare := 1 + r.Intn(2*p.L+p.G+4)
	if r.Intn(3) != 0 {
		spare = 2*p.L + p.G + 2
	}
	w.host = c11MakeSeq(r, p.hostKind, p.shape, "H", p.L, spare, htab)
	if p.self {
		w.guest = w.host
	} else {
		gspare := 1 + r.Intn(p.L+p.G+4)
		if r.Intn(3) != 0 {
			gspare = 2*p.L + p.G + 2
		}
		w.guest = c11MakeSeq(r, p.guestKind, p.gshape, "G", p.G, gspare, gtab)
	}
	w.aux = c11Carve(r, c11Shapes[r.Intn(3)], c11Residues(r, r.Intn(p.L+3)), 1+r.Intn(6))
	ff2 := c11Features(r, r.Intn(4), p.L, "w", false, sp, nil)
	if len(ff2) >= 2 && r.Intn(2) == 0 {
		// a table as a caller assembled it: not in location order, its source
		// feature not in the first place.
		for i, j := 0, len(ff2)-1; i < j; i, j = i+1, j-1 {
			ff2[i], ff2[j] = ff2[j], ff2[i]
		}
		ff2[len(ff2)-1].Key = "source"
	}
	w.tab2 = c11MakeTab(ff2, r.Intn(3))
	if p.hostKind == "basic" {
		w.info2same = c11Info{Name: "I2", Tags: []string{"x"}}
		w.info2other = c11Fields(r, "I2", p.L)
	} else {
		w.info2same = c11Fields(r, "I2", p.L)
		w.info2other = c11Info{Name: "I2", Tags: []string{"x"}}
	}
	mid := p.L / 2
	w.feats = map[string]gts.Feature{
		"front":  {Key: "gene", Loc: gts.Between(0), Props: c11SpareProps(r, "ins-front")},
		"mid":    {Key: "CDS", Loc: c11SpareLoc(r, gts.Joined{gts.Point(mid), gts.Between(p.L)}), Props: c11SpareProps(r, "ins-mid")},
		"back":   {Key: "gene", Loc: gts.Range(p.L+50, p.L+60), Props: c11SpareProps(r, "ins-back")},
		"source": {Key: "source", Loc: gts.Range(0, p.L), Props: c11SpareProps(r, "ins-source")},
	}
	if sp != nil {
		f := w.feats["mid"]
		f.Props = sp
		w.feats["mid"] = f
	}
	w.regionsFull = make(gts.Regions, 4)
	x := r.Intn(p.L)
	w.regionsFull[0] = gts.Segment{0, x + 1}
	w.regionsFull[1] = gts.Segment{p.L, x}
	w.regionsFull[2] = gts.Segment{777, 778}
	w.regionsFull[3] = gts.Regions{gts.Segment{888, 889}}
	w.regionsN = 2
	return w
}

// ---------------------------------------------------------------------------
// deep dumps

func c11DumpLocList(b *strings.Builder, tag string, ll []gts.Location, hidden bool) {
	b.WriteString(tag)
	b.WriteByte('[')
	for i, l := range ll {
		if i > 0 {
			b.WriteByte(',')
		}
		c11DumpLoc(b, l, hidden)
	}
	b.WriteByte(']')
	if hidden {
		b.WriteString("+[")
		for i, l := range ll[len(ll):cap(ll)] {
			if i > 0 {
				b.WriteByte(',')
			}
			c11DumpLoc(b, l, hidden)
		}
		b.WriteByte(']')
	}
}

func c11DumpLoc(b *strings.Builder, l gts.Location, hidden bool) {
	switch v := l.(type) {
	case nil:
		b.WriteString("nil")
	case gts.Point:
		fmt.Fprintf(b, "P%d", int(v))
	case gts.Between:
		fmt.Fprintf(b, "B%d", int(v))
	case gts.Ranged:
		if v.Partial.Partial5 {
			b.WriteByte('<')
		}
		fmt.Fprintf(b, "R%d-%d", v.Start, v.End)
		if v.Partial.Partial3 {
			b.WriteByte('>')
		}
	case gts.Ambiguous:
		fmt.Fprintf(b, "A%d-%d", v.Start, v.End)
	case gts.Complemented:
		b.WriteString("C(")
		c11DumpLoc(b, v.Location, hidden)
		b.WriteByte(')')
	case gts.Joined:
		c11DumpLocList(b, "J", []gts.Location(v), hidden)
	case gts.Ordered:
		c11DumpLocList(b, "O", []gts.Location(v), hidden)
	default:
		fmt.Fprintf(b, "%T:%v", l, l)
	}
}

func c11DumpProps(b *strings.Builder, pp gts.Props, hidden bool) {
	one := func(p []string) {
		fmt.Fprintf(b, "%q", p)
		if hidden {
			fmt.Fprintf(b, "+%q", p[len(p):cap(p)])
		}
	}
	b.WriteByte('{')
	for _, p := range pp {
		one(p)
	}
	b.WriteByte('}')
	if hidden {
		b.WriteString("+{")
		for _, p := range pp[len(pp):cap(pp)] {
			one(p)
		}
		b.WriteByte('}')
	}
}

func c11DumpFeature(b *strings.Builder, f gts.Feature, hidden bool) {
	fmt.Fprintf(b, "%q ", f.Key)
	c11DumpLoc(b, f.Loc, hidden)
	b.WriteByte(' ')
	c11DumpProps(b, f.Props, hidden)
}

func c11DumpFeatures(ff []gts.Feature, hidden bool) string {
	var b strings.Builder
	fmt.Fprintf(&b, "n=%d", len(ff))
	for i, f := range ff {
		fmt.Fprintf(&b, " #%d:", i)
		c11DumpFeature(&b, f, hidden)
	}
	return b.String()
}

func c11DumpStrings(s []string, hidden bool) string {
	out := fmt.Sprintf("%q", s)
	if hidden {
		out += fmt.Sprintf("+%q", s[len(s):cap(s)])
	}
	return out
}

func c11DumpRefs(rr []seqio.Reference) string {
	var b strings.Builder
	b.WriteByte('[')
	for _, r := range rr {
		fmt.Fprintf(&b, "{%d %q %q %q %q %q %v %q}", r.Number, r.Info, r.Authors, r.Group, r.Title, r.Journal, r.Xref, r.Comment)
	}
	b.WriteByte(']')
	return b.String()
}

func c11DumpInfo(info interface{}, hidden bool) string {
	switch v := info.(type) {
	case nil:
		return "nil"
	case string:
		return fmt.Sprintf("string:%q", v)
	case c11Info:
		return fmt.Sprintf("c11Info{%q %s}", v.Name, c11DumpStrings(v.Tags, hidden))
	case seqio.GenBankFields:
		var b strings.Builder
		fmt.Fprintf(&b, "GenBankFields{%q %v %v %q %v def=%q acc=%q ver=%q", v.LocusName, v.Molecule, v.Topology, v.Division, v.Date, v.Definition, v.Accession, v.Version)
		fmt.Fprintf(&b, " dblink=%v", []seqio.Pair(v.DBLink))
		if hidden {
			fmt.Fprintf(&b, "+%v", []seqio.Pair(v.DBLink[len(v.DBLink):cap(v.DBLink)]))
		}
		fmt.Fprintf(&b, " kw=%s src=%q/%q/%s", c11DumpStrings(v.Keywords, hidden), v.Source.Species, v.Source.Name, c11DumpStrings(v.Source.Taxon, hidden))
		fmt.Fprintf(&b, " refs=%s", c11DumpRefs(v.References))
		if hidden {
			fmt.Fprintf(&b, "+%s", c11DumpRefs(v.References[len(v.References):cap(v.References)]))
		}
		fmt.Fprintf(&b, " comments=%s extra=[", c11DumpStrings(v.Comments, hidden))
		for _, e := range v.Extra {
			fmt.Fprintf(&b, "{%q %q fmt=%v}", e.Name, e.Value, e.Format != nil)
		}
		fmt.Fprintf(&b, "] contig=%q/%v region=%#v}", v.Contig.Accession, v.Contig.Region, v.Region)
		return b.String()
	}
	return fmt.Sprintf("%T:%#v", info, info)
}

// c11Snap is a deep snapshot of every argument, split into categories.
type c11Snap struct {
	cats []string
	kind map[string]string // category -> "bytes" | "table" | "other"
	val  map[string]string
}

func (s *c11Snap) add(cat, kind, val string) {
	s.cats = append(s.cats, cat)
	s.kind[cat] = kind
	s.val[cat] = val
}

func c11TailName(shape string) string {
	if shape == "sub" {
		return "enclosing-buffer"
	}
	return "spare-capacity"
}

func (s *c11Snap) addBuf(name string, b *c11Buf) {
	if tail := b.full[b.off+b.n : b.end]; len(tail) > 0 {
		s.add(name+"-"+c11TailName(b.shape), "bytes", fmt.Sprintf("%q", tail))
	}
	s.add(name+"-guard-bytes", "bytes", fmt.Sprintf("%q|%q", b.full[:b.off], b.full[b.end:]))
}

func (s *c11Snap) addTab(name string, visible []gts.Feature, t *c11Tab) {
	s.add(name+"-table", "table", c11DumpFeatures(visible, true))
	if len(t.full) > t.n {
		s.add(name+"-table-spare-capacity", "table", c11DumpFeatures(t.full[t.n:], true))
	}
}

func (s *c11Snap) addSeq(name string, q *c11Seq) {
	val := fmt.Sprintf("len=%d bytes=%q", gts.Len(q.seq), q.bytes())
	if q.org != nil {
		val += fmt.Sprintf(" origin=%q", q.org.String())
	}
	s.add(name+"-residues", "bytes", val)
	if q.org == nil || q.kind == "gb-raw" {
		s.addBuf(name, q.buf)
	} else {
		// NewOrigin copied the carved slice; the library never sees it.
		s.add(name+"-origin-source-buffer", "bytes", fmt.Sprintf("%q", q.buf.full))
	}
	s.addTab(name, q.seq.Features(), q.tab)
	s.add(name+"-info", "other", c11DumpInfo(q.seq.Info(), true))
}

func (w *c11World) snap() *c11Snap {
	s := &c11Snap{kind: map[string]string{}, val: map[string]string{}}
	s.addSeq("host", w.host)
	if w.guest != w.host {
		s.addSeq("guest", w.guest)
	}
	s.add("bytes-arg-residues", "bytes", fmt.Sprintf("%q", w.aux.data()))
	s.addBuf("bytes-arg", w.aux)
	s.addTab("features-arg", w.tab2.tab(), w.tab2)
	s.add("info-arg", "other", c11DumpInfo(w.info2same, true)+" / "+c11DumpInfo(w.info2other, true))
	var b strings.Builder
	for _, k := range []string{"front", "mid", "back", "source"} {
		b.WriteString(k + ":")
		c11DumpFeature(&b, w.feats[k], true)
		b.WriteString("; ")
	}
	s.add("feature-arg", "table", b.String())
	s.add("region-arg", "other", fmt.Sprintf("n=%d %#v", w.regionsN, w.regionsFull))
	return s
}

// ---------------------------------------------------------------------------
// operations

type c11Op struct {
	name string
	a, b int
	v    string
}

func (o c11Op) String() string {
	switch o.name {
	case "Insert", "Embed", "Rotate", "WithTopology":
		return fmt.Sprintf("%s(%d)", o.name, o.a)
	case "Delete", "Erase", "Slice":
		return fmt.Sprintf("%s(%d,%d)", o.name, o.a, o.b)
	case "Locate":
		return fmt.Sprintf("Locate(%s,%d,%d)", o.v, o.a, o.b)
	case "FeatureSlice.Filter":
		return fmt.Sprintf("%s(%s,%d,%d)", o.name, o.v, o.a, o.b)
	case "Concat", "WithInfo", "FeatureSlice.Insert":
		return fmt.Sprintf("%s(%s)", o.name, o.v)
	}
	return o.name
}

type c11Res struct {
	isTab bool
	seq   gts.Sequence
	tab   []gts.Feature
}

func (w *c11World) operands(v string) []gts.Sequence {
	var ss []gts.Sequence
	for _, ch := range v {
		if ch == 'H' {
			ss = append(ss, w.host.seq)
		} else {
			ss = append(ss, w.guest.seq)
		}
	}
	return ss
}

func (w *c11World) region(o c11Op) gts.Region {
	switch o.v {
	case "regions":
		return w.regionsFull[:w.regionsN]
	}
	return gts.Segment{o.a, o.b}
}

func (w *c11World) filter(o c11Op) gts.Filter {
	switch o.v {
	case "true":
		return gts.TrueFilter
	case "false":
		return gts.FalseFilter
	case "key":
		return gts.Key("gene")
	case "not-source":
		return gts.Not(gts.Key("source"))
	case "note-regexp":
		if f, err := gts.Qualifier("note", "membrane protein|n w"); err == nil {
			return f
		}
		return gts.FalseFilter
	case "selector":
		f, err := gts.Selector("/note=membrane.protein")
		if err != nil {
			return gts.FalseFilter
		}
		return f
	case "within":
		return gts.Within(o.a, o.b)
	}
	return gts.Overlap(o.a, o.b)
}

// apply runs one operation of the code under test on the world's arguments.
func (o c11Op) apply(w *c11World) c11Res {
	h, g := w.host.seq, w.guest.seq
	switch o.name {
	case "Insert":
		return c11Res{seq: gts.Insert(h, o.a, g)}
	case "Embed":
		return c11Res{seq: gts.Embed(h, o.a, g)}
	case "Delete":
		return c11Res{seq: gts.Delete(h, o.a, o.b)}
	case "Erase":
		return c11Res{seq: gts.Erase(h, o.a, o.b)}
	case "Slice":
		return c11Res{seq: gts.Slice(h, o.a, o.b)}
	case "Concat":
		// the caller's own slice is spread into the variadic parameter (as gts
		// join and Regions.Locate do), now and then with an empty piece in the
		// middle: the slice holds the same sequences afterwards.
		ss := w.operands(o.v)
		if len(ss) >= 2 && (o.a+len(o.v))%2 == 0 {
			ss = append(append(append([]gts.Sequence{}, ss[:1]...), gts.New(nil, nil, nil)), ss[1:]...)
		}
		before := heldSeq(ss...)
		res := gts.Concat(ss...)
		if after := heldSeq(ss...); after != before {
			c11ArgList = "the argument slice held\n" + before + "and holds\n" + after
		}
		return c11Res{seq: res}
	case "Reverse":
		return c11Res{seq: gts.Reverse(h)}
	case "Rotate":
		return c11Res{seq: gts.Rotate(h, o.a)}
	case "WithInfo":
		if o.v == "same" {
			return c11Res{seq: gts.WithInfo(h, w.info2same)}
		}
		return c11Res{seq: gts.WithInfo(h, w.info2other)}
	case "WithFeatures":
		return c11Res{seq: gts.WithFeatures(h, w.tab2.tab())}
	case "WithBytes":
		return c11Res{seq: gts.WithBytes(h, w.aux.data())}
	case "Copy":
		return c11Res{seq: gts.Copy(h)}
	case "Complement":
		return c11Res{seq: gts.Complement(h)}
	case "Transcribe":
		return c11Res{seq: gts.Transcribe(h)}
	case "Repair":
		return c11Res{isTab: true, tab: gts.Repair(h.Features())}
	case "FeatureSlice.Filter":
		return c11Res{isTab: true, tab: h.Features().Filter(w.filter(o))}
	case "FeatureSlice.Insert":
		return c11Res{isTab: true, tab: h.Features().Insert(w.feats[o.v])}
	case "WithTopology":
		return c11Res{seq: gts.WithTopology(h, gts.Topology(o.a))}
	case "Locate":
		return c11Res{seq: w.region(o).Locate(h)}
	}
	panic("c11: unknown operation " + o.name)
}

// c11Shadow is what the deviation model predicts about the memory a result
// shares with the arguments (nil: the result owns its memory).
type c11Shadow struct {
	bytes    []byte
	hasBytes bool
	tab      gts.FeatureSlice
	hasTab   bool
}

// c11DevInsert is the deviation "FeatureSlice.Insert appends to the table it
// was called on": sorted position as documented, then append in place.
func c11DevInsert(ff gts.FeatureSlice, f gts.Feature) gts.FeatureSlice {
	i := 0
	for i < len(ff) && ff[i].Key == "source" {
		i++
	}
	if f.Key != "source" {
		i += sort.Search(len(ff[i:]), func(j int) bool { return gts.LocationLess(f.Loc, ff[i+j].Loc) })
	}
	ff = append(ff, gts.Feature{})
	copy(ff[i+1:], ff[i:])
	ff[i] = f
	return ff
}

// deviate executes, on the shadow arguments, exactly the listed deviations of
// one operation and reports which finding is responsible for byte-level and
// table-level changes. Sharing that the operations document (shallow copies)
// is reported through the returned c11Shadow.
func (o c11Op) deviate(c *fw.Ctx, s *c11World) (sh c11Shadow, ids map[string]string) {
	ids = map[string]string{}
	h := s.host.seq
	basic := s.host.kind == "basic"
	shareAll := func(q gts.Sequence) {
		sh.bytes, sh.hasBytes = q.Bytes(), true
		sh.tab, sh.hasTab = q.Features(), true
	}
	rotate := func(n int) []byte {
		hp := h.Bytes()
		L := len(hp)
		n %= L
		if n < 0 {
			n += L
		}
		m := L - n
		return append(hp[m:], hp[:m]...)
	}
	switch o.name {
	case "Insert", "Embed":
		if c11On(c, c11KFInsert) {
			hp, gq := h.Bytes(), s.guest.seq.Bytes()
			r := append(hp[:o.a], append(gq, hp[o.a:]...)...)
			ids["bytes"] = c11KFInsert
			if basic {
				sh.bytes, sh.hasBytes = r, true
			}
		}
	case "Rotate":
		if c11On(c, c11KFRotate) {
			r := rotate(o.a)
			ids["bytes"] = c11KFRotate
			if basic {
				sh.bytes, sh.hasBytes = r, true
			}
		}
	case "Slice":
		L := gts.Len(h)
		a, b := o.a, o.b
		if a < 0 {
			a += L
		}
		if b < 0 {
			b += L
		}
		if b < a && c11On(c, c11KFRotate) {
			rotate(-a)
			ids["bytes"] = c11KFRotate
		}
	case "Concat":
		ss := s.operands(o.v)
		if len(ss) == 1 {
			shareAll(ss[0])
			break
		}
		head := ss[0]
		ff, p := head.Features(), head.Bytes()
		plen := len(p)
		inserted := false
		for _, q := range ss[1:] {
			if len(q.Features()) > 0 {
				inserted = true
			}
			if c11On(c, c11KFFSInsert) {
				for _, f := range q.Features() {
					f.Loc = f.Loc.Expand(0, plen)
					ff = c11DevInsert(ff, f)
				}
				ids["table"] = c11KFFSInsert
			}
			qb := q.Bytes()
			plen += len(qb)
			if c11On(c, c11KFConcat) {
				p = append(p, qb...)
				ids["bytes"] = c11KFConcat
			}
		}
		if !inserted {
			// no feature to insert: the result keeps the head's table (shallow copy).
			sh.tab, sh.hasTab = head.Features(), true
		} else if c11On(c, c11KFFSInsert) {
			sh.tab, sh.hasTab = ff, true
		}
		if c11On(c, c11KFConcat) {
			_, isBasic := head.(gts.BasicSequence)
			if isBasic {
				sh.bytes, sh.hasBytes = p, true
			}
		}
	case "Delete":
		if c11On(c, c11KFDelete) {
			st := h.Features()
			for i, f := range st {
				st[i].Loc = f.Loc.Expand(o.a, -o.b)
			}
			ids["table"] = c11KFDelete
			sh.tab, sh.hasTab = st, true
		}
	case "FeatureSlice.Insert":
		if c11On(c, c11KFFSInsert) {
			sh.tab, sh.hasTab = c11DevInsert(h.Features(), s.feats[o.v]), true
			ids["table"] = c11KFFSInsert
		}
	case "WithInfo", "Copy", "WithTopology":
		shareAll(h)
	case "WithFeatures":
		sh.bytes, sh.hasBytes = h.Bytes(), true
		sh.tab, sh.hasTab = s.tab2.tab(), true
	case "WithBytes":
		sh.tab, sh.hasTab = h.Features(), true
		if basic {
			sh.bytes, sh.hasBytes = s.aux.data(), true
		}
	case "Transcribe":
		sh.tab, sh.hasTab = h.Features(), true
	}
	return
}

// c11ResDump is what a result reads like through its accessors.
type c11ResDump struct {
	bytes, feats, info string
	raw                []byte
	tab                []gts.Feature
}

func c11DumpRes(r c11Res) c11ResDump {
	if r.isTab {
		return c11ResDump{feats: c11DumpFeatures(r.tab, false), tab: r.tab}
	}
	p := r.seq.Bytes()
	ff := r.seq.Features()
	return c11ResDump{
		bytes: fmt.Sprintf("len=%d bytes=%q", gts.Len(r.seq), p),
		feats: c11DumpFeatures(ff, false),
		info:  c11DumpInfo(r.seq.Info(), false),
		raw:   p, tab: ff,
	}
}

// ---------------------------------------------------------------------------
// one case

type c11Case struct {
	p    c11Params
	prog []c11Op
}

func (k *c11Case) progString() string {
	var ss []string
	for _, o := range k.prog {
		ss = append(ss, o.String())
	}
	return strings.Join(ss, ";")
}

func c11Describe(w *c11World) string {
	var b strings.Builder
	one := func(name string, q *c11Seq) {
		fmt.Fprintf(&b, " %s=%s/%s %q len=%d cap=%d info=%s F=[", name, q.kind, q.buf.shape, q.want, q.buf.n, q.buf.end-q.buf.off, c11DumpInfo(q.seq.Info(), false))
		for _, f := range q.tab.tab() {
			c11DumpFeature(&b, f, false)
			b.WriteString("; ")
		}
		fmt.Fprintf(&b, "] tablecap=%d", len(q.tab.full))
	}
	one("host", w.host)
	if w.guest == w.host {
		b.WriteString(" guest=host")
	} else {
		one("guest", w.guest)
	}
	return b.String()
}

func c11OverlapsBuf(p []byte, b *c11Buf) bool {
	if cap(p) == 0 || b == nil {
		return false
	}
	for i := range b.full {
		if &b.full[i] == &p[:1][0] {
			return true
		}
	}
	return false
}

func (m c11) run(c *fw.Ctx, k *c11Case) {
	w := c11Build(k.p)
	shadow := c11Build(k.p)
	enc := "prog=[" + k.progString() + "] " + k.p.String() + " |" + c11Describe(w)
	c.Begin(enc)
	p := k.p
	nontrivial := p.shape != "exact" || p.tabMode != "exact" || (!p.self && p.gshape != "exact")
	for _, o := range k.prog {
		c.Bucket("op:" + o.name)
		c.Bucket("combo:" + o.name + "|" + p.shape + "|" + p.hostKind)
		if o.name == "Slice" {
			a, b := o.a, o.b
			if a < 0 {
				a += p.L
			}
			if b < 0 {
				b += p.L
			}
			if b < a {
				c.Bucket("slice:wrap")
			}
		}
	}
	c.Bucket("shape:" + p.shape)
	c.Bucket("host:" + p.hostKind)
	if p.self {
		c.Bucket("guest:is-host")
	} else {
		c.Bucket("guest-shape:" + p.gshape)
		c.Bucket("guest:" + p.guestKind)
	}
	switch p.tabMode {
	case "exact":
		c.Bucket("table:len==cap")
	case "shared":
		c.Bucket("table:spare-capacity")
		c.Bucket("table:shared-host-guest")
	default:
		c.Bucket("table:spare-capacity")
	}
	if w.sharedProps {
		c.Bucket("shared:props-host-guest")
	}
	if w.sharedJoin {
		c.Bucket("shared:joined-host-guest")
	}
	c.Bucket(fmt.Sprintf("len:%d", len(k.prog)))
	c.Count(enc, nontrivial)

	prev := w.snap()
	shadowValid := true
	active := map[string]bool{}

	// step runs one operation and compares every argument before/after.
	// It returns the result (ok=false after a panic) and whether to go on.
	step := func(o c11Op) (res c11Res, sh c11Shadow, ok, goOn bool) {
		undecoded := w.host.org != nil && !w.host.org.Parsed && p.L > 0
		c11ArgList = ""
		panicked, val, site, stack := fw.Guard(func() { res = o.apply(w) })
		if c11ArgList != "" {
			c.Violate(o.name+":argument-list-modified", enc, "the slice spread into the call holds the same sequences afterwards", c11ArgList+"   (after "+o.String()+")")
			c11ArgList = ""
			return res, sh, false, false
		}
		if undecoded && w.host.org.Parsed {
			c.Bucket("unparsed-origin-decoded-by-operation")
		}
		ids := map[string]string{}
		if !panicked {
			if pp, pv, _, _ := fw.Guard(func() { sh, ids = o.deviate(c, shadow) }); pp {
				shadowValid = false
				c.Note(fmt.Sprintf("deviation model panicked on %s: %v", o.name, pv))
			}
		}
		post := w.snap()
		pred := shadow.snap()
		goOn = true
		for _, cat := range post.cats {
			if post.val[cat] == prev.val[cat] {
				continue
			}
			id := ids[post.kind[cat]]
			if shadowValid && id != "" && c11On(c, id) && post.val[cat] == pred.val[cat] {
				c.Known(id, enc)
				c.Bucket("known:" + o.name + ":" + cat)
				active[id] = true
				continue
			}
			c.Violate(o.name+":"+cat+"-modified", enc, cat+" = "+prev.val[cat], cat+" = "+post.val[cat]+"   (after "+o.String()+")")
			goOn = false
		}
		for _, cat := range post.cats {
			if post.val[cat] != pred.val[cat] {
				shadowValid = false
			}
		}
		prev = post
		if panicked {
			cls := panicClass(site, val)
			if o.name == "Repair" && strings.HasPrefix(site, "gts.Repair") && (strings.Contains(cls, "slice-bounds") || strings.Contains(cls, "index")) && c11HasTopJoin(w.host.seq.Features()) {
				c.Skip("Repair panicked on a table with a top-level join (subject of C12); arguments were still compared")
			} else {
				c.ViolateX(o.name+":"+cls, enc, "no panic", fmt.Sprint(val), stack, nil)
				goOn = false
			}
			return res, sh, false, goOn
		}
		return res, sh, true, goOn
	}

	res1, sh1, ok1, goOn := step(k.prog[0])
	if !goOn {
		return
	}
	var d1 c11ResDump
	if ok1 {
		if pp, pv, site, stack := fw.Guard(func() { d1 = c11DumpRes(res1) }); pp {
			c.ViolateX(k.prog[0].name+":result-unreadable:"+panicClass(site, pv), enc, "a readable result", fmt.Sprint(pv), stack, nil)
			return
		}
		if sh1.hasBytes && !bytes.Equal(sh1.bytes, d1.raw) {
			sh1.hasBytes = false
		}
		if sh1.hasTab && c11DumpFeatures(sh1.tab, false) != d1.feats {
			sh1.hasTab = false
		}
		if c11OverlapsBuf(d1.raw, w.host.buf) || c11OverlapsBuf(d1.raw, w.guest.buf) || c11OverlapsBuf(d1.raw, w.aux) {
			c.Bucket("stability:result-aliases-argument")
		}
	}
	for _, o := range k.prog[1:] {
		if _, _, _, goOn = step(o); !goOn {
			return
		}
	}
	op1 := k.prog[0]
	knownAll := func() {
		for id := range active {
			c.Known(id, enc)
		}
	}
	if ok1 {
		if len(k.prog) > 1 {
			c.Bucket("stability:result-after-later-ops")
		}
		var now c11ResDump
		if pp, pv, site, stack := fw.Guard(func() { now = c11DumpRes(res1) }); pp {
			c.ViolateX(op1.name+":result-unreadable:"+panicClass(site, pv), enc, "a readable result", fmt.Sprint(pv), stack, nil)
			return
		}
		if now.bytes != d1.bytes {
			if shadowValid && sh1.hasBytes && len(active) > 0 && bytes.Equal(sh1.bytes, now.raw) {
				knownAll()
				c.Bucket("known:" + op1.name + ":result-residues-unstable")
			} else {
				c.Violate(op1.name+":result-residues-unstable", enc, "result of "+op1.String()+" still reads "+d1.bytes, now.bytes+"   (after "+k.progString()+")")
				return
			}
		}
		if now.feats != d1.feats {
			if shadowValid && sh1.hasTab && len(active) > 0 && c11DumpFeatures(sh1.tab, false) == now.feats {
				knownAll()
				c.Bucket("known:" + op1.name + ":result-features-unstable")
			} else {
				c.Violate(op1.name+":result-features-unstable", enc, "result of "+op1.String()+" still reads "+d1.feats, now.feats+"   (after "+k.progString()+")")
				return
			}
		}
		if now.info != d1.info {
			c.Violate(op1.name+":result-info-unstable", enc, d1.info, now.info)
			return
		}
	}
	// re-application of operation 1 to the same original arguments.
	res2, _, ok2, goOn := step(op1)
	if !goOn || !ok1 || !ok2 {
		return
	}
	c.Bucket("stability:reapplied")
	var d2 c11ResDump
	if pp, pv, site, stack := fw.Guard(func() { d2 = c11DumpRes(res2) }); pp {
		c.ViolateX(op1.name+":result-unreadable:"+panicClass(site, pv), enc, "a readable result", fmt.Sprint(pv), stack, nil)
		return
	}
	if d2.bytes != d1.bytes || d2.feats != d1.feats || d2.info != d1.info {
		if len(active) > 0 {
			c.Skip("re-applied operation not compared: the arguments had already been modified by a listed finding")
			return
		}
		what, e, g := "residues", d1.bytes, d2.bytes
		if d2.bytes == d1.bytes {
			what, e, g = "features", d1.feats, d2.feats
			if d2.feats == d1.feats {
				what, e, g = "info", d1.info, d2.info
			}
		}
		c.Violate(op1.name+":reapplied-result-differs:"+what, enc, "first "+op1.String()+": "+e, "again after "+k.progString()+": "+g)
	}
}

func c11HasTopJoin(ff []gts.Feature) bool {
	for _, f := range ff {
		if _, ok := f.Loc.(gts.Joined); ok {
			return true
		}
	}
	return false
}

// ---------------------------------------------------------------------------
// workload

// c11Variants lists the operation variants of the systematic sweep for a host
// of length L (>= 8). rep marks one representative per operation.
func c11Variants(L int) (all []c11Op, reps []c11Op) {
	add := func(rep bool, o c11Op) {
		all = append(all, o)
		if rep {
			reps = append(reps, o)
		}
	}
	for _, name := range []string{"Insert", "Embed"} {
		add(true, c11Op{name: name, a: 3})
		add(false, c11Op{name: name, a: 0})
		add(false, c11Op{name: name, a: L})
	}
	for _, name := range []string{"Delete", "Erase"} {
		add(true, c11Op{name: name, a: 2, b: 3})
		add(false, c11Op{name: name, a: 0, b: 2})
		add(false, c11Op{name: name, a: L - 2, b: 2})
		add(false, c11Op{name: name, a: 2, b: 0})
		add(false, c11Op{name: name, a: 0, b: L})
	}
	add(true, c11Op{name: "Slice", a: 6, b: 2})
	add(false, c11Op{name: "Slice", a: 2, b: 6})
	add(false, c11Op{name: "Slice", a: 0, b: L})
	add(false, c11Op{name: "Slice", a: -5, b: -1})
	add(false, c11Op{name: "Slice", a: -2, b: 3})
	add(false, c11Op{name: "Slice", a: 3, b: 3})
	add(true, c11Op{name: "Concat", v: "HG"})
	for _, v := range []string{"H", "HGH", "GH", "HH", "HGG"} {
		add(false, c11Op{name: "Concat", v: v})
	}
	add(true, c11Op{name: "Reverse"})
	add(true, c11Op{name: "Rotate", a: 3})
	add(false, c11Op{name: "Rotate", a: 0})
	add(false, c11Op{name: "Rotate", a: -3})
	add(false, c11Op{name: "Rotate", a: L + 1})
	add(true, c11Op{name: "WithInfo", v: "same"})
	add(false, c11Op{name: "WithInfo", v: "other"})
	add(true, c11Op{name: "WithFeatures"})
	add(true, c11Op{name: "WithBytes"})
	add(true, c11Op{name: "Copy"})
	add(true, c11Op{name: "Complement"})
	add(true, c11Op{name: "Transcribe"})
	add(true, c11Op{name: "Repair"})
	add(true, c11Op{name: "FeatureSlice.Filter", v: "overlap", a: 2, b: 6})
	for _, v := range []string{"true", "false", "key", "not-source", "note-regexp", "selector"} {
		add(false, c11Op{name: "FeatureSlice.Filter", v: v})
	}
	add(false, c11Op{name: "FeatureSlice.Filter", v: "within", a: 1, b: L - 1})
	add(true, c11Op{name: "FeatureSlice.Insert", v: "front"})
	for _, v := range []string{"mid", "back", "source"} {
		add(false, c11Op{name: "FeatureSlice.Insert", v: v})
	}
	add(true, c11Op{name: "WithTopology", a: int(gts.Circular)})
	add(false, c11Op{name: "WithTopology", a: int(gts.Linear)})
	add(true, c11Op{name: "Locate", v: "regions"})
	add(false, c11Op{name: "Locate", v: "fwd", a: 1, b: L - 1})
	add(false, c11Op{name: "Locate", v: "rev", a: L - 1, b: 1})
	return
}

func c11RandOp(r *rand.Rand, L int) c11Op {
	name := c11OpNames[r.Intn(len(c11OpNames))]
	o := c11Op{name: name}
	switch name {
	case "Insert", "Embed":
		o.a = r.Intn(L + 1)
	case "Delete", "Erase":
		o.a = r.Intn(L + 1)
		o.b = r.Intn(L - o.a + 1)
	case "Slice":
		o.a = r.Intn(2*L+1) - L
		o.b = r.Intn(2*L+1) - L
	case "Concat":
		o.v = []string{"H", "HG", "HGH", "GH", "HH", "HGG", "GHG"}[r.Intn(7)]
	case "Rotate":
		o.a = r.Intn(4*L+1) - 2*L
	case "WithInfo":
		o.v = []string{"same", "other"}[r.Intn(2)]
	case "FeatureSlice.Filter":
		o.v = []string{"true", "false", "key", "not-source", "within", "overlap", "note-regexp", "selector"}[r.Intn(8)]
		o.a = r.Intn(L + 1)
		o.b = o.a + r.Intn(L-o.a+1)
	case "FeatureSlice.Insert":
		o.v = []string{"front", "mid", "back", "source"}[r.Intn(4)]
	case "WithTopology":
		o.a = r.Intn(2)
	case "Locate":
		o.v = []string{"fwd", "rev", "regions"}[r.Intn(3)]
		x := r.Intn(L + 1)
		y := x + r.Intn(L-x+1)
		if o.v == "rev" {
			o.a, o.b = y, x
		} else {
			o.a, o.b = x, y
		}
	}
	return o
}

func (m c11) Run(c *fw.Ctx) {
	const L, G = 8, 5
	all, reps := c11Variants(L)
	idx := 0
	sysParams := func(shape, kind, tabMode string) c11Params {
		idx++
		return c11Params{shape: shape, gshape: c11Shapes[idx%3], hostKind: kind, guestKind: c11Kinds[(idx/3)%4],
			tabMode: tabMode, L: L, G: G, nfeat: 4, noJoin: idx%2 == 0, self: idx%11 == 0, seed: int64(1000 + idx%7)}
	}
	// A. every operation variant x shape x host kind x table mode, alone.
	for _, o := range all {
		for _, shape := range c11Shapes {
			for _, kind := range c11Kinds {
				for _, tm := range c11TabModes {
					p := sysParams(shape, kind, tm)
					if !c.NextShared() {
						continue
					}
					m.run(c, &c11Case{p: p, prog: []c11Op{o}})
				}
			}
		}
	}
	c.Exhaustive(fmt.Sprintf("%d operation variants x 3 buffer shapes x 4 host kinds x 3 table modes (1-operation programs)", len(all)))
	// B. ordered pairs.
	pairOps := reps
	if c.Thorough() {
		pairOps = all
	}
	for _, o1 := range pairOps {
		for _, o2 := range pairOps {
			for _, shape := range c11Shapes {
				for _, kind := range c11Kinds {
					p := sysParams(shape, kind, c11TabModes[idx%3])
					if !c.NextShared() {
						continue
					}
					m.run(c, &c11Case{p: p, prog: []c11Op{o1, o2}})
				}
			}
		}
	}
	c.Exhaustive(fmt.Sprintf("%d x %d ordered operation pairs x 3 buffer shapes x 4 host kinds (2-operation programs)", len(pairOps), len(pairOps)))
	// C. seeded programs of length 1..4 over random arguments.
	N := c.Pick(1500, 60000)
	r := c.Rng
	for it := 0; it < N; it++ {
		c.NextOwn()
		p := c11Params{shape: c11Shapes[r.Intn(3)], gshape: c11Shapes[r.Intn(3)], hostKind: c11Kinds[r.Intn(4)], guestKind: c11Kinds[r.Intn(4)],
			tabMode: c11TabModes[r.Intn(3)], L: 1 + r.Intn(40), G: r.Intn(12), nfeat: r.Intn(7), noJoin: r.Intn(3) == 0, self: r.Intn(12) == 0, seed: r.Int63()}
		if r.Intn(4) == 0 {
			p.L = 1 + r.Intn(6)
		}
		if p.tabMode == "shared" && p.G == 0 {
			p.G = 1 + r.Intn(5)
		}
		n := 1 + r.Intn(4)
		prog := make([]c11Op, n)
		for i := range prog {
			prog[i] = c11RandOp(r, p.L)
		}
		if c.Replaying() && c.Seq() != c.ReplaySeq {
			continue
		}
		m.run(c, &c11Case{p: p, prog: prog})
	}
}

// c11ArgList reports a changed argument slice from inside an operation.
var c11ArgList string

var c11Vocabulary = []string{"direction", "allele", "anticodon", "bound_moiety", "cell_line", "country", "EC_number", "estimated_length", "exception", "experiment",
	"frequency", "function", "inference", "map", "mobile_element_type", "number", "operon", "PCR_conditions", "phenotype", "plasmid", "regulatory_class", "replace",
	"rpt_family", "rpt_type", "rpt_unit_range", "satellite", "strain", "transl_except", "transl_table", "standard_name", "old_locus_tag", "ncRNA_class", "mod_base", "tag_peptide"}

var c11VocabValues = []string{"left", "right", "LEFT", "RIGHT", "1", "2", "11", "3..9", "(pos:5..7,aa:Met)", "unknown", "other", "tandem", "a:b", "acgt", ""}
