package mon

import (
	"bytes"
	"fmt"
	"math/rand"
	"os"
	"path/filepath"
	"regexp"
	"sort"
	"strings"
	"time"

	"github.com/go-gts/gts"
	"github.com/go-gts/gts/seqio"

	"verifharness/cli"
	"verifharness/fw"
	"verifharness/gen"
	"verifharness/model"
)

type c15 struct{ base }

func init() { register(c15{}) }

func (c15) ID() string { return "C15" }
func (c15) Rule() string {
	return "the real gts binary (--no-cache) is run on generated GenBank records (20..60 residues that are pairwise distinct complement-invariant printable ids, 0..7 uniquely labelled features over ranges/points/joins/complements, linear and circular) and on the phiX174 corpus record, with locators built from points, ranges, complement(range), selectors by key and /label regexp matching 0..k features, each optionally with a modifier that stays in range (for gts rotate and single-cut gts split on circular records also positions before residue 1 or after the last residue, which wrap); commands delete [-e], insert [-e] (literal and file guests), infix [-e], split, rotate, extract [-v], each also with -F fasta. stdout is parsed back with seqio. Every third case is also run with the cache on, after the sibling invocation (-e or -v toggled; rotate for split and split for rotate) on the same input over the same cache directory, twice: it must print what the --no-cache run printed. The located regions are obtained from the same locator through the library (locator semantics are C08's); the expected output is computed by the model from the regions: delete -> residues minus the union, one record, features = image under the deletion of the maximal runs; insert/infix -> one guest copy per located region at its Head() in input coordinates, features = image under the insertions; split -> pieces concatenate to the input (circular: to the input rotated to a cut), cut set = one acceptable position per region (Head, or the lower coordinate for reverse-strand regions), fragments of each feature together cover its residues; rotate -> first located Head at index 0, features cyclically shifted; extract -> one record per distinct region shorter than the record (a single region as long as the record is don't-care), residues = model extraction, every feature of an extracted record denotes exactly the residues (distinct ids) its input feature denotes inside the region, -v -> the maximal unlocated stretches (the whole record when nothing is located). non-trivial: >=2 located regions, or regions that overlap/nest/abut/are unsorted; distinct: (command line, input record). For bare selectors the harness wrote on generated records the located regions must be those of the selected features, part for part and strand for strand; every cached twin also follows the same command asked for the other output format. gts infix with a host file holding all records of a stream and one guest prints the concatenation of what it prints for each host alone. An eighth of the generated records name a CONTIG and carry residues; bare-modifier locators ($-5..$, ^+2..$-3, ...) on single records and streams."
}
func (c15) Assumptions() []string {
	return []string{"seqio's scanner as the reader of gts output (itself the subject of C01/C07/C16/C17)", "the library's AsLocator for which regions a locator denotes (subject of C08)", "Go toolchain; harness models"}
}
func (c15) RequiredBuckets(tier string) []string {
	out := []string{}
	for _, k := range []string{"delete", "delete -e", "insert", "insert -e", "infix", "split", "rotate", "extract", "extract -v"} {
		out = append(out, "cmd:"+k)
	}
	out = append(out, "sites:0", "sites:1", "sites:2+", "sites:overlapping", "sites:duplicate-head", "sites:reverse-strand", "sites:unsorted", "topology:circular", "topology:linear", "format:fasta", "format:genbank", "input:corpus", "input:generated", "locator:modifier", "sites:beyond-the-origin-of-a-circular-record", "cache-on:after-sibling", "cache-on:after-other-format", "extract:features-denote-their-residues", "sites:selector-regions-are-the-features'")
	return out
}
func (c15) Findings() []fw.Finding {
	return []fw.Finding{{ID: "join-drops-point-after-range", What: "join reduction drops a single base that directly follows a range", Witness: witnessJoinDropsPoint}}
}

type c15rec struct {
	text   []byte
	seq    gts.Sequence // as the CLI reads it
	bytes  []byte
	tab    []gts.Feature
	circ   bool
	corpus bool
}

func c15Generate(r *rand.Rand) (*c15rec, error) {
	L := 20 + r.Intn(41)
	o := gen.LocOpt{L: L, MaxParts: 3, MaxDepth: 2, Sites: false, Ambiguous: false}
	nf := 2 + r.Intn(6)
	if r.Intn(10) == 0 {
		nf = 0
	}
	var tab []gts.Feature
	keys := []string{"gene", "CDS", "misc_feature", "5'UTR"}
	for i := 0; i < nf; i++ {
		loc := gen.RandLoc(r, o)
		if _, ok := loc.(gts.Ordered); ok {
			loc = gts.Range(r.Intn(L-1), L)
		}
		tab = append(tab, gts.Feature{Key: keys[r.Intn(len(keys))], Loc: loc, Props: gts.Props{{"label", fmt.Sprintf("h%d", i)}}})
	}
	if r.Intn(3) == 0 {
		// features that touch residue 1 and/or the last residue.
		a, b := 1+r.Intn(L/3), L-1-r.Intn(L/3)
		var loc gts.Location
		switch r.Intn(4) {
		case 0:
			loc = gts.Join(gts.Range(0, a), gts.Range(b, L))
		case 1:
			loc = gts.Join(gts.Range(0, a), gts.Range(b, L)).Complement()
		case 2:
			loc = gts.Range(0, a)
		default:
			loc = gts.Range(b, L)
		}
		tab = append(tab, gts.Feature{Key: keys[r.Intn(len(keys))], Loc: loc, Props: gts.Props{{"label", fmt.Sprintf("h%d", len(tab))}}})
	}
	// siblings that share the outer bounds (and key) of an existing multi-part
	// feature but differ inside: distinct regions with equal Head and Tail.
	if r.Intn(3) == 0 {
		for _, f := range append([]gts.Feature(nil), tab...) {
			pp := model.Parts(f.Loc)
			if len(pp) < 2 || pp[0].Rev != pp[len(pp)-1].Rev {
				continue
			}
			lo, hi, ok := model.Bounds(pp)
			if !ok || hi-lo < 4 {
				continue
			}
			var sib gts.Location = gts.Range(lo, hi)
			switch r.Intn(3) {
			case 0:
				mid := lo + 1 + r.Intn(hi-lo-2)
				sib = gts.Join(gts.Range(lo, mid), gts.Range(mid+1, hi))
			case 1:
				// the same outer bounds and the same spliced length, another
				// interior (alternative transcripts): a one-residue gap moved.
				if hi-lo >= 5 {
					g := lo + 1 + r.Intn(hi-lo-3)
					f.Loc = gts.Join(gts.Range(lo, g), gts.Range(g+1, hi))
					sib = gts.Join(gts.Range(lo, g+1), gts.Range(g+2, hi))
					if pp[0].Rev {
						f.Loc = f.Loc.Complement()
					}
					for ti := range tab {
						if gen.Label(tab[ti]) == gen.Label(f) {
							tab[ti].Loc = f.Loc
						}
					}
				}
			}
			if pp[0].Rev {
				sib = sib.Complement()
			}
			tab = append(tab, gts.Feature{Key: f.Key, Loc: sib, Props: gts.Props{{"label", fmt.Sprintf("h%d", len(tab))}}})
			break
		}
	}
	topo := gts.Linear
	if r.Intn(2) == 0 {
		topo = gts.Circular
	}
	gb := seqio.GenBank{Fields: seqio.GenBankFields{LocusName: "GEN", Molecule: gts.DNA, Topology: topo, Division: "SYN",
		Date: seqio.Date{Year: 2021, Month: 3, Day: 4}, Definition: "generated", Accession: "GEN0001", Version: "GEN0001.1",
		Source: seqio.Organism{Species: "synthetic construct", Name: "synthetic construct", Taxon: []string{"other sequences"}}},
		Table: gen.SortedTable(tab), Origin: seqio.NewOrigin(gen.UniqueBytes(0, L))}
	if r.Intn(8) == 0 {
		// a record that names the CONTIG it was assembled from and carries the
		// residues as well.
		gb.Fields.Contig = seqio.Contig{Accession: "U00096.3", Region: gts.Segment{0, L}}
	}
	return c15Parse([]byte(gb.String()), false)
}

func c15Parse(text []byte, corpus bool) (*c15rec, error) {
	sc := seqio.NewAutoScanner(bytes.NewReader(text))
	if !sc.Scan() {
		return nil, fmt.Errorf("input does not scan: %v", sc.Err())
	}
	seq := sc.Value()
	rec := &c15rec{text: text, seq: seq, bytes: append([]byte(nil), seq.Bytes()...), tab: gen.CloneTable(seq.Features()), corpus: corpus}
	if gb, ok := seq.(seqio.GenBank); ok {
		rec.circ = gb.Fields.Topology == gts.Circular
	}
	return rec, nil
}

func parseOut(b []byte) ([]gts.Sequence, error) {
	sc := seqio.NewAutoScanner(bytes.NewReader(b))
	var out []gts.Sequence
	for sc.Scan() {
		out = append(out, sc.Value())
	}
	return out, sc.Err()
}

type c15run struct {
	c   *fw.Ctx
	env *cli.Env
}

func regionSegs(r gts.Region) []model.DSeg {
	switch v := r.(type) {
	case gts.Segment:
		return []model.DSeg{{Head: v[0], Tail: v[1]}}
	case gts.Regions:
		var out []model.DSeg
		for _, x := range v {
			out = append(out, regionSegs(x)...)
		}
		return out
	}
	return nil
}

// covered returns the maximal runs of residues covered by the regions.
func coveredRuns(regs [][]model.DSeg, L int) [][2]int {
	cov := make([]bool, L+1)
	for _, ss := range regs {
		for _, s := range ss {
			lo, hi := s.Head, s.Tail
			if hi < lo {
				lo, hi = hi, lo
			}
			for p := lo; p < hi && p < L; p++ {
				if p >= 0 {
					cov[p] = true
				}
			}
		}
	}
	var runs [][2]int
	for p := 0; p < L; {
		if !cov[p] {
			p++
			continue
		}
		q := p
		for q < L && cov[q] {
			q++
		}
		runs = append(runs, [2]int{p, q})
		p = q
	}
	return runs
}

func (x *c15run) featuresByLabel(seq gts.Sequence) map[string][]gts.Feature {
	m := map[string][]gts.Feature{}
	for _, f := range seq.Features() {
		m[gen.Label(f)] = append(m[gen.Label(f)], f)
	}
	return m
}

// streams runs the command on a stream of records and on each record alone:
// records are processed independently, so the stream's output must be the
// concatenation of the outputs for the single records.
func (x *c15run) stream(recs []*c15rec, cmd string, flags []string, locstr string) {
	c := x.c
	hostRecs := recs
	args := append([]string{cmd, locstr}, flags...)
	switch cmd {
	case "insert":
		// host records on stdin, one literal guest.
		args = append([]string{cmd, locstr, "@" + string(gen.UniqueBytes(60, 3))}, flags...)
	case "infix":
		// guest records on stdin (FASTA), the first record as the host file.
		os.WriteFile(x.env.File("shost.gb"), recs[0].text, 0644)
		args = append([]string{cmd, locstr, "shost.gb"}, flags...)
		var gs []*c15rec
		for i := range recs {
			g := gen.UniqueBytes(60+4*i, 2+i)
			gs = append(gs, &c15rec{text: []byte(fmt.Sprintf(">g%d\n%s\n", i, g)), bytes: g})
		}
		recs = gs
	}
	args = append(args, "--no-cache")
	var all []byte
	for _, r := range recs {
		all = append(all, r.text...)
	}
	enc := fmt.Sprintf("stream of %d records: gts %s", len(recs), strings.Join(args, " "))
	for _, r := range recs {
		enc += fmt.Sprintf("\n  record residues=%q F=[", clipB(r.bytes, 70))
		for _, f := range r.tab {
			enc += fmt.Sprintf("%s %s %s;", f.Key, gen.Label(f), model.SafeString(f.Loc))
		}
		enc += "]"
	}
	c.Begin(enc)
	c.Count(enc, len(recs) > 1)
	c.Bucket("stream:records-independent")
	var want []byte
	for _, r := range recs {
		o := x.env.Run(args, r.text, nil, 60*time.Second)
		if o.Exit != 0 || o.TimedOut {
			c.Skip("a single record of the stream makes the command fail (judged by the single-record cases)")
			return
		}
		want = append(want, o.Stdout...)
	}
	got := x.env.Run(args, all, nil, 60*time.Second)
	if got.TimedOut || got.Exit != 0 {
		c.Violate("stream:fails-where-single-records-succeed:"+cmd, enc, "exit 0", fmt.Sprintf("exit %d %s", got.Exit, clipS(string(got.Stderr), 400)))
		return
	}
	if !bytes.Equal(got.Stdout, want) {
		c.Violate("stream:differs-from-records-alone:"+cmd, enc, clipS(string(want), 3000), clipS(string(got.Stdout), 3000))
		return
	}
	if cmd == "infix" && len(hostRecs) > 1 {
		// a host file of several records, one guest: what is printed for each
		// host is what is printed for a host file holding that record alone.
		guest := []byte(">g\n" + string(gen.UniqueBytes(60, 3)) + "\n")
		var allHosts, wantH []byte
		for _, h := range hostRecs {
			allHosts = append(allHosts, h.text...)
			os.WriteFile(x.env.File("shost.gb"), h.text, 0644)
			o := x.env.Run(args, guest, nil, 60*time.Second)
			if o.Exit != 0 || o.TimedOut {
				return
			}
			wantH = append(wantH, o.Stdout...)
		}
		os.WriteFile(x.env.File("shost.gb"), allHosts, 0644)
		gh := x.env.Run(args, guest, nil, 60*time.Second)
		c.Bucket("stream:host-file-of-several-records")
		if gh.TimedOut || gh.Exit != 0 || !bytes.Equal(gh.Stdout, wantH) {
			c.Violate("stream:host-file-of-several-records-differs-from-hosts-alone:"+cmd, enc+fmt.Sprintf("\n  (host file holding all %d records, one guest)", len(hostRecs)), clipS(string(wantH), 3000), fmt.Sprintf("exit %d: %s", gh.Exit, clipS(string(gh.Stdout), 3000)))
		}
	}
}

func (x *c15run) one(rec *c15rec, cmd string, flags []string, locstr string, r *rand.Rand) {
	c := x.c
	L := len(rec.bytes)
	fasta := r.Intn(5) == 0
	args := []string{cmd}
	name := cmd
	for _, f := range flags {
		name += " " + f
	}
	var guestB []byte
	guestFeat := false
	var guests [][]byte
	files := map[string][]byte{}
	stdin := rec.text
	switch cmd {
	case "insert":
		guestB = gen.UniqueBytes(60, 1+r.Intn(4))
		guests = [][]byte{guestB}
		if r.Intn(2) == 0 {
			args = append(args, locstr, "@"+string(guestB))
		} else {
			gf := ">g\n" + string(guestB) + "\n"
			if r.Intn(3) == 0 {
				// an annotated guest: its feature travels with every copy.
				gg := seqio.GenBank{Fields: seqio.GenBankFields{LocusName: "GUEST", Molecule: gts.DNA, Topology: gts.Linear, Division: "SYN",
					Date: seqio.Date{Year: 2021, Month: 3, Day: 4}, Definition: "guest", Accession: "GUEST1", Version: "GUEST1.1"},
					Table: gts.FeatureSlice{{Key: "misc_binding", Loc: gts.Range(0, len(guestB)), Props: gts.Props{{"label", "gf"}}}}, Origin: seqio.NewOrigin(append([]byte(nil), guestB...))}
				gf = gg.String()
				guestFeat = true
				c.Bucket("insert:annotated-guest")
			} else if r.Intn(2) == 0 {
				// a guest file of two records: the host once with each.
				g2 := gen.UniqueBytes(62, 2+r.Intn(3))
				guests = append(guests, g2)
				gf += ">g2\n" + string(g2) + "\n"
				c.Bucket("insert:two-guests")
			}
			files["guest.fa"] = []byte(gf)
			args = append(args, locstr, "guest.fa")
		}
	case "infix":
		guestB = gen.UniqueBytes(60, 1+r.Intn(4))
		guests = [][]byte{guestB}
		files["host.gb"] = rec.text
		stdin = []byte(">g\n" + string(guestB) + "\n")
		args = append(args, locstr, "host.gb")
	default:
		args = append(args, locstr)
	}
	var loc2 string
	if cmd == "extract" && r.Intn(3) == 0 {
		// a second locator: the same range on the other strand, the same
		// locator again, or another one.
		switch r.Intn(3) {
		case 0:
			a := r.Intn(L - 1)
			b := a + 1 + r.Intn(L-a-1)
			locstr = fmt.Sprintf("%d..%d", a+1, b+1)
			loc2 = fmt.Sprintf("complement(%d..%d)", a+1, b+1)
			args[len(args)-1] = locstr
		case 1:
			loc2 = locstr
		default:
			loc2 = c15Locator(r, rec)
		}
		args = append(args, loc2)
	}
	args = append(args, flags...)
	if fasta {
		args = append(args, "-F", "fasta")
	} else if r.Intn(4) == 0 {
		// the format the input has anyway, spelled out: no option changes what
		// another option does.
		args = append(args, []string{"-F", "--format"}[r.Intn(2)], "genbank")
		c.Bucket("format:genbank-spelled-out")
	}
	args = append(args, "--no-cache")
	src := "generated"
	if rec.corpus {
		src = "corpus"
	}
	enc := fmt.Sprintf("gts %s  input(%s,circular=%v) residues=%q F=[", strings.Join(args, " "), src, rec.circ, clipB(rec.bytes, 70))
	for _, f := range rec.tab {
		enc += fmt.Sprintf("%s %s %s;", f.Key, gen.Label(f), model.SafeString(f.Loc))
	}
	enc += "]"
	c.Begin(enc)

	// regions through the library.
	var regs []gts.Region
	var lerr error
	if p, val, _, _ := fw.Guard(func() {
		for _, ls := range []string{locstr, loc2} {
			if ls == "" {
				continue
			}
			var loc gts.Locator
			loc, lerr = gts.AsLocator(ls)
			if lerr != nil {
				return
			}
			for _, rg := range loc(rec.seq) {
				regs = append(regs, rg)
			}
		}
	}); p {
		c.Skip(fmt.Sprintf("locator panics in the library (C07/C08): %v", val))
		c.Count(enc, false)
		return
	}
	if lerr != nil {
		c.Skip("locator rejected: " + lerr.Error())
		c.Count(enc, false)
		return
	}
	// cross-check of the resized regions against the spliced-coordinate model
	// (C08's oracle, applied to the very locators this run uses): the regions of
	// the bare specifier, windowed by the model, must cover the same positions
	// in the same order as the regions the library returns for X@M.
	if at := strings.LastIndex(locstr, "@"); at > 0 && loc2 == "" {
		if kind, p, q, ok := c15ParseMod(locstr[at+1:]); ok {
			var baseRegs gts.Regions
			if pn, _, _, _ := fw.Guard(func() {
				if bl, err := gts.AsLocator(locstr[:at]); err == nil {
					baseRegs = bl(rec.seq)
				}
			}); !pn && len(baseRegs) == len(regs) {
				for i := range regs {
					bs := regionSegs(baseRegs[i])
					lo, hi := model.ModWindow(kind, p, q, model.SplicedLen(bs))
					var want, got []int
					for k := lo; k < hi; k++ {
						x, _ := model.SplicedPos(bs, k)
						want = append(want, x)
					}
					gs := regionSegs(regs[i])
					for k := 0; k < model.SplicedLen(gs); k++ {
						x, _ := model.SplicedPos(gs, k)
						got = append(got, x)
					}
					okr := fmt.Sprint(want) == fmt.Sprint(got)
					if okr && lo == hi {
						okr = false
						for _, a := range model.SplicedGap(bs, lo) {
							if a == regs[i].Head() {
								okr = true
							}
						}
					}
					if !okr {
						c.Count(enc, true)
						c.Violate("located-regions-differ-from-model", enc, fmt.Sprintf("region %d of %s windowed [%d,%d): positions %v", i, locstr, lo, hi, want), fmt.Sprintf("%v (head %d)", got, regs[i].Head()))
						return
					}
				}
			}
		}
	}
	// a bare selector the harness wrote itself (key, /label=regexp,
	// key/label=regexp) on a generated record: the located regions are those of
	// the matching features, part for part and strand for strand, in table order.
	if !rec.corpus && loc2 == "" && !strings.Contains(locstr, "@") && !strings.ContainsAny(locstr[:1], "0123456789c^$") {
		key, pat := locstr, ""
		if i := strings.Index(locstr, "/label="); i >= 0 {
			key, pat = locstr[:i], locstr[i+len("/label="):]
		}
		if re, err := regexp.Compile(pat); err == nil && !strings.Contains(key, "/") {
			var want [][]model.DSeg
			for _, f := range rec.seq.Features() {
				if (key == "" || f.Key == key) && (pat == "" || re.MatchString(gen.Label(f))) {
					want = append(want, model.RegionOf(f.Loc))
				}
			}
			var got [][]model.DSeg
			for _, rg := range regs {
				got = append(got, regionSegs(rg))
			}
			c.Bucket("sites:selector-regions-are-the-features'")
			if fmt.Sprint(want) != fmt.Sprint(got) {
				c.Count(enc, true)
				c.Violate("located-regions-are-not-the-selected-features'", enc, fmt.Sprint(want), fmt.Sprint(got))
				return
			}
		}
	}
	segs := make([][]model.DSeg, len(regs))
	heads := make([]int, len(regs))
	inRange := true
	revStrand, unsorted, dupHead, overlap := false, false, false, false
	for i, rg := range regs {
		segs[i] = regionSegs(rg)
		heads[i] = rg.Head()
		for _, s := range segs[i] {
			if s.Head < 0 || s.Tail < 0 || s.Head > L || s.Tail > L {
				inRange = false
			}
			if s.Rev() {
				revStrand = true
			}
		}
		if i > 0 && heads[i] < heads[i-1] {
			unsorted = true
		}
		for j := 0; j < i; j++ {
			if heads[j] == heads[i] {
				dupHead = true
			}
		}
	}
	// On a circular record a position before residue 1 or after the last one
	// is a position all the same: gts rotate, and gts split with one cut, only
	// re-origin the record there.
	wrapOK := rec.circ && len(regs) >= 1 && (name == "rotate" || (name == "split" && len(regs) == 1))
	if !inRange && !wrapOK {
		c.Skip("a located region leaves the record (modifier out of range)")
		c.Count(enc, false)
		return
	}
	if !inRange {
		c.Bucket("sites:beyond-the-origin-of-a-circular-record")
	}
	runs := coveredRuns(segs, L)
	tot := 0
	for _, ss := range segs {
		tot += model.SplicedLen(ss)
	}
	cov := 0
	for _, rn := range runs {
		cov += rn[1] - rn[0]
	}
	if tot > cov {
		overlap = true
	}
	c.Count(enc, len(regs) >= 2 || overlap)
	c.Bucket("cmd:" + name)
	switch {
	case len(regs) == 0:
		c.Bucket("sites:0")
	case len(regs) == 1:
		c.Bucket("sites:1")
	default:
		c.Bucket("sites:2+")
	}
	if overlap {
		c.Bucket("sites:overlapping")
	}
	if dupHead {
		c.Bucket("sites:duplicate-head")
	}
	if revStrand {
		c.Bucket("sites:reverse-strand")
	}
	if unsorted {
		c.Bucket("sites:unsorted")
	}
	if rec.circ {
		c.Bucket("topology:circular")
	} else {
		c.Bucket("topology:linear")
	}
	if fasta {
		c.Bucket("format:fasta")
	} else {
		c.Bucket("format:genbank")
	}
	c.Bucket("input:" + src)
	if loc2 != "" {
		c.Bucket("extract:two-locators")
	}
	if strings.Contains(locstr, "@") || strings.HasPrefix(locstr, "^") || strings.HasPrefix(locstr, "$") {
		c.Bucket("locator:modifier")
	}

	for n, b := range files {
		os.WriteFile(x.env.File(n), b, 0644)
	}
	res := x.env.Run(args, stdin, nil, 60*time.Second)
	if res.TimedOut {
		c.Violate("hang:"+name, enc, "terminates", "watchdog expired")
		return
	}
	if res.Exit != 0 {
		es := string(res.Stderr)
		cls := "exit-nonzero:" + name
		if strings.Contains(es, "panic:") {
			cls = "cli-panic:" + name
		}
		c.Violate(cls, enc, "exit 0", fmt.Sprintf("exit %d: %s", res.Exit, clipS(es, 900)))
		return
	}
	outs, perr := parseOut(res.Stdout)
	if perr != nil {
		c.Violate("output-not-readable:"+name, enc, "gts output is read back by gts", perr.Error())
		return
	}
	viol := func(cls, exp, obs string) { c.Violate(cls+":"+name, enc, exp, obs) }

	// The same command as users run it (cache on), right after its nearest
	// sibling ran on the same input over the same cache directory: the option
	// toggled (-e, -v), or rotate for split and split for rotate. What it
	// prints must be what it prints without the cache.
	if r.Intn(3) == 0 {
		main := append([]string{}, args[:len(args)-1]...)
		sib := append([]string{}, main...)
		toggle := func(f string) {
			for i, a := range sib {
				if a == f {
					sib = append(sib[:i], sib[i+1:]...)
					return
				}
			}
			sib = append(sib, f)
		}
		switch cmd {
		case "delete", "insert", "infix":
			toggle("-e")
		case "extract":
			toggle("-v")
		case "rotate":
			sib[0] = "split"
		case "split":
			sib[0] = "rotate"
		}
		x.env.ResetCache()
		x.env.Run(sib, stdin, nil, 60*time.Second)
		{
			// the same command asked for the other output format.
			oth, had := []string{}, false
			for i := 0; i < len(main); i++ {
				if (main[i] == "-F" || main[i] == "--format") && i+1 < len(main) {
					had = true
					if main[i+1] == "fasta" {
						oth = append(oth, "-F", "genbank")
					} else {
						oth = append(oth, "-F", "fasta")
					}
					i++
					continue
				}
				oth = append(oth, main[i])
			}
			if !had {
				oth = append(oth, "-F", "fasta")
			}
			x.env.Run(oth, stdin, nil, 60*time.Second)
			c.Bucket("cache-on:after-other-format")
		}
		if cmd == "extract" && loc2 != "" && loc2 != locstr {
			// the same locators in the other order.
			swp := append([]string{}, main...)
			for i := range swp {
				if swp[i] == locstr && i+1 < len(swp) && swp[i+1] == loc2 {
					swp[i], swp[i+1] = loc2, locstr
					break
				}
			}
			x.env.Run(swp, stdin, nil, 60*time.Second)
			c.Bucket("cache-on:after-swapped-locators")
		}
		// the same command line on a slightly different input.
		otherIn := bytes.Replace(stdin, []byte("DEFINITION  "), []byte("DEFINITION  another "), 1)
		if bytes.Equal(otherIn, stdin) && len(stdin) > 2 && stdin[0] == '>' {
			otherIn = append([]byte(">another "), stdin[1:]...)
		}
		if !bytes.Equal(otherIn, stdin) {
			x.env.Run(main, otherIn, nil, 60*time.Second)
		}
		// and the same command line with other content in the file it names.
		for fn, fb := range files {
			other := bytes.Replace(fb, []byte("DEFINITION  generated"), []byte("DEFINITION  another record"), 1)
			if fn == "guest.fa" {
				other = []byte(">another guest\n" + string(gen.UniqueBytes(58, 3)) + "\n")
			}
			if bytes.Equal(other, fb) {
				continue
			}
			os.WriteFile(x.env.File(fn), other, 0644)
			x.env.Run(main, stdin, nil, 60*time.Second)
			os.WriteFile(x.env.File(fn), fb, 0644)
			c.Bucket("cache-on:after-other-file-content")
		}
		for pass := 0; pass < 2; pass++ {
			cr := x.env.Run(main, stdin, nil, 60*time.Second)
			if cr.TimedOut || cr.Exit != res.Exit || !bytes.Equal(cr.Stdout, res.Stdout) {
				c.Violate("cached-run-differs:"+name, enc+fmt.Sprintf("  (cache on, pass %d after: gts %s)", pass+1, strings.Join(sib, " ")),
					fmt.Sprintf("exit %d and the %d bytes of the --no-cache run", res.Exit, len(res.Stdout)), fmt.Sprintf("exit %d, %d bytes: %s", cr.Exit, len(cr.Stdout), clipB(cr.Stdout, 400)))
				return
			}
		}
		c.Bucket("cache-on:after-sibling")
	}

	switch cmd {
	case "delete":
		if len(outs) != 1 {
			viol("record-count", "1", fmt.Sprint(len(outs)))
			return
		}
		want := []byte{}
		prev := 0
		for _, rn := range runs {
			want = append(want, rec.bytes[prev:rn[0]]...)
			prev = rn[1]
		}
		want = append(want, rec.bytes[prev:]...)
		if !bytes.Equal(outs[0].Bytes(), want) {
			viol("residues", string(want), string(outs[0].Bytes()))
			return
		}
		if fasta {
			return
		}
		erase := len(flags) > 0
		got := x.featuresByLabel(outs[0])
		for _, f := range rec.tab {
			before := model.Parts(f.Loc)
			exp := model.ImageIdentity(before)
			for k := len(runs) - 1; k >= 0; k-- {
				rn := runs[k]
				exp = model.ReImage(exp, func(pp []model.Part) []model.XPart { return model.ImageDelete(pp, rn[0], rn[1]-rn[0]) })
			}
			g := got[gen.Label(f)]
			left := baseCount(model.Plain(exp))
			if erase && left == 0 && f.Key != "source" {
				continue // dropped or kept as sites: C03's concern
			}
			if len(g) != 1 {
				viol("feature-not-once", gen.Label(f)+" once", fmt.Sprint(len(g)))
				return
			}
			v, why, id := model.CompareImage(exp, model.Parts(g[0].Loc), model.CmpOpt{MaxCoord: len(want), IgnoreSites: true, IgnoreMarkers: true, AllowDropPoint: c.KFEnabled("join-drops-point-after-range")})
			if v == model.VKnown {
				c.Known(id, enc)
			}
			if v == model.VBad {
				viol("feature-"+why, fmt.Sprintf("%s %s -> %s", gen.Label(f), model.SafeString(f.Loc), model.XPartsString(exp)), model.SafeString(g[0].Loc))
				return
			}
		}
	case "insert", "infix":
		// one output record per guest record, each the host with that guest.
		if len(outs) != len(guests) {
			viol("record-count", fmt.Sprint(len(guests)), fmt.Sprint(len(outs)))
			return
		}
		for gi, guestB := range guests {
			out0 := outs[gi]
			idx := append([]int(nil), heads...)
			sort.Sort(sort.Reverse(sort.IntSlice(idx)))
			want := append([]byte(nil), rec.bytes...)
			for _, i := range idx {
				want = append(append(append([]byte{}, want[:i]...), guestB...), want[i:]...)
			}
			if !bytes.Equal(out0.Bytes(), want) {
				viol("residues", fmt.Sprintf("%q (guest %q at %v)", want, guestB, idx), fmt.Sprintf("%q", out0.Bytes()))
				return
			}
			if fasta {
				continue
			}
			embed := len(flags) > 0
			got := x.featuresByLabel(out0)
			if guestFeat {
				// one copy of the guest's feature per inserted copy, each over
				// the residues of its copy.
				gfs := got["gf"]
				if len(gfs) != len(idx) {
					viol("guest-feature-count", fmt.Sprintf("%d (one per located site)", len(idx)), fmt.Sprint(len(gfs)))
					return
				}
				for _, g := range gfs {
					var den []byte
					for _, a := range model.Bases(model.Atoms(model.Parts(g.Loc))) {
						if a.Pos >= 0 && a.Pos < len(out0.Bytes()) {
							den = append(den, out0.Bytes()[a.Pos])
						}
					}
					if !bytes.Equal(den, guestB) {
						viol("guest-feature-residues", fmt.Sprintf("every copy of the guest's feature denotes %q", guestB), fmt.Sprintf("%s denotes %q", model.SafeString(g.Loc), den))
						return
					}
				}
			}
			for _, f := range rec.tab {
				exp := model.ImageIdentity(model.Parts(f.Loc))
				for _, i := range idx {
					ii := i
					exp = model.ReImage(exp, func(pp []model.Part) []model.XPart { return model.ImageInsert(pp, ii, len(guestB), embed) })
				}
				g := got[gen.Label(f)]
				if len(g) != 1 {
					viol("feature-not-once", gen.Label(f)+" once", fmt.Sprint(len(g)))
					return
				}
				v, why, _ := model.CompareImage(exp, model.Parts(g[0].Loc), model.CmpOpt{MaxCoord: len(want), IgnoreSites: true})
				if v == model.VBad {
					viol("feature-"+why, fmt.Sprintf("%s %s -> %s", gen.Label(f), model.SafeString(f.Loc), model.XPartsString(exp)), model.SafeString(g[0].Loc))
					return
				}
			}
		}
	case "rotate":
		if len(outs) != 1 {
			viol("record-count", "1", fmt.Sprint(len(outs)))
			return
		}
		n := 0
		if len(regs) > 0 {
			n = -heads[0]
		}
		want := make([]byte, L)
		for k := 0; k < L; k++ {
			want[((k+n)%L+L)%L] = rec.bytes[k]
		}
		if !bytes.Equal(outs[0].Bytes(), want) {
			viol("residues", string(want), string(outs[0].Bytes()))
			return
		}
		if fasta {
			return
		}
		if gb, ok := outs[0].(seqio.GenBank); ok && gb.Fields.Topology != gts.Circular {
			viol("topology", "circular", gb.Fields.Topology.String())
			return
		}
		got := x.featuresByLabel(outs[0])
		for _, f := range rec.tab {
			before := model.Parts(f.Loc)
			exp := model.ImageRotate(before, n, L)
			g := got[gen.Label(f)]
			if len(g) != 1 {
				viol("feature-not-once", gen.Label(f)+" once", fmt.Sprint(len(g)))
				return
			}
			v, why, id := model.CompareImage(exp, model.Parts(g[0].Loc), model.CmpOpt{MaxCoord: L, CyclicL: L, IgnoreSites: true, AllowDropPoint: c.KFEnabled("join-drops-point-after-range")})
			if v == model.VKnown {
				c.Known(id, enc)
			}
			if v == model.VBad {
				viol("feature-"+why, fmt.Sprintf("%s %s -> %s", gen.Label(f), model.SafeString(f.Loc), model.XPartsString(exp)), model.SafeString(g[0].Loc))
				return
			}
		}
	case "split":
		var cat []byte
		var lens []int
		for _, o := range outs {
			cat = append(cat, o.Bytes()...)
			lens = append(lens, len(o.Bytes()))
		}
		if len(cat) != L {
			viol("pieces-length", fmt.Sprint(L), fmt.Sprint(len(cat)))
			return
		}
		// where does the concatenation start in the input?
		start := 0
		if rec.circ {
			start = -1
			for s := 0; s < L; s++ {
				if bytes.Equal(cat, append(append([]byte{}, rec.bytes[s:]...), rec.bytes[:s]...)) {
					start = s
					break
				}
			}
			if start < 0 {
				viol("pieces-do-not-concatenate", "a rotation of the input", string(cat))
				return
			}
		} else if !bytes.Equal(cat, rec.bytes) {
			viol("pieces-do-not-concatenate", string(rec.bytes), string(cat))
			return
		}
		// observed cut positions (input coordinates).
		cuts := map[int]bool{}
		pos := start
		// located positions as numbers: 0 and L are two of them, although they
		// are one place on a circular record (gts split then cuts at both and
		// prints an empty piece between them, which the statement allows).
		rawAcc := map[int]bool{}
		for i := range regs {
			h, t := regs[i].Head(), regs[i].Tail()
			rawAcc[h] = true
			if t < h {
				rawAcc[t] = true
			}
		}
		bothEnds := rawAcc[0] && rawAcc[L]
		for i, n := range lens {
			if rec.circ && bothEnds && L > 0 && pos%L == 0 && cuts[0] {
				pos += n
				continue
			}
			if i > 0 || rec.circ {
				// "every distinct located position": one cut per position, so no
				// two pieces begin at the same place (a linear record's last
				// piece may begin at L, which is not position 0).
				if L > 0 && len(lens) > 1 && ((rec.circ && cuts[pos%L]) || (!rec.circ && pos < L && cuts[pos])) {
					viol("cut-twice-at-one-position", fmt.Sprintf("one cut at %d", pos%L), fmt.Sprintf("piece lengths %v", lens))
					return
				}
				if !rec.circ && pos == L && i > 0 && lens[i-1] == 0 && i-1 > 0 {
					viol("cut-twice-at-one-position", fmt.Sprintf("one cut at %d", pos), fmt.Sprintf("piece lengths %v", lens))
					return
				}
				cuts[pos%L] = true
			}
			pos += n
		}
		if len(regs) == 0 {
			if len(outs) != 1 {
				viol("record-count", "1 (no site)", fmt.Sprint(len(outs)))
			}
			return
		}
		// every region must be cut at an acceptable position, every cut must be
		// an acceptable position of some region.
		acc := map[int]bool{}
		for i := range regs {
			h, t := regs[i].Head(), regs[i].Tail()
			a := []int{h}
			if t < h {
				a = append(a, t)
			}
			okc := false
			for _, p := range a {
				p = ((p % L) + L) % L
				acc[p] = true
				if cuts[p] || (!rec.circ && (p == 0 || p == L)) {
					okc = true
				}
			}
			if !okc {
				viol("site-not-cut", fmt.Sprintf("a cut at %v", a), fmt.Sprintf("cuts %v", keysOf(cuts)))
				return
			}
		}
		for p := range cuts {
			if !acc[p] {
				viol("cut-at-unlocated-position", fmt.Sprintf("cuts within %v", keysOf(acc)), fmt.Sprintf("cut at %d", p))
				return
			}
		}
		if fasta {
			return
		}
		// fragments of every feature together cover its residues.
		type key struct {
			pos int
			rev bool
		}
		gotAtoms := map[string]map[key]bool{}
		off := start
		for _, o := range outs {
			for _, f := range o.Features() {
				lab := gen.Label(f)
				if gotAtoms[lab] == nil {
					gotAtoms[lab] = map[key]bool{}
				}
				for _, a := range model.Bases(model.Atoms(model.Parts(f.Loc))) {
					gotAtoms[lab][key{(a.Pos + off) % L, a.Rev}] = true
				}
			}
			off += len(o.Bytes())
		}
		for _, f := range rec.tab {
			want := map[key]bool{}
			for _, a := range model.Bases(model.Atoms(model.Parts(f.Loc))) {
				want[key{a.Pos, a.Rev}] = true
			}
			g := gotAtoms[gen.Label(f)]
			same := len(g) == len(want)
			for k := range want {
				if !g[k] {
					same = false
				}
			}
			if !same {
				viol("feature-fragments", fmt.Sprintf("%s %s: %d stranded residues", gen.Label(f), model.SafeString(f.Loc), len(want)), fmt.Sprintf("%d", len(g)))
				return
			}
		}
	case "extract":
		invert := len(flags) > 0
		var wantRecs [][]byte
		if invert {
			prev := 0
			for _, rn := range runs {
				if rn[0] > prev {
					wantRecs = append(wantRecs, rec.bytes[prev:rn[0]])
				}
				prev = rn[1]
			}
			if prev < L {
				wantRecs = append(wantRecs, rec.bytes[prev:])
			}
			// nothing located (or zero-length sites only): the one maximal
			// unlocated stretch is the whole record and must be emitted.
		} else {
			seen := [][]model.DSeg{}
			for i := range regs {
				dup := false
				for _, s := range seen {
					if fmt.Sprint(s) == fmt.Sprint(segs[i]) {
						dup = true
					}
				}
				if dup {
					continue
				}
				seen = append(seen, segs[i])
				w, _ := model.SplicedWindow(rec.bytes, segs[i], 0, model.SplicedLen(segs[i]), model.ComplementByte)
				wantRecs = append(wantRecs, w)
			}
		}
		var strict, optional [][]byte
		for _, w := range wantRecs {
			if len(w) == L && !invert {
				optional = append(optional, w)
			} else {
				strict = append(strict, w)
			}
		}
		// observed records, minus full-length ones that are optional.
		var obs [][]byte
		for _, o := range outs {
			obs = append(obs, o.Bytes())
		}
		filt := func(in [][]byte) [][]byte {
			var out [][]byte
			for _, b := range in {
				if len(b) == L && len(optional) > 0 {
					continue
				}
				out = append(out, b)
			}
			return out
		}
		// a full-length record that is emitted is the extraction of a located
		// full-length region (read along its strand and parts), not anything else
		// of that length.
		for _, b := range obs {
			if len(b) == L && len(optional) > 0 {
				okb := false
				for _, w := range optional {
					if bytes.Equal(normU(b), normU(w)) {
						okb = true
					}
				}
				c.Bucket("extract:region-as-long-as-the-record")
				if !okb {
					viol("full-length-record-is-not-the-located-region", fmt.Sprintf("nothing, or %q", optional[0]), fmt.Sprintf("%q", b))
					return
				}
			}
		}
		fo := filt(obs)
		if len(fo) != len(strict) {
			viol("record-count", fmt.Sprintf("%d records (%d optional full-length)", len(strict), len(optional)), fmt.Sprintf("%d records", len(obs)))
			return
		}
		for i := range strict {
			if !bytes.Equal(normU(fo[i]), normU(strict[i])) {
				viol("residues", fmt.Sprintf("record %d = %q", i+1, strict[i]), fmt.Sprintf("%q", fo[i]))
				return
			}
		}
		// "Features in every output denote the residues they denoted in the
		// input": the residues of a generated record are pairwise distinct
		// ids, so what a feature of an extracted record denotes can be read off
		// its residues - exactly the ids its input feature denotes, as far as
		// the extracted region holds them.
		if !fasta && !rec.corpus && len(optional) == 0 && len(outs) == len(strict) {
			idsOf := func(b []byte, loc gts.Location) map[byte]bool {
				m := map[byte]bool{}
				for _, a := range model.Bases(model.Atoms(model.Parts(loc))) {
					if a.Pos >= 0 && a.Pos < len(b) {
						m[b[a.Pos]] = true
					}
				}
				return m
			}
			show := func(m map[byte]bool) string {
				var bb []byte
				for k := range m {
					bb = append(bb, k)
				}
				sort.Slice(bb, func(i, j int) bool { return bb[i] < bb[j] })
				return string(bb)
			}
			for i, o := range outs {
				region := map[byte]bool{}
				for _, b := range strict[i] {
					region[b] = true
				}
				got := map[string]map[byte]bool{}
				for _, g := range o.Features() {
					lab := gen.Label(g)
					if got[lab] == nil {
						got[lab] = map[byte]bool{}
					}
					for k := range idsOf(o.Bytes(), g.Loc) {
						got[lab][k] = true
					}
				}
				for _, f := range rec.tab {
					want := map[byte]bool{}
					for k := range idsOf(rec.bytes, f.Loc) {
						if region[k] {
							want[k] = true
						}
					}
					if show(want) != show(got[gen.Label(f)]) {
						viol("feature-residues", fmt.Sprintf("record %d: %s %s denotes %q of the extracted residues", i+1, gen.Label(f), model.SafeString(f.Loc), show(want)), fmt.Sprintf("%q", show(got[gen.Label(f)])))
						return
					}
				}
			}
			c.Bucket("extract:features-denote-their-residues")
		}
	}
}

// c15ParseMod reads the modifier spellings c15Locator produces.
func c15ParseMod(m string) (kind string, p, q int, ok bool) {
	num := func(t string) (int, bool) {
		if t == "" {
			return 0, true
		}
		var n int
		if _, err := fmt.Sscanf(t, "%d", &n); err != nil {
			return 0, false
		}
		return n, true
	}
	end := func(t string) (byte, int, bool) {
		if t == "" || (t[0] != '^' && t[0] != '$') {
			return 0, 0, false
		}
		n, ok := num(t[1:])
		return t[0], n, ok
	}
	if i := strings.Index(m, ".."); i >= 0 {
		a, pa, ok1 := end(m[:i])
		b, pb, ok2 := end(m[i+2:])
		if !ok1 || !ok2 {
			return "", 0, 0, false
		}
		switch string([]byte{a, b}) {
		case "^$", "^^", "$$":
			return string([]byte{a, b}), pa, pb, true
		}
		return "", 0, 0, false
	}
	a, pa, ok1 := end(m)
	if !ok1 {
		return "", 0, 0, false
	}
	return string([]byte{a}), pa, 0, true
}

func keysOf(m map[int]bool) []int {
	var k []int
	for x := range m {
		k = append(k, x)
	}
	sort.Ints(k)
	return k
}

func clipB(b []byte, n int) []byte {
	if len(b) > n {
		return b[:n]
	}
	return b
}

func clipS(s string, n int) string {
	if len(s) > n {
		return s[:n]
	}
	return s
}

func c15Locator(r *rand.Rand, rec *c15rec) string {
	L := len(rec.bytes)
	var x string
	switch []int{0, 1, 2, 3, 3, 3, 4, 4, 4, 5, 6}[r.Intn(11)] {
	case 0:
		x = fmt.Sprint(1 + r.Intn(L))
	case 1:
		a := r.Intn(L - 1)
		b := a + 1 + r.Intn(L-a-1)
		x = fmt.Sprintf("%d..%d", a+1, b+1)
	case 2:
		a := r.Intn(L - 1)
		b := a + 1 + r.Intn(L-a-1)
		if r.Intn(6) == 0 {
			a, b = 0, L-1 // the whole record, read on the other strand
		}
		x = fmt.Sprintf("complement(%d..%d)", a+1, b+1)
	case 3:
		if rec.corpus {
			x = []string{"CDS", "gene", "/gene=[ABC]$", "CDS/product=protein", "source"}[r.Intn(5)]
		} else {
			x = []string{"gene", "CDS", "misc_feature", "5'UTR"}[r.Intn(4)]
		}
	case 4:
		if rec.corpus {
			x = "/locus_tag=phiX174p0[1-5]"
		} else {
			x = fmt.Sprintf("/label=h[%d-%d]$", r.Intn(3), 2+r.Intn(5))
		}
	case 5:
		if rec.corpus {
			x = "gene/gene=^[D-K]$"
		} else {
			x = fmt.Sprintf("%s/label=^h%d$", []string{"", "gene", "CDS"}[r.Intn(3)], r.Intn(8))
		}
	default:
		x = "/label=nomatch"
	}
	if r.Intn(12) == 0 {
		// a bare modifier: a stretch of the whole record, counted from either end.
		return []string{"$-5..$", "^..^+4", "^+2..$-3", "$-1", "^+3", "$-8..$-2"}[r.Intn(6)]
	}
	if r.Intn(3) == 0 {
		mods := []string{"^", "$", "^..$", "^+1..$-1", "^..^+2", "$-2..$", "^-1..$+1", "^+1", "$-1", "^-5", "^-3..$", "$+4"}
		return x + "@" + mods[r.Intn(len(mods))]
	}
	return x
}

// c15cmd is one gts edit command line shape driven by c15Drive.
type c15cmd struct {
	cmd   string
	flags []string
}

var c15AllCmds = []c15cmd{{"delete", nil}, {"delete", []string{"-e"}}, {"insert", nil}, {"insert", []string{"-e"}}, {"infix", nil}, {"infix", []string{"-e"}}, {"split", nil}, {"rotate", nil}, {"extract", nil}, {"extract", []string{"-v"}}}

func (m c15) Run(c *fw.Ctx) { c15Drive(c, c15AllCmds, c.Pick(250, 8000)) }

// c15Drive runs N cases of the given gts commands on the real binary and
// judges each output against the models. It is C15's workload; C02, C03, C04
// and C08 name the same commands among their observation points and drive
// their subset through it, so a defect in the wiring of `gts insert` is
// reported by the check of the property it breaks.
func c15Drive(c *fw.Ctx, cmds []c15cmd, N int) {
	bin := os.Getenv("GTS_BIN")
	if bin == "" {
		c.Inconclusive("GTS_BIN not set")
		return
	}
	env, err := cli.New(bin, filepath.Join(c.WorkDir, fmt.Sprintf("c15-%d", c.Shard)))
	if err != nil {
		c.Inconclusive(err.Error())
		return
	}
	defer os.RemoveAll(env.Root)
	x := &c15run{c: c, env: env}
	repo := os.Getenv("VERIF_REPO_DIR")
	if repo == "" {
		repo = "/repo"
	}
	var corpus *c15rec
	if b, err := os.ReadFile(filepath.Join(repo, "seqio", "testdata", "NC_001422.gb")); err == nil {
		corpus, err = c15Parse(b, true)
		if err != nil {
			c.Inconclusive("corpus record does not scan: " + err.Error())
			corpus = nil
		} else if gb, ok := corpus.seq.(seqio.GenBank); ok {
			// give every corpus feature a unique /label so fragments can be
			// matched, and feed gts the re-written record.
			tab := gen.CloneTable(gb.Table)
			for i := range tab {
				tab[i].Props.Add("label", fmt.Sprintf("h%d", i))
			}
			gb.Table = tab
			corpus, err = c15Parse([]byte(gb.String()), true)
			if err != nil {
				c.Inconclusive("relabelled corpus record does not scan: " + err.Error())
				corpus = nil
			}
		}
	}
	r := c.Rng
	for it := 0; it < N; it++ {
		c.NextOwn()
		var rec *c15rec
		recSeed := r.Int63()
		caseSeed := r.Int63()
		k := cmds[it%len(cmds)]
		if c.Replaying() && c.Seq() != c.ReplaySeq {
			continue
		}
		rr := rand.New(rand.NewSource(recSeed))
		if corpus != nil && it%6 == 5 {
			rec = corpus
		} else {
			rec, err = c15Generate(rr)
			if err != nil {
				c.Skip("generated record is not read back by gts (C01): " + err.Error())
				continue
			}
		}
		cr := rand.New(rand.NewSource(caseSeed))
		loc := c15Locator(cr, rec)
		if (k.cmd == "rotate" || k.cmd == "split") && rec.circ && cr.Intn(4) == 0 {
			// a position before residue 1 (or after the last) of a circular record.
			if cr.Intn(2) == 0 {
				loc = fmt.Sprintf("%d@^-%d", 1+cr.Intn(5), 6+cr.Intn(10))
			} else {
				loc = fmt.Sprintf("%d@$+%d", len(rec.bytes)-cr.Intn(5), 6+cr.Intn(10))
			}
		}
		if k.cmd == "split" && !rec.corpus && cr.Intn(3) == 0 {
			// every labelled feature at once, cut at one of its ends: many
			// sites, positions that repeat without being neighbours in table
			// order.
			loc = "/label=^h" + []string{"@$", "@^", "@$-1", "@^+1", ""}[cr.Intn(5)]
		}
		x.one(rec, k.cmd, k.flags, loc, cr)
		if (it/len(cmds))%3 == 0 && !rec.corpus {
			// the same command over a stream of 2..3 generated records.
			recs := []*c15rec{rec}
			for n := 1 + cr.Intn(2); n > 0; n-- {
				if r2, err := c15Generate(cr); err == nil {
					recs = append(recs, r2)
				}
			}
			sl := loc
			if !strings.ContainsAny(loc, "/") && cr.Intn(2) == 0 {
				sl = []string{"gene", "CDS", "misc_feature", "gene@^", "CDS@$"}[cr.Intn(5)]
			}
			x.stream(recs, k.cmd, k.flags, sl)
		}
	}
}
