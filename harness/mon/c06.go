package mon

import (
	"fmt"
	"io"
	"math/rand"
	"strings"
	"testing/iotest"

	"github.com/go-gts/gts"
	"github.com/go-gts/gts/seqio"

	"verifharness/fw"
	"verifharness/gen"
	"verifharness/model"
)

type c06 struct{ base }

func init() { register(c06{}) }

func (c06) ID() string { return "C06" }
func (c06) Rule() string {
	return "values: every location of gen.Universe(L<=6,arity<=3) and seeded locations built with the public constructors (Join/Order/.Complement/PartialRange; depth<=3, 1..5 parts, incl. abutting, duplicate, overlapping and single-base parts): AsLocation(v.String()) must succeed, print identically and have equal atoms (residues, sites, strand, ambiguity) and open-end markers. strings: printed values, the legacy trailing '>' spelling, 1-3 character mutations of printed values, and random strings over the location alphabet: for every accepted string print(parse(s)) must be a fixed point of parse-then-print. text: expressions assembled by the harness over pairwise separated leaves (points, between-sites, partial ranges, ambiguous spans; join/order/complement nested up to depth 3, members in any order): AsLocation(text) must denote exactly what the expression says (the model reads it off a literal value no library constructor touched): same residues, sites, strands, order, open-end markers, join vs order; and its print must read back to the same. reduction: for raw part lists P (abutting, duplicate, single-base, zero-length, complemented members) Join(P...) and Order(P...) must denote the same set of residues in the same order of first occurrence, on the same strands, as the concatenation of the members. non-trivial: a list location, a partial end, or a string that is not a printed value; distinct: canonical case text. Every harness-written location text is also read from the location column of a GenBank record: on one line / continued behind each comma, LF / CRLF, the record delivered whole / byte by byte / with a 4096-byte read boundary at every offset of the text; each spelling must denote what the text denotes. The text stands in the first or in a later feature of the table. Member lists end in runs of complemented members (also behind joins); Join of one literal join prints like Join of its members. A quarter of the harness-written 3'-partial ranges use the legacy spelling a..b> inside the expression."
}
func (c06) RequiredBuckets(tier string) []string {
	out := []string{"value:roundtrip", "string:accepted", "string:rejected", "string:legacy-gt", "string:mutated", "string:random", "reduce:join", "reduce:order",
		"reduce:abutting", "reduce:duplicate", "reduce:site-absorbed", "reduce:complemented-members", "depth:3", "text:denotation", "text:depth>=3", "text:table-column:in-a-later-feature"}
	for _, a := range []string{"one-line", "continued"} {
		for _, b := range []string{"lf", "crlf"} {
			for _, d := range []string{"whole", "byte-by-byte", "block-boundary-inside"} {
				out = append(out, "text:table-column:"+a+":"+b+":"+d)
			}
		}
	}
	for _, k := range []string{"point", "site", "range", "prange", "ambiguous", "join", "order", "c-range", "c-join", "c-order"} {
		out = append(out, "kind|"+k)
	}
	return out
}
func (c06) Findings() []fw.Finding {
	return []fw.Finding{
		{ID: "join-drops-point-after-range", What: "join reduction drops a single base that directly follows a range", Witness: witnessJoinDropsPoint},
		{ID: "join-reduction-not-idempotent", What: "a reduced join can still contain a repeat that re-joining (and therefore re-parsing its print) removes", Witness: func() (bool, string) {
			v := gts.Join(gts.Point(0), gts.Between(0), gts.Point(0))
			s := v.String()
			p, err := gts.AsLocation(s)
			if err != nil {
				return true, "AsLocation(" + s + ") failed: " + err.Error()
			}
			return p.String() != s, fmt.Sprintf("Join(Point(0),Between(0),Point(0)) prints %s, which parses to %s", s, p.String())
		}},
	}
}

func depthOf(loc gts.Location) int {
	switch v := loc.(type) {
	case gts.Joined:
		d := 0
		for _, x := range v {
			if k := depthOf(x); k > d {
				d = k
			}
		}
		return d + 1
	case gts.Ordered:
		d := 0
		for _, x := range v {
			if k := depthOf(x); k > d {
				d = k
			}
		}
		return d + 1
	case gts.Complemented:
		return depthOf(v.Location) + 1
	}
	return 0
}

func sameDenotation(a, b []model.Part, collapse bool) (bool, string) {
	aa, ab := model.Atoms(a), model.Atoms(b)
	if collapse {
		aa, ab = model.CollapseDups(aa), model.CollapseDups(ab)
	}
	if !model.EqualAtoms(aa, ab) {
		return false, "atoms"
	}
	ma, mb := model.MarkerSet(model.Markers(a)), model.MarkerSet(model.Markers(b))
	if len(ma) != len(mb) {
		return false, "markers"
	}
	for k := range ma {
		if !mb[k] {
			return false, "markers"
		}
	}
	return true, ""
}

func (m c06) checkValue(c *fw.Ctx, v gts.Location) {
	var s string
	if p, val, site, stack := fw.Guard(func() { s = v.String() }); p {
		c.ViolateX("value:print:"+panicClass(site, val), "value "+model.SafeString(v), "no panic", fmt.Sprint(val), stack, nil)
		return
	}
	enc := "value " + s
	c.Begin(enc)
	before := model.Parts(v)
	c.Count(enc, len(before) >= 2 || len(model.Markers(before)) > 0)
	c.Bucket("value:roundtrip")
	c.Bucket("kind|" + locKind(v))
	if d := depthOf(v); d >= 3 {
		c.Bucket("depth:3")
	}
	var parsed gts.Location
	var err error
	if p, val, site, stack := fw.Guard(func() { parsed, err = gts.AsLocation(s) }); p {
		c.ViolateX("value:parse:"+panicClass(site, val), enc, "no panic", fmt.Sprint(val), stack, nil)
		return
	}
	if err == nil {
		c.Hold(enc, func() string { return model.SafeString(parsed) + " " + model.PartsString(model.Parts(parsed)) })
	}
	if err != nil {
		c.Violate("value:print-not-accepted:"+locKind(v), enc, "accepted", err.Error())
		return
	}
	after := model.Parts(parsed)
	ps := model.SafeString(parsed)
	if ps == s {
		if ok, why := sameDenotation(before, after, false); !ok {
			c.Violate("value:same-print-different-"+why+":"+locKind(v), enc, model.PartsString(before), model.PartsString(after))
		}
		return
	}
	// print differs: the parser re-reduced the value.
	okc, _ := sameDenotation(before, after, true)
	if !model.OnlyRepeatedPointsRemoved(before, after) {
		okc = false // the listed deviation only removes a repeated single-base part
	}
	if okc && c.KFEnabled("join-reduction-not-idempotent") {
		c.Known("join-reduction-not-idempotent", enc)
		return
	}
	if c.KFEnabled("join-drops-point-after-range") {
		if red, did := model.DropPointAfterRange(model.ImageIdentity(before)); did {
			if ok, _ := sameDenotation(model.Plain(red), after, true); ok {
				c.Known("join-drops-point-after-range", enc)
				return
			}
		}
	}
	c.Violate("value:reparse-prints-differently:"+locKind(v), enc, s, ps)
}

func (m c06) checkString(c *fw.Ctx, s, origin string) {
	enc := fmt.Sprintf("string(%s) %q", origin, s)
	c.Begin(enc)
	c.Count(enc, origin != "printed")
	c.Bucket("string:" + origin)
	var v gts.Location
	var err error
	if p, val, site, stack := fw.Guard(func() { v, err = gts.AsLocation(s) }); p {
		c.ViolateX("string:parse:"+panicClass(site, val), enc, "no panic", fmt.Sprint(val), stack, nil)
		return
	}
	if err != nil {
		c.Bucket("string:rejected")
		return
	}
	c.Bucket("string:accepted")
	var t string
	if p, val, site, stack := fw.Guard(func() { t = v.String() }); p {
		c.ViolateX("string:print:"+panicClass(site, val), enc, "no panic", fmt.Sprint(val), stack, nil)
		return
	}
	var v2 gts.Location
	if p, val, site, stack := fw.Guard(func() { v2, err = gts.AsLocation(t) }); p {
		c.ViolateX("string:reparse:"+panicClass(site, val), enc, "no panic", fmt.Sprint(val), stack, nil)
		return
	}
	if err != nil {
		c.Violate("string:print-of-accepted-not-accepted", enc, "parse("+t+") ok", err.Error())
		return
	}
	t2 := model.SafeString(v2)
	if t2 == t {
		return
	}
	a, b := model.Parts(v), model.Parts(v2)
	if ok, _ := sameDenotation(a, b, true); ok && model.OnlyRepeatedPointsRemoved(a, b) && c.KFEnabled("join-reduction-not-idempotent") {
		c.Known("join-reduction-not-idempotent", enc)
		return
	}
	if c.KFEnabled("join-drops-point-after-range") {
		if red, did := model.DropPointAfterRange(model.ImageIdentity(a)); did {
			if ok, _ := sameDenotation(model.Plain(red), b, true); ok {
				c.Known("join-drops-point-after-range", enc)
				return
			}
		}
	}
	c.Violate("string:not-a-fixed-point", enc, t, t2)
}

// firstOccurrences lists residues (pos,strand) in order of first occurrence.
func firstOccurrences(aa []model.Atom) []model.Atom {
	seen := map[model.Atom]bool{}
	var out []model.Atom
	for _, a := range aa {
		if a.Site {
			continue
		}
		k := model.Atom{Pos: a.Pos, Rev: a.Rev}
		if !seen[k] {
			seen[k] = true
			out = append(out, k)
		}
	}
	return out
}

func (m c06) checkReduce(c *fw.Ctx, members []gts.Location, order bool) {
	name := "Join"
	if order {
		name = "Order"
	}
	ss := make([]string, len(members))
	for i, x := range members {
		ss[i] = model.SafeString(x)
	}
	enc := fmt.Sprintf("%s(%s)", name, strings.Join(ss, " , "))
	c.Begin(enc)
	c.Count(enc, len(members) >= 2)
	c.Bucket("reduce:" + strings.ToLower(name))
	// expected: concatenation of the members' parts, as list members.
	var exp []model.Part
	allComp := true
	for mi, x := range members {
		if _, ok := x.(gts.Complemented); !ok {
			allComp = false
		}
		_, isJoin := x.(gts.Joined)
		if cx, ok := x.(gts.Complemented); ok {
			// consecutive complemented members are merged into one complemented
			// join, which flattens a complemented join member as well.
			_, isJoin = cx.Location.(gts.Joined)
		}
		for _, p := range model.Parts(x) {
			switch {
			case !p.InList, isJoin && !order && p.Group == 1:
				// a leaf member, or a member of a join that Join flattens into
				// the new list: part of the new top-level group.
				p.Group = 0
			default:
				p.Group += 100 * (mi + 1) // keep nested lists of different members apart
			}
			p.InList = true
			p.Ord = order || p.Ord
			exp = append(exp, p)
		}
	}
	if allComp && len(members) > 1 {
		c.Bucket("reduce:complemented-members")
	}
	for i := 1; i < len(exp); i++ {
		a, b := exp[i-1], exp[i]
		if a.Kind == model.KRange && b.Kind == model.KRange && a.Hi == b.Lo {
			c.Bucket("reduce:abutting")
		}
		if a.Kind == b.Kind && a.Lo == b.Lo && a.Hi == b.Hi {
			c.Bucket("reduce:duplicate")
		}
		if (a.Kind == model.KSite) != (b.Kind == model.KSite) {
			s, o := a, b
			if b.Kind == model.KSite {
				s, o = b, a
			}
			if s.Lo == o.Lo || s.Lo == o.Hi {
				c.Bucket("reduce:site-absorbed")
			}
		}
	}
	var res gts.Location
	var obs []model.Part
	if p, val, site, stack := fw.Guard(func() {
		if order {
			res = gts.Order(members...)
		} else {
			res = gts.Join(members...)
		}
		obs = model.Parts(res)
		_ = res.String()
	}); p {
		c.ViolateX("reduce:"+panicClass(site, val), enc, "no panic", fmt.Sprint(val), stack, nil)
		return
	}
	c.Hold(enc, func() string { return model.SafeString(res) + " " + model.PartsString(model.Parts(res)) })
	if !order && len(members) > 1 {
		// the same members handed over as one literal join: Join reduces what is
		// inside a single argument as it reduces a list of arguments.
		var one gts.Location
		if p, _, _, _ := fw.Guard(func() { one = gts.Join(gts.Joined(append([]gts.Location(nil), members...))) }); !p {
			if a, b := model.SafeString(res), model.SafeString(one); a != b {
				c.Violate("reduce:join-of-one-literal-join-differs-from-join-of-its-members", enc, a, b)
				return
			}
		}
	}
	if bad := model.HasBad(obs); bad != "" && model.HasBad(exp) == "" {
		c.Violate("reduce:malformed:"+bad, enc, model.PartsString(exp), model.PartsString(obs))
		return
	}
	same := func(e []model.Part) bool {
		fe, fo := firstOccurrences(model.Atoms(e)), firstOccurrences(model.Atoms(obs))
		return model.EqualAtoms(fe, fo)
	}
	if same(exp) {
		return
	}
	if c.KFEnabled("join-drops-point-after-range") && !order {
		if red, did := model.DropPointAfterRange(model.ImageIdentity(exp)); did && same(model.Plain(red)) {
			c.Known("join-drops-point-after-range", enc)
			return
		}
	}
	c.Violate("reduce:"+strings.ToLower(name)+":residues-changed", enc, model.PartsString(exp), fmt.Sprintf("%s = %s", model.SafeString(res), model.PartsString(obs)))
}

const locAlphabet = "0123456789.^<>(),joinrdecmplt "

func mutateLocString(r *rand.Rand, s string) string {
	b := []byte(s)
	n := 1 + r.Intn(3)
	for k := 0; k < n; k++ {
		switch r.Intn(4) {
		case 0:
			if len(b) > 0 {
				i := r.Intn(len(b))
				b = append(b[:i], b[i+1:]...)
			}
		case 1:
			i := r.Intn(len(b) + 1)
			b = append(b[:i], append([]byte{locAlphabet[r.Intn(len(locAlphabet))]}, b[i:]...)...)
		case 2:
			if len(b) > 0 {
				b[r.Intn(len(b))] = locAlphabet[r.Intn(len(locAlphabet))]
			}
		default:
			if len(b) > 0 {
				b = b[:r.Intn(len(b))]
			}
		}
	}
	return string(b)
}

func rawMembers(r *rand.Rand, L int) []gts.Location {
	k := 1 + r.Intn(6)
	out := make([]gts.Location, 0, k)
	o := gen.LocOpt{L: L, MaxParts: 3, MaxDepth: 1, Ambiguous: true, Sites: true, Overlap: true}
	allComp := r.Intn(5) == 0
	// a run of complemented members behind other members (behind a join that
	// ends on the reverse strand, now and then).
	compFrom := k
	if r.Intn(3) == 0 {
		compFrom = r.Intn(k)
	}
	var prev gts.Location
	for i := 0; i < k; i++ {
		var l gts.Location
		switch {
		case prev != nil && r.Intn(3) == 0:
			// abutting / duplicate / touching follower of the previous member.
			pp := model.Parts(prev)
			q := pp[len(pp)-1]
			switch r.Intn(5) {
			case 0:
				l = prev
			case 1:
				if q.Hi < L {
					l = gts.Range(q.Hi, q.Hi+1+r.Intn(L-q.Hi))
				}
			case 2:
				if q.Hi < L {
					l = gts.Point(q.Hi)
				}
			case 3:
				l = gts.Between(q.Hi)
			default:
				l = gts.Between(q.Lo)
			}
		case r.Intn(8) == 0:
			l = gen.RandLoc(r, o)
		}
		if l == nil {
			l = gen.RandLeaf(r, 0, L, o)
		}
		prev = l
		if allComp || i >= compFrom || r.Intn(10) == 0 {
			l = l.Complement()
		}
		out = append(out, l)
	}
	return out
}

func (m c06) Run(c *fw.Ctx) {
	maxL := c.Pick(5, 6)
	for L := 1; L <= maxL; L++ {
		for _, loc := range gen.Universe(L, 3) {
			if !c.NextShared() {
				continue
			}
			m.checkValue(c, loc)
		}
		// all raw pairs and triples of leaves for the reduction clause.
		leaves := gen.Leaves(min(L, 4), false, false)
		for _, a := range leaves {
			for _, b := range leaves {
				for _, ord := range []bool{false, true} {
					if !c.NextShared() {
						continue
					}
					m.checkReduce(c, []gts.Location{a, b}, ord)
				}
			}
		}
		c.Exhaustive(fmt.Sprintf("value round trip on Universe(L=%d); Join/Order of all leaf pairs over L=%d", L, min(L, 4)))
	}
	for L := 2; L <= c.Pick(3, 4); L++ {
		leaves := gen.Leaves(L, false, false)
		for _, a := range leaves {
			for _, b := range leaves {
				for _, d := range leaves {
					if !c.NextShared() {
						continue
					}
					m.checkReduce(c, []gts.Location{a, b, d}, false)
				}
			}
		}
		c.Exhaustive(fmt.Sprintf("Join of all leaf triples over L=%d", L))
	}
	r := c.Rng
	N := c.Pick(20000, 300000)
	for it := 0; it < N; it++ {
		c.NextOwn()
		L := 1 + r.Intn(40)
		o := gen.LocOpt{L: L, MaxParts: 5, MaxDepth: 3, Ambiguous: true, Overlap: r.Intn(2) == 0, Sites: true}
		v := gen.RandLoc(r, o)
		mem := rawMembers(r, L)
		ord := r.Intn(3) == 0
		seedStr := r.Int63()
		if c.Replaying() && c.Seq() != c.ReplaySeq {
			continue
		}
		m.checkValue(c, v)
		m.checkReduce(c, mem, ord)
		s := model.SafeString(v)
		r2 := rand.New(rand.NewSource(seedStr))
		m.checkText(c, c06GenNode(r2))
		m.checkString(c, s, "printed")
		if strings.Contains(s, "..>") {
			// legacy spelling: marker after the number.
			i := strings.Index(s, "..>")
			j := i + 3
			for j < len(s) && s[j] >= '0' && s[j] <= '9' {
				j++
			}
			m.checkString(c, s[:i]+".."+s[i+3:j]+">"+s[j:], "legacy-gt")
		}
		m.checkString(c, mutateLocString(r2, s), "mutated")
		n := 1 + r2.Intn(14)
		b := make([]byte, n)
		for i := range b {
			b[i] = locAlphabet[r2.Intn(len(locAlphabet))]
		}
		m.checkString(c, string(b), "random")
	}
}

func min(a, b int) int {
	if a < b {
		return a
	}
	return b
}

// ---- text written by the harness, denotation read off the text ----

// c06Node is a location expression of the harness's own making: its text is
// assembled here, and what it denotes is read off the expression by the model
// (through a literal value that no library constructor or method touched), so
// a reader and a printer that are wrong in the same way do not cancel out.
type c06Node struct {
	kind   string // point | between | range | ambiguous | complement | join | order
	a, b   int
	p5, p3 bool
	legacy bool // a 3' marker spelled behind the number (1..5>), as older files have it
	kids   []*c06Node
}

func (n *c06Node) text() string {
	switch n.kind {
	case "point":
		return fmt.Sprint(n.a + 1)
	case "between":
		return fmt.Sprintf("%d^%d", n.a, n.a+1)
	case "ambiguous":
		return fmt.Sprintf("%d.%d", n.a+1, n.b)
	case "range":
		s := ""
		if n.p5 {
			s += "<"
		}
		s += fmt.Sprintf("%d..", n.a+1)
		if n.p3 && n.legacy {
			return s + fmt.Sprint(n.b) + ">"
		}
		if n.p3 {
			s += ">"
		}
		return s + fmt.Sprint(n.b)
	case "complement":
		return "complement(" + n.kids[0].text() + ")"
	}
	tt := make([]string, len(n.kids))
	for i, k := range n.kids {
		tt[i] = k.text()
	}
	return n.kind + "(" + strings.Join(tt, ",") + ")"
}

func (n *c06Node) literal() gts.Location {
	switch n.kind {
	case "point":
		return gts.Point(n.a)
	case "between":
		return gts.Between(n.a)
	case "ambiguous":
		return gts.Ambiguous{n.a, n.b}
	case "range":
		return gts.Ranged{Start: n.a, End: n.b, Partial: gts.Partial{Partial5: n.p5, Partial3: n.p3}}
	case "complement":
		return gts.Complemented{Location: n.kids[0].literal()}
	}
	ll := make([]gts.Location, len(n.kids))
	for i, k := range n.kids {
		ll[i] = k.literal()
	}
	if n.kind == "order" {
		return gts.Ordered(ll)
	}
	return gts.Joined(ll)
}

func (n *c06Node) depth() int {
	d := 0
	for _, k := range n.kids {
		if x := k.depth(); x > d {
			d = x
		}
	}
	if n.kind == "complement" || n.kind == "join" || n.kind == "order" {
		d++
	}
	return d
}

// c06GenNode draws an expression over pairwise separated leaves (a gap of at
// least one residue between any two, so that no reduction applies and the
// expression denotes exactly what its leaves denote, in the order written).
func c06GenNode(r *rand.Rand) *c06Node {
	nl := 1 + r.Intn(5)
	var leaves []*c06Node
	pos := r.Intn(3)
	for i := 0; i < nl; i++ {
		w := 1 + r.Intn(6)
		var lf *c06Node
		switch r.Intn(8) {
		case 0:
			lf = &c06Node{kind: "point", a: pos}
			w = 1
		case 1:
			lf = &c06Node{kind: "between", a: pos + 1}
			w = 2
		case 2:
			if w < 2 {
				w = 2
			}
			lf = &c06Node{kind: "ambiguous", a: pos, b: pos + w}
		default:
			lf = &c06Node{kind: "range", a: pos, b: pos + w, p5: r.Intn(4) == 0, p3: r.Intn(4) == 0, legacy: r.Intn(4) == 0}
		}
		leaves = append(leaves, lf)
		pos += w + 1 + r.Intn(4)
	}
	if r.Intn(3) == 0 {
		r.Shuffle(len(leaves), func(i, j int) { leaves[i], leaves[j] = leaves[j], leaves[i] })
	}
	var build func(ls []*c06Node, depth int) *c06Node
	build = func(ls []*c06Node, depth int) *c06Node {
		var n *c06Node
		if len(ls) == 1 {
			n = ls[0]
		} else {
			kind := "join"
			if r.Intn(3) == 0 {
				kind = "order"
			}
			n = &c06Node{kind: kind}
			// split the leaves into 2..len groups; a group of several leaves
			// becomes a nested list when depth allows, else its leaves are members.
			for i := 0; i < len(ls); {
				g := 1
				if depth < 2 && r.Intn(3) == 0 {
					g = 1 + r.Intn(len(ls)-i)
				}
				if g == len(ls) {
					g = len(ls) - 1
				}
				if g < 1 {
					g = 1
				}
				n.kids = append(n.kids, build(ls[i:i+g], depth+1))
				i += g
			}
		}
		if depth < 3 && r.Intn(3) == 0 {
			n = &c06Node{kind: "complement", kids: []*c06Node{n}}
		}
		return n
	}
	return build(leaves, 0)
}

func (m c06) checkText(c *fw.Ctx, n *c06Node) {
	s := n.text()
	enc := "text " + s
	c.Begin(enc)
	exp := model.Parts(n.literal())
	c.Count(enc, len(exp) >= 2 || len(model.Markers(exp)) > 0)
	c.Bucket("text:denotation")
	if n.depth() >= 3 {
		c.Bucket("text:depth>=3")
	}
	var parsed gts.Location
	var err error
	if p, val, site, stack := fw.Guard(func() { parsed, err = gts.AsLocation(s) }); p {
		c.ViolateX("text:parse:"+panicClass(site, val), enc, "no panic", fmt.Sprint(val), stack, nil)
		return
	}
	if err != nil {
		c.Violate("text:not-accepted", enc, "accepted", err.Error())
		return
	}
	obs := model.Parts(parsed)
	if ok, why := sameDenotation(exp, obs, false); !ok {
		c.Violate("text:denotes-other-"+why, enc, model.PartsString(exp), model.SafeString(parsed)+" = "+model.PartsString(obs))
		return
	}
	// join or order, part by part.
	if len(exp) == len(obs) {
		for i := range exp {
			if exp[i].Ord != obs[i].Ord {
				c.Violate("text:list-kind", enc, model.PartsString(exp), model.SafeString(parsed)+" = "+model.PartsString(obs))
				return
			}
		}
	}
	// and printing what was read gives a text that reads the same.
	ps := model.SafeString(parsed)
	var again gts.Location
	if p, _, _, _ := fw.Guard(func() { again, err = gts.AsLocation(ps) }); p || err != nil {
		c.Violate("text:print-not-accepted", enc, "accepted", ps)
		return
	}
	if ok, why := sameDenotation(exp, model.Parts(again), false); !ok {
		c.Violate("text:print-denotes-other-"+why, enc, model.PartsString(exp), ps+" = "+model.PartsString(model.Parts(again)))
		return
	}
	// The same text in the location column of a feature table, as flat files
	// spell it: on one line or continued behind a comma, LF or CRLF line ends,
	// delivered by the reader in one piece, byte by byte, or with a read
	// boundary inside the text. Every spelling denotes what the text denotes.
	c06Tick++
	hi := 1
	for _, q := range exp {
		if q.Hi > hi {
			hi = q.Hi
		}
	}
	for v := 0; v < 1; v++ {
		variant := (c06Tick + v*5) % 12
		cont, crlf, rd := variant%2 == 1, (variant/2)%2 == 1, variant/4
		loctext := s
		if cont {
			loctext = strings.ReplaceAll(s, ",", ",\n                     ")
		}
		later := (c06Tick/84)%2 == 1
		doc := c06Record(loctext, hi, later)
		if rd == 2 {
			// the read boundary of a block reader falls inside the text.
			at := strings.Index(doc, loctext)
			k := (c06Tick / 12) % (len(loctext) + 1)
			pad := (4096 - (at+k)%4096) % 4096
			doc = strings.Replace(doc, "COMMENT     x\n", "COMMENT     x"+strings.Repeat("y", pad)+"\n", 1)
		}
		if crlf {
			doc = strings.ReplaceAll(doc, "\n", "\r\n")
		}
		var src io.Reader = strings.NewReader(doc)
		if rd == 1 {
			src = iotest.OneByteReader(src)
		}
		name := fmt.Sprintf("table-column:%s:%s:%s", map[bool]string{false: "one-line", true: "continued"}[cont], map[bool]string{false: "lf", true: "crlf"}[crlf], []string{"whole", "byte-by-byte", "block-boundary-inside"}[rd])
		var tab []gts.Feature
		var serr error
		if p, val, site, stack := fw.Guard(func() {
			sc := seqio.NewScanner(seqio.GenBankParser, src)
			if sc.Scan() {
				tab = sc.Value().Features()
			}
			serr = sc.Err()
		}); p {
			c.ViolateX("text:"+name+":"+panicClass(site, val), enc, "no panic", fmt.Sprint(val), stack, nil)
			return
		}
		c.Bucket("text:" + name)
		if serr != nil || len(tab) != 2 {
			c.Violate("text:"+name+":not-read", enc, "a record with the feature and the one listed behind it", fmt.Sprintf("error %v, %d feature(s)", serr, len(tab)))
			return
		}
		mine := tab[0]
		if later {
			mine = tab[1]
			c.Bucket("text:table-column:in-a-later-feature")
		}
		if ok, why := sameDenotation(exp, model.Parts(mine.Loc), false); !ok {
			c.Violate("text:"+name+":denotes-other-"+why, enc, model.PartsString(exp), model.SafeString(mine.Loc))
			return
		}
	}
}

var c06Tick int

// c06Record is a GenBank record whose first feature has the given text in its
// location column; a second feature follows it.
func c06Record(loctext string, hi int, later bool) string {
	var b strings.Builder
	fmt.Fprintf(&b, "LOCUS       C06 %18d bp    DNA     linear   UNA 01-JAN-2020\nDEFINITION  d\nCOMMENT     x\nFEATURES             Location/Qualifiers\n", hi)
	if later {
		fmt.Fprintf(&b, "     gene            1\n                     /label=\"f1\"\n     misc_feature    %s\n                     /label=\"f0\"\nORIGIN      \n", loctext)
	} else {
		fmt.Fprintf(&b, "     misc_feature    %s\n                     /label=\"f0\"\n     gene            1\n                     /label=\"f1\"\nORIGIN      \n", loctext)
	}
	for i := 0; i < hi; i += 60 {
		fmt.Fprintf(&b, "%9d", i+1)
		for j := i; j < i+60 && j < hi; j += 10 {
			n := 10
			if j+n > hi {
				n = hi - j
			}
			b.WriteString(" " + strings.Repeat("a", n))
		}
		b.WriteString("\n")
	}
	b.WriteString("//\n")
	return b.String()
}
