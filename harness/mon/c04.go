package mon

import (
	"bytes"
	"fmt"
	"reflect"

	"github.com/go-gts/gts"

	"verifharness/fw"
	"verifharness/gen"
	"verifharness/model"
)

type c04 struct{ base }

func init() { register(c04{}) }

func (c04) ID() string { return "C04" }
func (c04) Rule() string {
	return "systematic: every location of gen.Universe(L<=5|6, arity<=3) as the single labelled feature x every n in [-3L,3L] (ambiguous spans skipped when they would cross the new origin); seeded: L<=80, tables<=8 features, BasicSequence and circular seqio.GenBank hosts, n in [-3L,3L]. Oracle: residue k moves to (k+n) mod L; every feature present once with equal key/qualifiers; base atoms == before shifted by n mod L in order and strand, a contiguous part crossing the origin appears as two parts reading across it with open ends only where the original had them, a full-length part stays [0,L), sites compared mod L, coordinates within [0,L]; laws on residues, base atoms and markers: R(b)R(a)=R(a+b), R(kL)=id, R(-n)R(n)=id. non-trivial: n mod L != 0 and the table is not empty; distinct: canonical case text. CLI layer: gts rotate and gts split of the real binary (--no-cache) on generated linear and circular records, single and as streams, judged by the C15 models (first located position at index 0, features cyclically shifted; pieces concatenate to the input re-origined at a cut; a stream's output equals the outputs of its records alone). After every Rotate the argument still holds its residues and the sentinel bytes in the spare capacity behind them."
}
func (c04) RequiredBuckets(tier string) []string {
	out := []string{"crosses-origin", "full-length", "n:negative", "n:beyond-L", "n:multiple-of-L", "law:compose", "law:inverse", "host:genbank", "host:basic"}
	for _, k := range []string{"point", "site", "range", "prange", "ambiguous", "join", "order", "c-range", "c-join"} {
		out = append(out, "kind|"+k)
	}
	out = append(out, "cmd:rotate", "cmd:split", "topology:circular", "stream:records-independent", "sites:beyond-the-origin-of-a-circular-record")
	return out
}

func (c04) Findings() []fw.Finding {
	return []fw.Finding{
		{ID: "join-drops-point-after-range", What: "join reduction drops a single base that directly follows a range", Witness: witnessJoinDropsPoint},
		{ID: "site-at-origin-not-rotated", What: "a between-site that a rotation put on the origin is not moved by the next rotation", Witness: func() (bool, string) {
			seq := gts.New(nil, gts.FeatureSlice{{Key: "misc_feature", Loc: gts.Between(3), Props: gts.Props{{"label", "w"}}}}, []byte("0123456789"))
			out := gts.Rotate(gts.Rotate(seq, 7), 2)
			got := out.Features()[0].Loc.String()
			return got != "2^3", "Rotate(Rotate(seq,7),2) of site 3^4 on 10 bases = " + got + ", want 2^3"
		}},
	}
}

func hasSiteAtZero(loc gts.Location) bool {
	for _, p := range model.Parts(loc) {
		if p.Kind == model.KSite && p.Lo == 0 {
			return true
		}
	}
	return false
}

func ambCrosses(loc gts.Location, n, L int) bool {
	n %= L
	if n < 0 {
		n += L
	}
	for _, p := range model.Parts(loc) {
		if p.Kind == model.KAmb {
			if p.Hi-p.Lo == L {
				if n != 0 {
					return true // a full-length span crosses every origin but its own
				}
				continue
			}
			lo := (p.Lo + n) % L
			if lo+(p.Hi-p.Lo) > L {
				return true
			}
		}
	}
	return false
}

func (m c04) check(c *fw.Ctx, kind string, tab []gts.Feature, hostB []byte, n int) {
	L := len(hostB)
	enc := fmt.Sprintf("Rotate host=%s:%q n=%d F=[", kind, hostB, n)
	for _, f := range tab {
		enc += fmt.Sprintf("%s %s %v;", f.Key, model.SafeString(f.Loc), f.Props)
	}
	enc += "]"
	c.Begin(enc)
	nn := ((n % L) + L) % L
	c.Count(enc, nn != 0 && len(tab) > 0)
	c.Bucket("host:" + kind)
	switch {
	case n < 0:
		c.Bucket("n:negative")
	case n >= L:
		c.Bucket("n:beyond-L")
	}
	if nn == 0 {
		c.Bucket("n:multiple-of-L")
	}
	host := mkHost(kind, tab, hostB)
	if kind == "genbank" {
		host = gts.WithTopology(host, gts.Circular)
	}
	var res gts.Sequence
	p, val, site, stack := fw.Guard(func() { res = gts.Rotate(host, n) })
	if p {
		c.ViolateX("Rotate:"+panicClass(site, val), enc, "no panic", fmt.Sprint(val), stack, nil)
		return
	}
	c.Hold(enc, func() string { return heldSeq(res) })
	if how := hostMemoryTouched(host, hostB); how != "" {
		c.Violate("Rotate:writes-into-the-memory-of-its-argument", enc, "the argument's residues and the bytes behind them (its buffer was appended to: spare capacity) untouched", how)
		return
	}
	want := make([]byte, L)
	for k := 0; k < L; k++ {
		want[(k+nn)%L] = hostB[k]
	}
	if !bytes.Equal(res.Bytes(), want) {
		c.Violate("Rotate:residues", enc, string(want), string(res.Bytes()))
		return
	}
	if len(res.Features()) != len(tab) {
		c.Violate("Rotate:feature-count", enc, fmt.Sprint(len(tab)), fmt.Sprint(len(res.Features())))
		return
	}
	got := map[string][]gts.Feature{}
	for _, f := range res.Features() {
		got[gen.Label(f)] = append(got[gen.Label(f)], f)
	}
	for _, f := range tab {
		g := got[gen.Label(f)]
		if len(g) != 1 {
			c.Violate("Rotate:feature-not-once", enc, "1 x "+gen.Label(f), fmt.Sprint(len(g)))
			return
		}
		if g[0].Key != f.Key || !reflect.DeepEqual(g[0].Props, f.Props) {
			c.Violate("Rotate:feature-key-props", enc, fmt.Sprintf("%s %v", f.Key, f.Props), fmt.Sprintf("%s %v", g[0].Key, g[0].Props))
			return
		}
		before := model.Parts(f.Loc)
		c.Bucket("kind|" + locKind(f.Loc))
		{
			// a residue denoted twice together with a full-length part: which
			// duplicate the (legitimate) reductions absorb depends on where the
			// cyclic normalisation of the full-length part starts; not compared.
			seen := map[int]bool{}
			dup, fullLen := false, false
			for _, a := range model.Bases(model.Atoms(before)) {
				if seen[a.Pos] {
					dup = true
				}
				seen[a.Pos] = true
			}
			for _, q := range before {
				if q.Kind != model.KSite && q.Hi-q.Lo == L {
					fullLen = true
				}
			}
			if dup && fullLen {
				c.Bucket("skipped:duplicate-residue-with-full-length-part")
				continue
			}
		}
		exp := model.ImageRotate(before, n, L)
		if len(exp) > len(before) {
			c.Bucket("crosses-origin")
		}
		for _, q := range before {
			if q.Kind != model.KSite && q.Hi-q.Lo == L {
				c.Bucket("full-length")
			}
		}
		var obs []model.Part
		pp, pv, _, _ := fw.Guard(func() { obs = model.Parts(g[0].Loc) })
		if pp {
			c.Violate("Rotate:unreadable-location", enc, "", fmt.Sprint(pv))
			return
		}
		v, why, kid := model.CompareImage(exp, obs, model.CmpOpt{MaxCoord: L, CyclicL: L, AllowDropPoint: c.KFEnabled("join-drops-point-after-range")})
		if v == model.VKnown {
			c.Known(kid, enc)
			continue
		}
		if v != model.VOK {
			c.Violate("Rotate:loc:"+why+":"+locKind(f.Loc), enc,
				fmt.Sprintf("feature %s %s -> %s", gen.Label(f), model.SafeString(f.Loc), model.XPartsString(exp)),
				fmt.Sprintf("%s = %s", model.SafeString(g[0].Loc), model.PartsString(obs)))
			return
		}
	}
}

// sameDen compares two tables feature by feature on base atoms and markers.
func sameDen(a, b gts.FeatureSlice) (bool, string) {
	ma := map[string]gts.Feature{}
	for _, f := range a {
		ma[gen.Label(f)] = f
	}
	if len(a) != len(b) {
		return false, "feature count"
	}
	for _, g := range b {
		f, ok := ma[gen.Label(g)]
		if !ok {
			return false, "missing " + gen.Label(g)
		}
		pa, pb := model.Parts(f.Loc), model.Parts(g.Loc)
		if !model.EqualAtoms(model.CollapseDups(model.Bases(model.Atoms(pa))), model.CollapseDups(model.Bases(model.Atoms(pb)))) {
			return false, fmt.Sprintf("%s: %s vs %s", gen.Label(g), model.SafeString(f.Loc), model.SafeString(g.Loc))
		}
		sa, sb := model.MarkerSet(model.Markers(pa)), model.MarkerSet(model.Markers(pb))
		if len(sa) != len(sb) {
			return false, fmt.Sprintf("%s markers: %s vs %s", gen.Label(g), model.SafeString(f.Loc), model.SafeString(g.Loc))
		}
		for k := range sa {
			if !sb[k] {
				return false, fmt.Sprintf("%s markers: %s vs %s", gen.Label(g), model.SafeString(f.Loc), model.SafeString(g.Loc))
			}
		}
	}
	return true, ""
}

func (m c04) laws(c *fw.Ctx, kind string, tab []gts.Feature, hostB []byte, a, b int) {
	L := len(hostB)
	// the listed join-reduction defect can fire in one rotation path and not
	// in the other; the features it can touch are attributed to it and not
	// compared (the other features of the table still are).
	dropSkip := map[string]bool{}
	if c.KFEnabled("join-drops-point-after-range") {
		for _, f := range tab {
			pp := model.Parts(f.Loc)
			for _, n := range []int{a, a + b, b, 0, -a} {
				if _, did := model.DropPointAfterRange(model.ImageRotate(pp, n, L)); did {
					dropSkip[gen.Label(f)] = true
				}
			}
		}
	}
	enc := fmt.Sprintf("RotateLaws host=%s:%q a=%d b=%d F=[", kind, hostB, a, b)
	for _, f := range tab {
		enc += fmt.Sprintf("%s %s;", f.Key, model.SafeString(f.Loc))
	}
	enc += "]"
	c.Begin(enc)
	c.Count(enc, len(tab) > 0 && a%L != 0)
	host := mkHost(kind, tab, hostB)
	var ab, apb, inv, full gts.Sequence
	p, val, site, stack := fw.Guard(func() {
		ab = gts.Rotate(gts.Rotate(host, a), b)
		apb = gts.Rotate(host, a+b)
		inv = gts.Rotate(gts.Rotate(host, a), -a)
		full = gts.Rotate(host, L*(1+(a&1)))
	})
	if p {
		c.ViolateX("RotateLaws:"+panicClass(site, val), enc, "no panic", fmt.Sprint(val), stack, nil)
		return
	}
	cmp := func(law string, res gts.Sequence, total, mid int, wantB []byte) bool {
		if !bytes.Equal(res.Bytes(), wantB) {
			c.Violate("RotateLaws:"+law+"-residues", enc, string(wantB), string(res.Bytes()))
			return false
		}
		got := map[string]gts.Feature{}
		for _, f := range res.Features() {
			got[gen.Label(f)] = f
		}
		if len(res.Features()) != len(tab) {
			c.Violate("RotateLaws:"+law+"-feature-count", enc, fmt.Sprint(len(tab)), fmt.Sprint(len(res.Features())))
			return false
		}
		for _, f := range tab {
			g, ok := got[gen.Label(f)]
			if !ok {
				c.Violate("RotateLaws:"+law+"-feature-missing", enc, gen.Label(f), "")
				return false
			}
			if dropSkip[gen.Label(f)] {
				c.Known("join-drops-point-after-range", fmt.Sprintf("RotateLaws a=%d b=%d %s", a, b, model.SafeString(f.Loc)))
				continue
			}
			before := model.Parts(f.Loc)
			// path-dependent but legitimate reductions (duplicate absorption, the
			// cyclic normalisation of a part that became full-length by merging)
			// only arise when a residue is denoted twice or the feature covers the
			// whole sequence: those features are not compared here.
			seen := map[int]bool{}
			dup := false
			ba := model.Bases(model.Atoms(before))
			for _, a := range ba {
				if seen[a.Pos] {
					dup = true
				}
				seen[a.Pos] = true
			}
			if dup || len(ba) >= L {
				c.Bucket("law-skipped:overlapping-or-covering-feature")
				continue
			}
			exp := model.ImageRotate(before, total, L)
			obs := model.Parts(g.Loc)
			v, why, _ := model.CompareImage(exp, obs, model.CmpOpt{MaxCoord: L, CyclicL: L})
			if v != model.VOK && why == "site" && c.KFEnabled("site-at-origin-not-rotated") {
				// deviation: a site that an intermediate rotation put on the origin
				// (printed 0^1) is not moved by the following rotation.
				hit := false
				for i := range exp {
					if exp[i].Kind == model.KSite && ((before[exp[i].From].Lo+mid)%L+L)%L == 0 {
						exp[i].SiteAlt = append(append([]int{}, exp[i].SiteAlt...), exp[i].Lo, 0)
						hit = true
					}
				}
				if hit {
					if v2, _, _ := model.CompareImage(exp, obs, model.CmpOpt{MaxCoord: L, CyclicL: L}); v2 == model.VOK {
						c.Known("site-at-origin-not-rotated", enc)
						continue
					}
				}
			}
			if v != model.VOK {
				c.Violate("RotateLaws:"+law+":"+why, enc,
					fmt.Sprintf("feature %s %s -> %s", gen.Label(f), model.SafeString(f.Loc), model.XPartsString(exp)),
					fmt.Sprintf("%s = %s", model.SafeString(g.Loc), model.PartsString(obs)))
				return false
			}
		}
		return true
	}
	c.Bucket("law:compose")
	if !cmp("compose", ab, a+b, a, apb.Bytes()) {
		return
	}
	c.Bucket("law:inverse")
	if !cmp("inverse", inv, 0, a, hostB) {
		return
	}
	cmp("full-turn", full, 0, 0, hostB)
}

func (m c04) Run(c *fw.Ctx) {
	maxL := c.Pick(5, 6)
	for L := 1; L <= maxL; L++ {
		uni := gen.Universe(L, 3)
		hostB := gen.UniqueBytes(0, L)
		for _, loc := range uni {
			tab := []gts.Feature{{Key: "gene", Loc: loc, Props: gts.Props{{"label", "h0"}}}}
			for n := -3 * L; n <= 3*L; n++ {
				if !c.NextShared() {
					continue
				}
				if ambCrosses(loc, n, L) {
					c.Skip("ambiguous span would cross the new origin (excluded by the statement)")
					continue
				}
				if hasSiteAtZero(loc) {
					c.Skip("site 0^1 is not an INSDC between-site (only produced by deleting a prefix); excluded")
					continue
				}
				m.check(c, "basic", tab, hostB, n)
			}
		}
		c.Exhaustive(fmt.Sprintf("Universe(L=%d,arity<=3) x n in [-3L,3L]", L))
	}
	N := c.Pick(12000, 400000)
	r := c.Rng
	for it := 0; it < N; it++ {
		c.NextOwn()
		L := 1 + r.Intn(80)
		o := gen.LocOpt{L: L, MaxParts: 5, MaxDepth: 3, Ambiguous: r.Intn(3) == 0, Overlap: r.Intn(3) == 0, Sites: true}
		tab := gen.RandTable(r, r.Intn(9), o, "h", 10)
		n := r.Intn(6*L+1) - 3*L
		b := r.Intn(6*L+1) - 3*L
		kind := "basic"
		if r.Intn(3) == 0 {
			kind = "genbank"
		}
		if len(tab) > 0 && r.Intn(3) == 0 {
			// bring some part boundary to the origin.
			pp := model.Parts(tab[r.Intn(len(tab))].Loc)
			if len(pp) > 0 {
				q := pp[r.Intn(len(pp))]
				n = L - []int{q.Lo, q.Hi, q.Lo + 1}[r.Intn(3)]
			}
		}
		skip := false
		for _, f := range tab {
			if ambCrosses(f.Loc, n, L) || ambCrosses(f.Loc, n+b, L) || ambCrosses(f.Loc, 0, L) || hasSiteAtZero(f.Loc) {
				skip = true
			}
			for _, q := range model.Parts(f.Loc) {
				if q.Kind == model.KAmb {
					// after the first rotation the span must not cross for the second either
					if ambCrosses(f.Loc, n, L) {
						skip = true
					}
				}
			}
		}
		if c.Replaying() && c.Seq() != c.ReplaySeq {
			continue
		}
		hostB := gen.UniqueBytes(0, L)
		if skip {
			c.Skip("ambiguous span would cross the new origin, or site 0^1 (excluded)")
			continue
		}
		m.check(c, kind, tab, hostB, n)
		m.laws(c, kind, tab, hostB, n, b)
	}
	// the commands the property names as observation points, on the real binary.
	c15Drive(c, []c15cmd{{"rotate", nil}, {"split", nil}, {"rotate", nil}}, c.Pick(90, 3000))
}
