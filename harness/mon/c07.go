package mon

import (
	"bytes"
	"fmt"
	"hash/fnv"
	"io"
	"math"
	"math/rand"
	"os"
	"path/filepath"
	"regexp"
	"runtime"
	"runtime/debug"
	"runtime/pprof"
	"sort"
	"strconv"
	"strings"
	"sync"
	"sync/atomic"
	"syscall"
	"testing/iotest"
	"time"

	"github.com/go-gts/gts"
	"github.com/go-gts/gts/seqio"
	"github.com/go-pars/pars"

	"verifharness/fw"
	"verifharness/gen"
	"verifharness/model"
)

// C07 — Parsers are total: malformed input gives an error, never a panic or
// a hang, and an inconsistent GenBank record is not read as a shortened or
// empty sequence.
//
// Oracle: (1) totality — every call runs under fw.Guard, Scan loops are
// bounded by len(input)+2, every case is timed in process CPU seconds against
// the 30 s budget, a watchdog kills a case that does not return, and the
// parent re-runs the case named in the write-ahead log of a dead worker;
// (2) consistency — the simple reader model.C07ReadRecord looks at exactly the
// bytes the scanner consumed for a yielded GenBank record (observed through the
// pars.State position) and tells the declared length and the residues
// physically present in the ORIGIN block(s).

type c07 struct{ base }

func init() { register(c07{}) }

func (c07) ID() string { return "C07" }

const (
	c07MaxInput  = 64 << 10
	c07BudgetCPU = 30.0
	c07KillCPU   = 45.0

	c07KFWide     = "genbank-field-name-wider-than-indent-panics"
	c07KFDBLink   = "genbank-dblink-empty-value-panics"
	c07KFOverflow = "genbank-declared-length-out-of-range"
	c07KFRefNum   = "genbank-reference-number-over-999-panics"
	c07KFOrigin   = "genbank-origin-length-mismatch-accepted"
)

var c07Entries = []string{"scan", "table", "location", "locator", "modifier", "selector", "date", "molecule", "topology"}

func (c07) Rule() string {
	return "inputs (all <= 64 KiB, all a function of seed and tier): byte streams into seqio.NewAutoScanner(r).Scan/Value/Err (readers: bytes.Reader, one byte per Read, 7 bytes per Read) and strings into seqio.INSDCTableParser(\"\"), gts.AsLocation, gts.AsLocator (+ applying the locator to a 40-base sequence with 4 features), gts.AsModifier (+Apply), gts.Selector (+ applying the filter to 4 features), seqio.AsDate, gts.AsMolecule, gts.AsTopology. " +
		"systematic: truncation at every offset of small GenBank/FASTA texts (LF and CRLF, single and two-record); every declared LOCUS length 0..n+70 plus n+-60, 10^9, 2^63-1, negative, for ORIGIN blocks of n in {0,1,10,59,60,61,120,133} residues as LF and CRLF; every byte of a minimal record overwritten by 6 values; every mutation operator 24x on each small base; the shapes the statement names (field names wider than the LOCUS indent, DBLINK values `X:`, an unreadable record followed by an intact one); extreme arity and nesting (16k-part joins/orders, 5k-deep complement(/join( nesting closed and unclosed, 16k selector clauses, 5k-deep regexp groups, 60 KiB numbers and quoted values, 32k FASTA records). " +
		"seeded: 1..3 operators of {truncate, delete/duplicate/swap lines, overwrite a byte, shrink/grow an indent by 1-4, collapse spaces, drop a field value, rewrite the numbers of a line, rewrite the declared length (n+-1, n+-60, 0, 10^9, other), LF<->CRLF of the text or of one line, splice two records, remove `//`, duplicate the ORIGIN block} over the corpus seqio/testdata/*.gb, *.fasta, pBAT5.txt, records written with seqio.GenBank.String() (0..200 residues, 0..4 features, optional DBLINK/REFERENCE/COMMENT/CONTIG/extra fields), FASTA text and 2-3 record streams; raw random bytes; for the string entry points printed values and hand-written seeds under truncate/delete/substitute/insert over the entry point's alphabet, and raw bytes. " +
		"oracle: no panic, no process death, every Scan loop ends within len(input)+2 iterations, Scan stays false after it returned false, a true Scan has a value with Len() == len(Bytes()) >= 0, <= 30 CPU-s per input (process CPU, best of two runs; a case that has not returned after 45 CPU-s kills the worker and is re-run alone by the parent); a yielded GenBank record whose consumed text has an ORIGIN block must have Len() == the declared LOCUS length == the residues present in that block (class inconsistent-record-accepted), judged only when the simple reader can tell the field structure (no unbalanced quote, escape, colon-less CONTIG or separator inside the consumed text). Whether a mutant is accepted or rejected is otherwise don't-care. " +
		"non-trivial: a non-empty input; distinct: entry point + FNV-64 and length of the input bytes (the recipe is not part of the key). Also: 16 fields and sub-fields whose value is white space only (11 widths, LF/CRLF), and scaling probes for the lines of an unquoted qualifier value and for CONTIG lines that name no accession. Scaling probe for the complemented parts of a join; a truncated GenBank record followed by an intact FASTA record (and the other way round) must end in an error, not in the intact record alone. REFERENCE sub-field sets with MEDLINE and PUBMED in both orders; scaling probes for two-part joins inside a join and for complemented points and ranges of a join (the latter attributed to the listed finding by an allocation witness)."
}

func (c07) Assumptions() []string {
	return []string{
		"Go toolchain",
		"the simple record reader harness/model/c07_genbank.go (LOCUS length, ORIGIN line, 9-column index / groups of ten residues), written from the flat-file layout",
		"pars.State.Position() of the state handed to NewAutoScanner reports the consumed extent (used only to cut the text of a yielded record out of the input; the verdict on panics/termination comes from a run over a plain reader)",
		"the qualifier-name registries of seqio (process-global, learned from input) are restored before every case so that a case does not depend on the cases before it",
		"goroutine stacks are capped at 512 MiB (debug.SetMaxStack) so that a runaway recursion on a <= 64 KiB input dies as a stack overflow instead of exhausting the machine",
		"CPU time is process CPU (getrusage) between the start and the end of a case",
	}
}

func (c07) RequiredBuckets(tier string) []string {
	var out []string
	for _, e := range c07Entries {
		out = append(out, "entry|"+e, "entry|"+e+"|accepted", "entry|"+e+"|rejected")
	}
	for _, op := range gen.C07TextOps {
		out = append(out, "op|"+op)
	}
	for _, op := range []string{"truncate", "delete", "substitute", "insert"} {
		out = append(out, "strop|"+op)
	}
	out = append(out,
		"source|corpus", "source|generated", "source|random", "source|extreme", "source|named", "source|fasta", "source|multi-record",
		"outcome|values", "outcome|values+error", "outcome|error", "outcome|empty",
		"eol|LF", "eol|CRLF", "eol|mixed",
		"reader|bytes", "reader|one-byte", "reader|chunk7",
		"records|0", "records|1", "records|2+", "yield|genbank", "yield|fasta",
		"consistency|judged-consistent", "consistency|no-origin-block", "consistency|unclear-structure",
		"declared-with-origin|equal", "declared-with-origin|less", "declared-with-origin|more",
		"pristine|accepted", "truncated-in|locus-line", "truncated-in|origin-block", "truncated-in|feature-table",
		"extreme|wide-list", "extreme|deep-nesting", "sticky|checked-after-error",
	)
	for _, k := range gen.C07DeclaredKinds {
		out = append(out, "declared|"+k)
	}
	return out
}

// ------------------------------------------------------------------ findings

var c07WitnessHung atomic.Bool

// c07ScanOnce scans one witness input. Witnesses run in the parent process,
// which has no watchdog: the scan runs in its own goroutine and is given up
// after 10 s (reported as a panic-like failure of the witness; later
// witnesses are then not run, a goroutine that spins cannot be stopped).
func c07ScanOnce(in string) (panicked bool, val interface{}, site string, n int, lens []int, err error) {
	type out struct {
		p    bool
		val  interface{}
		site string
		n    int
		lens []int
		err  error
	}
	if c07WitnessHung.Load() {
		return true, "not run: an earlier witness scan did not return", "timeout", 0, nil, nil
	}
	done := make(chan out, 1)
	go func() {
		var o out
		o.p, o.val, o.site, _ = fw.Guard(func() {
			s := seqio.NewAutoScanner(strings.NewReader(in))
			for s.Scan() && o.n < 100 {
				o.n++
				o.lens = append(o.lens, gts.Len(s.Value()))
			}
			o.err = s.Err()
		})
		done <- o
	}()
	select {
	case o := <-done:
		return o.p, o.val, o.site, o.n, o.lens, o.err
	case <-time.After(10 * time.Second):
		c07WitnessHung.Store(true)
		return true, "the scan did not return within 10 s", "timeout", 0, nil, nil
	}
}

const (
	c07KFMixedRun    = "join-of-complemented-points-and-ranges-quadratic"
	c07MixedRunProbe = "complemented points and ranges of a join"
)

// c07MixedRun: join(complement(1..5),complement(8),complement(11..15),...).
func c07MixedRun(n int) string {
	var b strings.Builder
	b.WriteString("join(")
	for i := 0; i < n; i++ {
		if i > 0 {
			b.WriteString(",")
		}
		if i%2 == 0 {
			fmt.Fprintf(&b, "complement(%d..%d)", 10*i+1, 10*i+5)
		} else {
			fmt.Fprintf(&b, "complement(%d)", 10*i+8)
		}
	}
	b.WriteString(")")
	return b.String()
}

func (c07) Findings() []fw.Finding {
	return []fw.Finding{
		{ID: c07KFMixedRun, What: "a join of n complemented parts that are not all ranges is merged pair by pair, every merge joining the members collected so far once more: quadratic time", Witness: func() (bool, string) {
			// bytes allocated while reading (deterministic, unlike time): the
			// pairwise merge copies the collected members for every part.
			alloc := func(n int) float64 {
				s := c07MixedRun(n)
				var m1, m2 runtime.MemStats
				runtime.GC()
				runtime.ReadMemStats(&m1)
				gts.AsLocation(s)
				runtime.ReadMemStats(&m2)
				return float64(m2.TotalAlloc - m1.TotalAlloc)
			}
			a1, a8 := alloc(500), alloc(4000)
			return a8 > 20*a1, fmt.Sprintf("AsLocation of a join of 500 such parts allocates %.0f bytes, of 4000 parts %.0f bytes (linear would be 8x)", a1, a8)
		}},
		{ID: c07KFWide, What: "a top-level field name longer than the indent derived from the LOCUS line makes genbankFieldNameParser call strings.Repeat with a negative count", Witness: func() (bool, string) {
			in := "LOCUS       X 0 bp DNA linear UNA 01-JAN-2020\nVERYLONGFIELDNAME x\n//\n"
			p, val, site, n, _, err := c07ScanOnce(in)
			if p {
				return true, fmt.Sprintf("scanning %q panics: %v at %s", in, val, site)
			}
			return false, fmt.Sprintf("scanning %q: no panic (records=%d err=%v)", in, n, err)
		}},
		{ID: c07KFDBLink, What: "a DBLINK value that ends right after its colon makes genbankDBLinkPairParser slice past the end of the line", Witness: func() (bool, string) {
			in := "LOCUS       X 0 bp DNA linear UNA 01-JAN-2020\nDBLINK      X:\n//\n"
			p, val, site, n, _, err := c07ScanOnce(in)
			if p {
				return true, fmt.Sprintf("scanning %q panics: %v at %s", in, val, site)
			}
			return false, fmt.Sprintf("scanning %q: no panic (records=%d err=%v)", in, n, err)
		}},
		{ID: c07KFOverflow, What: "a declared LOCUS length that is negative or near 2^63 makes the ORIGIN size arithmetic negative: the reader slices its buffer with a negative bound, or yields a record of negative length", Witness: func() (bool, string) {
			var obs []string
			still := false
			for _, d := range []string{"9223372036854775807", "-133", "-1"} {
				in := "LOCUS       X " + d + " bp DNA linear UNA 01-JAN-2020\nORIGIN      \n        1 abcde\n//\n"
				p, val, _, n, lens, err := c07ScanOnce(in)
				switch {
				case p:
					still = true
					obs = append(obs, fmt.Sprintf("declared %s bp: panic %v", d, val))
				case n == 1 && lens[0] < 0:
					still = true
					obs = append(obs, fmt.Sprintf("declared %s bp: record of Len() %d", d, lens[0]))
				default:
					obs = append(obs, fmt.Sprintf("declared %s bp: records=%d err=%v", d, n, err != nil))
				}
			}
			return still, strings.Join(obs, "; ")
		}},
		{ID: c07KFRefNum, What: "a REFERENCE number of four or more columns makes genbankReferenceParser call strings.Repeat with a negative count", Witness: func() (bool, string) {
			in := "LOCUS       X 0 bp DNA linear UNA 01-JAN-2020\nREFERENCE   1000\n//\n"
			p, val, site, n, _, err := c07ScanOnce(in)
			if p {
				return true, fmt.Sprintf("scanning %q panics: %v at %s", in, val, site)
			}
			return false, fmt.Sprintf("scanning %q: no panic (records=%d err=%v)", in, n, err)
		}},
		{ID: c07KFOrigin, What: "a record whose declared length disagrees with its ORIGIN block is yielded as an empty sequence (the failed ORIGIN parse falls through to the extra-field parser) or, for a declared multiple of 60 below the residues present, as the declared prefix", Witness: func() (bool, string) {
			mk := func(d int) string {
				return string(c07MiniRecord(d, c07MiniResidues(133), false))
			}
			var obs []string
			still := false
			for _, d := range []int{132, 193, 60, 0} {
				p, val, _, n, lens, err := c07ScanOnce(mk(d))
				switch {
				case p:
					obs = append(obs, fmt.Sprintf("declared %d: panic %v", d, val))
				case n == 1 && err == nil:
					still = true
					obs = append(obs, fmt.Sprintf("declared %d: read as %d residues", d, lens[0]))
				default:
					obs = append(obs, fmt.Sprintf("declared %d: records=%d err=%v", d, n, err != nil))
				}
			}
			return still, "133-residue ORIGIN block; " + strings.Join(obs, "; ")
		}},
	}
}

// ------------------------------------------------------------------ helpers

func c07MiniResidues(n int) []byte {
	p := make([]byte, n)
	for i := range p {
		p[i] = "acgtgca"[(i*i+i/7)%7]
	}
	return p
}

// c07MiniRecord writes a minimal GenBank record by hand: declared length d,
// ORIGIN block laid out from p (header omitted when p is nil).
func c07MiniRecord(d int, p []byte, crlf bool) []byte {
	var b bytes.Buffer
	fmt.Fprintf(&b, "LOCUS       C07MINI %19d bp    DNA     linear   UNA 01-JAN-2020\n", d)
	b.WriteString("DEFINITION  totality probe.\nACCESSION   C07MINI\nVERSION     C07MINI.1\nKEYWORDS    .\n")
	b.WriteString("FEATURES             Location/Qualifiers\n     source          1..4\n                     /note=\"a b\"\n")
	if p != nil {
		b.WriteString("ORIGIN      \n")
		b.Write(model.OriginBlock(p))
	}
	b.WriteString("//\n")
	if crlf {
		return gen.C07ToCRLF(b.Bytes())
	}
	return b.Bytes()
}

func c07CPU() float64 {
	var ru syscall.Rusage
	if syscall.Getrusage(syscall.RUSAGE_SELF, &ru) != nil {
		return 0
	}
	return float64(ru.Utime.Sec) + float64(ru.Utime.Usec)/1e6 + float64(ru.Stime.Sec) + float64(ru.Stime.Usec)/1e6
}

type c07Chunk struct {
	p []byte
	n int
}

func (r *c07Chunk) Read(q []byte) (int, error) {
	if len(r.p) == 0 {
		return 0, io.EOF
	}
	k := r.n
	if k > len(q) {
		k = len(q)
	}
	if k > len(r.p) {
		k = len(r.p)
	}
	copy(q, r.p[:k])
	r.p = r.p[k:]
	return k, nil
}

// c07Case is one input for one entry point.
type c07Case struct {
	entry  string
	source string   // corpus | generated | fasta | multi-record | random | extreme | named
	recipe string   // how the input was made
	ops    []string // mutation operators applied
	input  []byte
	reader string // scan: bytes | one-byte | chunk7
	// declared-length sweep: what the construction claims (self-check).
	knowClaims     bool
	claimD, claimN int
	pristine       bool
}

type c07State struct {
	c *fw.Ctx

	regQuoted, regLiteral, regToggle []string

	caseCPU  atomic.Uint64 // float64 bits of the CPU clock at case start; 0 = idle
	caseName atomic.Value

	slowMu sync.Mutex
	slow   map[string]c07Slow

	seq     gts.Sequence
	corpus  map[string][]byte
	names   []string
	gbNames []string
	faNames []string
	tables  [][]byte
}

type c07Slow struct {
	cpu  float64
	what string
}

func (s *c07State) restoreRegistries() {
	if len(seqio.QuotedQualifierNames) != len(s.regQuoted) {
		seqio.QuotedQualifierNames = append([]string(nil), s.regQuoted...)
	}
	if len(seqio.LiteralQualifierNames) != len(s.regLiteral) {
		seqio.LiteralQualifierNames = append([]string(nil), s.regLiteral...)
	}
	if len(seqio.ToggleQualifierNames) != len(s.regToggle) {
		seqio.ToggleQualifierNames = append([]string(nil), s.regToggle...)
	}
}

func (s *c07State) watchdog() {
	for {
		time.Sleep(500 * time.Millisecond)
		bits := s.caseCPU.Load()
		if bits == 0 {
			continue
		}
		start := math.Float64frombits(bits)
		if used := c07CPU() - start; used > c07KillCPU {
			name, _ := s.caseName.Load().(string)
			fmt.Fprintf(os.Stderr, "C07 watchdog: the case did not return within %.0f CPU-s (budget %.0f; would be SIGXCPU): hang-or-cpu-budget\ncase: %s\n", used, c07BudgetCPU, name)
			pprof.Lookup("goroutine").WriteTo(os.Stderr, 2)
			os.Exit(4)
		}
	}
}

func c07Hash(p []byte) uint64 {
	h := fnv.New64a()
	h.Write(p)
	return h.Sum64()
}

func c07Clip(p []byte, n int) string {
	if len(p) <= n {
		return fmt.Sprintf("%q", p)
	}
	return fmt.Sprintf("%q...(%d bytes)", p[:n], len(p))
}

func c07EOL(p []byte) string {
	crlf := bytes.Count(p, []byte("\r\n"))
	lf := bytes.Count(p, []byte("\n")) - crlf
	switch {
	case crlf > 0 && lf > 0:
		return "mixed"
	case crlf > 0:
		return "CRLF"
	}
	return "LF"
}

// ------------------------------------------------------------------ running

// run executes one case: Begin/Count, buckets, the guarded call, the timing.
func (s *c07State) run(k c07Case) {
	c := s.c
	if len(k.input) > c07MaxInput {
		k.input = k.input[:c07MaxInput]
		k.recipe += " capped-to-64KiB"
	}
	hash := c07Hash(k.input)
	var enc, wal string
	head := fmt.Sprintf("%s %s [%s]", k.entry, k.source, k.recipe)
	if k.entry == "scan" {
		head += " reader=" + k.reader
	}
	if len(k.input) <= 1500 {
		enc = fmt.Sprintf("%s fnv=%016x input=%q", head, hash, k.input)
		wal = enc
	} else {
		enc = fmt.Sprintf("%s fnv=%016x len=%d input=%s", head, hash, len(k.input), c07Clip(k.input, 600))
		wal = enc
		if c.WorkDir != "" {
			path := filepath.Join(c.WorkDir, fmt.Sprintf("c07-input-%d.bin", c.Shard))
			if os.WriteFile(path, k.input, 0644) == nil {
				wal = fmt.Sprintf("%s fnv=%016x len=%d input-file=%s", head, hash, len(k.input), path)
			}
		}
	}
	c.Begin(wal)
	c.Count(fmt.Sprintf("%s fnv=%016x len=%d input=%s", k.entry, hash, len(k.input), c07Clip(k.input, 120)), len(k.input) > 0)
	c.Bucket("entry|" + k.entry)
	c.Bucket("source|" + k.source)
	for _, op := range k.ops {
		if k.entry == "scan" || k.entry == "table" {
			c.Bucket("op|" + op)
		}
	}
	// a case over the budget is measured a second time before it is reported
	// (CPU readings inflate on a machine shared with other jobs).
	used := 0.0
	for attempt := 0; attempt < 2; attempt++ {
		s.restoreRegistries()
		s.caseName.Store(wal)
		t0 := c07CPU()
		if t0 == 0 {
			t0 = 1e-9
		}
		s.caseCPU.Store(math.Float64bits(t0))
		switch {
		case attempt > 0:
			s.bare(k)
		case k.entry == "scan":
			s.scan(enc, k)
		default:
			s.parseString(enc, k)
		}
		s.caseCPU.Store(0)
		u := c07CPU() - t0
		if attempt == 0 || u < used {
			used = u
		}
		if u <= c07BudgetCPU {
			break
		}
	}
	if used > c07BudgetCPU {
		c.Violate("cpu-budget-exceeded:"+k.entry, enc, fmt.Sprintf("<= %.0f CPU-s for a %d-byte input", c07BudgetCPU, len(k.input)), fmt.Sprintf("%.1f CPU-s (best of two runs)", used))
	}
	if used > 0.25 {
		s.slowMu.Lock()
		if cur, ok := s.slow[k.entry]; !ok || used > cur.cpu {
			s.slow[k.entry] = c07Slow{used, fmt.Sprintf("%s %s [%s] %d bytes", k.entry, k.source, k.recipe, len(k.input))}
		}
		s.slowMu.Unlock()
	}
}

// bare repeats the call of a case without judging it (second timing).
func (s *c07State) bare(k c07Case) {
	fw.Guard(func() {
		if k.entry == "scan" {
			sc := seqio.NewAutoScanner(bytes.NewReader(k.input))
			for n := 0; sc.Scan() && n <= len(k.input)+2; n++ {
			}
			return
		}
		s.call(k.entry, string(k.input))
	})
}

type c07Yield struct {
	kind  string // genbank | fasta | other
	n     int    // Len()
	nb    int    // len(Bytes())
	extra bool   // a GenBank record carrying an extra field named ORIGIN
}

// scanRun drives the public scanner over r. pos, when non-nil, reports the
// consumed extent after every yielded record.
func (s *c07State) scanRun(enc string, in []byte, r io.Reader, pos func() pars.Position) (yy []c07Yield, ends []pars.Position, err error, ok bool, again bool, bounded bool) {
	c := s.c
	limit := len(in) + 2
	var noValue bool
	p, val, site, stack := fw.Guard(func() {
		sc := seqio.NewAutoScanner(r)
		for sc.Scan() {
			v := sc.Value()
			if v == nil {
				noValue = true
				return
			}
			y := c07Yield{kind: "other", n: gts.Len(v), nb: len(v.Bytes())}
			switch g := v.(type) {
			case seqio.GenBank:
				y.kind = "genbank"
				for _, x := range g.Fields.Extra {
					if x.Name == "ORIGIN" {
						y.extra = true
					}
				}
				_ = g.Features()
			case seqio.Fasta:
				y.kind = "fasta"
			}
			yy = append(yy, y)
			if pos != nil {
				ends = append(ends, pos())
			}
			if len(yy) > limit {
				bounded = true
				return
			}
		}
		err = sc.Err()
		// the scanner records the first error and stops.
		again = sc.Scan() || sc.Scan()
	})
	switch {
	case p:
		s.panicVerdict("scan", enc, in, val, site, stack)
	case noValue:
		c.Violate("scan:true-without-value", enc, "Scan()==true comes with a sequence value", fmt.Sprintf("Value()==nil after %d records", len(yy)))
	case bounded:
		c.Violate("scan-does-not-terminate", enc, fmt.Sprintf("at most %d records from %d bytes", limit, len(in)), fmt.Sprintf("%d records and Scan() still true", len(yy)))
	default:
		ok = true
	}
	return
}

// panicVerdict attributes a panic to a listed finding or reports it.
func (s *c07State) panicVerdict(entry, enc string, in []byte, val interface{}, site, stack string) {
	c := s.c
	cl := panicClass(site, val)
	if entry == "scan" {
		switch {
		case c.KFEnabled(c07KFWide) && strings.HasPrefix(cl, "panic:neg-repeat@seqio.genbankFieldNameParser") && c07HasWideName(in):
			c.Known(c07KFWide, enc)
			return
		case c.KFEnabled(c07KFDBLink) && strings.HasPrefix(cl, "panic:slice-bounds@seqio.genbankDBLinkParser.genbankDBLinkPairParser") && c07HasColonAtLineEnd(in):
			c.Known(c07KFDBLink, enc)
			return
		case c.KFEnabled(c07KFOverflow) && strings.HasPrefix(cl, "panic:slice-bounds@seqio.GenBankParser.makeGenbankOriginParser") && c07HasOutOfRangeDeclared(in):
			c.Known(c07KFOverflow, enc)
			return
		case c.KFEnabled(c07KFRefNum) && strings.HasPrefix(cl, "panic:neg-repeat@seqio.genbankReferenceParser") && c07HasWideReferenceNumber(in):
			c.Known(c07KFRefNum, enc)
			return
		}
	}
	c.ViolateX(entry+":"+cl, enc, "values or an error value, no panic", fmt.Sprint(val), stack, nil)
}

// c07HasWideName: the input holds a run of upper-case letters longer than the
// indent a LOCUS line of the input defines (spaces after LOCUS + 5). The run
// need not start a line: after a field reader stopped in the middle of a line
// the next field name is looked for right there.
func c07HasWideName(in []byte) bool {
	lines := model.C07SplitLines(in)
	depth := -1
	for _, l := range lines {
		if strings.HasPrefix(l, "LOCUS") {
			sp := 0
			for 5+sp < len(l) && (l[5+sp] == ' ' || l[5+sp] == '\t') {
				sp++
			}
			if depth < 0 || sp+5 < depth {
				depth = sp + 5
			}
		}
	}
	if depth < 0 {
		return false
	}
	n := 0
	for _, b := range in {
		if b >= 'A' && b <= 'Z' {
			n++
			if n > depth {
				return true
			}
		} else {
			n = 0
		}
	}
	return false
}

func c07HasColonAtLineEnd(in []byte) bool {
	for _, l := range model.C07SplitLines(in) {
		if i := strings.IndexByte(l, ':'); i >= 0 && i >= len(l)-1 {
			return true
		}
	}
	return false
}

// c07HasOutOfRangeDeclared: a LOCUS line carries a negative number or one so
// large that 76/60 of it exceeds 2^63.
func c07HasOutOfRangeDeclared(in []byte) bool {
	for _, l := range model.C07SplitLines(in) {
		if !strings.HasPrefix(l, "LOCUS") {
			continue
		}
		for _, tok := range strings.Fields(l) {
			d := strings.TrimLeft(tok, "+-")
			if d == "" || strings.Trim(d, "0123456789") != "" {
				continue
			}
			if strings.HasPrefix(tok, "-") && strings.Trim(d, "0") != "" {
				return true
			}
			if len(d) == 19 && d >= "7281000000000000000" {
				return true
			}
		}
	}
	return false
}

// c07HasWideReferenceNumber: a REFERENCE line whose number, sign included,
// takes four or more columns.
func c07HasWideReferenceNumber(in []byte) bool {
	for _, l := range model.C07SplitLines(in) {
		if !strings.HasPrefix(l, "REFERENCE") {
			continue
		}
		tok := strings.Fields(l[9:])
		if len(tok) == 0 {
			continue
		}
		n := 0
		t := tok[0]
		if n < len(t) && (t[n] == '-' || t[n] == '+') {
			n++
		}
		for n < len(t) && t[n] >= '0' && t[n] <= '9' {
			n++
		}
		if n >= 4 {
			return true
		}
	}
	return false
}

func (s *c07State) scan(enc string, k c07Case) {
	c := s.c
	in := k.input
	c.Bucket("eol|" + c07EOL(in))
	c.Bucket("reader|" + k.reader)
	if bytes.HasPrefix(in, []byte("LOCUS")) {
		// what the input claims, by the simple reader's view of its first record.
		seg := in
		for _, sep := range []string{"\n//\n", "\n//\r\n"} {
			if i := bytes.Index(seg, []byte(sep)); i >= 0 {
				seg = seg[:i+len(sep)]
			}
		}
		if rec := model.C07ReadRecord(seg); rec.LocusOK && len(rec.Blocks) > 0 {
			switch first := rec.Blocks[0].Count; {
			case rec.Declared == first:
				c.Bucket("declared-with-origin|equal")
			case rec.Declared < first:
				c.Bucket("declared-with-origin|less")
			default:
				c.Bucket("declared-with-origin|more")
			}
		}
	}
	var r io.Reader = bytes.NewReader(in)
	switch k.reader {
	case "one-byte":
		r = iotest.OneByteReader(bytes.NewReader(in))
	case "chunk7":
		r = &c07Chunk{p: in, n: 7}
	}
	yy, _, err, ok, again, _ := s.scanRun(enc, in, r, nil)
	if !ok {
		return
	}
	switch {
	case len(yy) > 0 && err == nil:
		c.Bucket("outcome|values")
	case len(yy) > 0:
		c.Bucket("outcome|values+error")
	case err != nil:
		c.Bucket("outcome|error")
	default:
		c.Bucket("outcome|empty")
	}
	if len(yy) > 0 {
		c.Bucket("entry|scan|accepted")
	} else {
		c.Bucket("entry|scan|rejected")
	}
	if k.pristine && len(yy) > 0 && err == nil {
		c.Bucket("pristine|accepted")
	}
	switch {
	case len(yy) == 0:
		c.Bucket("records|0")
	case len(yy) == 1:
		c.Bucket("records|1")
	default:
		c.Bucket("records|2+")
	}
	if err != nil {
		c.Bucket("sticky|checked-after-error")
	}
	if again {
		c.Violate("scan-resumes-after-it-stopped", enc, "Scan() stays false once it has returned false", fmt.Sprintf("Scan() true again after %d records, Err()=%v", len(yy), err))
		return
	}
	anyGB := false
	for i, y := range yy {
		c.Bucket("yield|" + y.kind)
		if y.kind == "genbank" {
			anyGB = true
		}
		if y.n < 0 {
			// a negative declared length taken at face value.
			if c.KFEnabled(c07KFOverflow) && y.kind == "genbank" && c07HasOutOfRangeDeclared(in) {
				c.Known(c07KFOverflow, enc)
			} else {
				c.Violate("yielded-negative-length", enc, "Len() >= 0", fmt.Sprintf("record %d (%s): Len()=%d", i, y.kind, y.n))
			}
			return
		}
		if y.n != y.nb {
			c.Violate("yielded-len-differs-from-bytes", enc, "Len() == len(Bytes())", fmt.Sprintf("record %d (%s): Len()=%d len(Bytes())=%d", i, y.kind, y.n, y.nb))
			return
		}
	}
	if !anyGB {
		return
	}
	// consistency of yielded GenBank records: second run over a pars.State
	// whose position tells which bytes each record consumed.
	s.restoreRegistries()
	st := pars.NewState(bytes.NewReader(in))
	y2, ends, _, ok2, _, _ := s.scanRun(enc, in, st, func() pars.Position { return st.Position() })
	if !ok2 {
		return
	}
	if len(y2) != len(yy) {
		c.Violate("scan-depends-on-reader", enc, fmt.Sprintf("%d records over the %s reader", len(yy), k.reader), fmt.Sprintf("%d records over a pars.State", len(y2)))
		return
	}
	var lineStart []int
	lineStart = append(lineStart, 0)
	for i, b := range in {
		if b == '\n' {
			lineStart = append(lineStart, i+1)
		}
	}
	prev := 0
	for i, y := range y2 {
		if y.n != yy[i].n || y.kind != yy[i].kind {
			c.Violate("scan-depends-on-reader", enc, fmt.Sprintf("record %d: %s of %d residues over the %s reader", i, yy[i].kind, yy[i].n, k.reader), fmt.Sprintf("%s of %d residues over a pars.State", y.kind, y.n))
			return
		}
		e := ends[i]
		if e.Line >= len(lineStart) || lineStart[e.Line]+e.Byte > len(in) || lineStart[e.Line]+e.Byte < prev {
			c.Skip("consumed extent not observable")
			return
		}
		end := lineStart[e.Line] + e.Byte
		text := in[prev:end]
		prev = end
		if y.kind != "genbank" {
			continue
		}
		s.judgeRecord(enc, k, i, y, text)
	}
}

var c07ValidContig = regexp.MustCompile(`(?m)^CONTIG +join\([^:\n]*:[-+]?[0-9]+\.\.[-+]?[0-9]+\)`)

// judgeRecord is the consistency clause for one yielded GenBank record.
func (s *c07State) judgeRecord(enc string, k c07Case, i int, y c07Yield, text []byte) {
	c := s.c
	rec := model.C07ReadRecord(text)
	if k.knowClaims && i == 0 {
		// construction of the declared-length sweep vs. the simple reader.
		cnt := -1
		if len(rec.Blocks) == 1 {
			cnt = rec.Blocks[0].Count
		}
		if !rec.LocusOK || rec.Declared != k.claimD || cnt != k.claimN || rec.Unclear != "" {
			c.Violate("harness:reader-disagrees-with-construction", enc, fmt.Sprintf("declared %d, %d residues present", k.claimD, k.claimN), fmt.Sprintf("reader: locus=%v declared=%d blocks=%d count=%d unclear=%q", rec.LocusOK, rec.Declared, len(rec.Blocks), cnt, rec.Unclear))
			return
		}
	}
	switch {
	case len(rec.Blocks) == 0:
		c.Bucket("consistency|no-origin-block")
		// a record that declares residues, has neither an ORIGIN block nor a
		// well-formed CONTIG reference, and is read as an empty sequence is
		// the "read as an empty sequence" the statement rules out.
		if rec.LocusOK && rec.Declared > 0 && y.n == 0 && rec.Unclear == "" && !c07ValidContig.Match(text) {
			c.Bucket("consistency|empty-without-origin-or-contig")
			c.Violate("inconsistent-record-accepted:empty-without-origin-or-contig", enc,
				fmt.Sprintf("an error: LOCUS declares %d residues, the record has no ORIGIN block and no well-formed CONTIG line", rec.Declared),
				"record yielded with Len()=0")
		}
		return
	case !rec.LocusOK:
		c.Bucket("consistency|unclear-structure")
		c.Skip("yielded record: declared length not readable by the simple reader")
		return
	case rec.Unclear != "":
		c.Bucket("consistency|unclear-structure")
		c.Skip("yielded record: " + rec.Unclear)
		return
	}
	d := rec.Declared
	counts := make([]string, len(rec.Blocks))
	match, exact := false, false
	for j, b := range rec.Blocks {
		counts[j] = fmt.Sprint(b.Count)
		if b.Count == y.n {
			match = true
		}
		if d >= 0 && b.ExactFor(d) {
			exact = true
		}
	}
	if y.n == d && match {
		c.Bucket("consistency|judged-consistent")
		return
	}
	c.Bucket("consistency|inconsistent-yield")
	// deviation model of the listed finding: every ORIGIN block is read with
	// the declared length; a block that starts with the exact layout of that
	// many residues is taken (whatever follows is skipped), any other block is
	// kept as an unknown field and its residue lines are skipped.
	predicted := 0
	if exact {
		predicted = d
	}
	expected := fmt.Sprintf("an error: LOCUS declares %d, ORIGIN block(s) hold %s residues", d, strings.Join(counts, "/"))
	observed := fmt.Sprintf("record %d yielded with Len()=%d (extra field ORIGIN: %v); record text %s", i, y.n, y.extra, c07Clip(text, 1200))
	if c.KFEnabled(c07KFOrigin) && d >= 0 && y.n == predicted && (exact || y.extra) {
		c.Known(c07KFOrigin, enc)
		return
	}
	if c.KFEnabled(c07KFOverflow) && d < 0 && y.n == 0 && y.extra {
		// a negative length is not refused by the LOCUS reader; here the
		// block reader asked for more bytes than the stream had left.
		c.Known(c07KFOverflow, enc)
		return
	}
	c.Violate("inconsistent-record-accepted", enc, expected, observed)
}

// call is the code under test for the string entry points.
func (s *c07State) call(entry, in string) (err error) {
	switch entry {
	case "location":
		_, err = gts.AsLocation(in)
	case "locator":
		var loc gts.Locator
		loc, err = gts.AsLocator(in)
		if err == nil {
			for _, r := range loc(s.seq) {
				_ = r.Len()
			}
		}
	case "modifier":
		var m gts.Modifier
		m, err = gts.AsModifier(in)
		if err == nil {
			m.Apply(3, 10)
			_ = m.String()
		}
	case "selector":
		var f gts.Filter
		f, err = gts.Selector(in)
		if err == nil {
			for _, ft := range s.seq.Features() {
				f(ft)
			}
		}
	case "date":
		_, err = seqio.AsDate(in)
	case "molecule":
		_, err = gts.AsMolecule(in)
	case "topology":
		_, err = gts.AsTopology(in)
	case "table":
		var res pars.Result
		res, err = seqio.INSDCTableParser("").Parse(pars.FromString(in))
		if err == nil {
			ff := res.Value.([]gts.Feature)
			_ = len(ff)
		}
	}
	return err
}

// parseString runs one string entry point.
func (s *c07State) parseString(enc string, k c07Case) {
	c := s.c
	in := string(k.input)
	var err error
	p, val, site, stack := fw.Guard(func() { err = s.call(k.entry, in) })
	if p {
		s.panicVerdict(k.entry, enc, k.input, val, site, stack)
		return
	}
	// interpreting a string is a function of the string: the same string
	// again, in the same process, gets the same verdict.
	var err2 error
	p, val, site, stack = fw.Guard(func() { err2 = s.call(k.entry, in) })
	if p {
		s.panicVerdict(k.entry, enc+" (second interpretation of the same string)", k.input, val, site, stack)
		return
	}
	if (err == nil) != (err2 == nil) {
		c.Violate("verdict-changes-on-second-interpretation:"+k.entry, enc, fmt.Sprintf("first: %v", err), fmt.Sprintf("second: %v", err2))
		return
	}
	if err != nil {
		c.Bucket("entry|" + k.entry + "|rejected")
	} else {
		c.Bucket("entry|" + k.entry + "|accepted")
	}
}

// ------------------------------------------------------------------ workload

func c07Sequence() gts.Sequence {
	var t gts.FeatureSlice
	add := func(key string, loc gts.Location, kv ...string) {
		p := gts.Props{}
		for i := 0; i+1 < len(kv); i += 2 {
			p.Add(kv[i], kv[i+1])
		}
		t = t.Insert(gts.NewFeature(key, loc, p))
	}
	add("source", gts.Range(0, 40), "organism", "Escherichia phage", "mol_type", "genomic DNA")
	add("gene", gts.Range(2, 10), "gene", "abc", "label", "f0", "note", "a (b) [c] x/y")
	add("CDS", gts.Join(gts.Range(11, 20), gts.Range(24, 30)).Complement(), "product", "kinase", "codon_start", "1", "pseudo", "")
	add("misc_feature", gts.Point(34), "note", "single base")
	return gts.New("c07 probe", t, []byte("acgtacgtagctagctagcatcgatcgatcgactagcat"))
}

const (
	c07LocAlpha   = "0123456789.^<>(),joinrdecmplt "
	c07LctrAlpha  = "0123456789.^<>(),joinrdecmplt @$+-/=_abCDS"
	c07ModAlpha   = "^$+-.0123456789 "
	c07SelAlpha   = "abcgenCDSoturl_/=\\.*+?()[]{}|^$0123456789 -,:"
	c07DateAlpha  = "0123456789-JANFEBMRPYULGSOCTVDabceglnoprtuvy "
	c07WordAlpha  = "DNARsd-linearcircularLINEARCIRCULARm "
	c07TableAlpha = " /=\"\\.,()<>^0123456789abcdefghijklmnopqrstuvwxyz_\n\r:"
)

const c07RawAlpha = "LOCUS ORIGIN//>\n\r 0123456789bpaDNlinear\"/=:."

var c07StrOps = []string{"truncate", "delete", "substitute", "insert"}

// c07MutateString applies 1..3 character-level operators.
func c07MutateString(r *rand.Rand, s string, alpha string) (string, []string) {
	b := []byte(s)
	n := 1 + r.Intn(3)
	var ops []string
	pick := func() byte {
		if r.Intn(12) == 0 {
			return byte(r.Intn(256))
		}
		return alpha[r.Intn(len(alpha))]
	}
	for i := 0; i < n; i++ {
		op := c07StrOps[r.Intn(len(c07StrOps))]
		switch op {
		case "truncate":
			if len(b) == 0 {
				continue
			}
			b = b[:r.Intn(len(b))]
		case "delete":
			if len(b) == 0 {
				continue
			}
			j := r.Intn(len(b))
			b = append(b[:j:j], b[j+1:]...)
		case "substitute":
			if len(b) == 0 {
				continue
			}
			b = append([]byte(nil), b...)
			b[r.Intn(len(b))] = pick()
		case "insert":
			j := r.Intn(len(b) + 1)
			b = append(b[:j:j], append([]byte{pick()}, b[j:]...)...)
		}
		ops = append(ops, op)
	}
	return string(b), ops
}

func c07RandMod(r *rand.Rand) string {
	n := func() string {
		switch r.Intn(4) {
		case 0:
			return ""
		case 1:
			return fmt.Sprintf("+%d", r.Intn(50))
		case 2:
			return fmt.Sprintf("-%d", r.Intn(50))
		}
		return fmt.Sprintf("%d", r.Intn(50))
	}
	switch r.Intn(5) {
	case 0:
		return "^" + n()
	case 1:
		return "$" + n()
	case 2:
		return "^" + n() + "..$" + n()
	case 3:
		return "^" + n() + "..^" + n()
	}
	return "$" + n() + "..$" + n()
}

var c07SelSeeds = []string{"gene", "CDS", "CDS/gene=abc", "/note=x.*", "gene/locus_tag=b\\d+/pseudo", "misc_feature/=foo", "a\\/b/c=d", "/=", "source/organism=Esch.*/mol_type=genomic", "/note=[a-c]+(x|y)?", "CDS/product=^kin.se$", "/pseudo", "gene/", "//", "/a=b/c=d/e=f"}
var c07DateSeeds = []string{"01-JAN-2020", "29-FEB-2000", "29-FEB-1900", "31-Dec-1999", "15-06-2011", "1-JAN-1", "31-APR-2001", "00-JAN-2000", "11-OCT-2018", "29-NOV-2006"}
var c07MolSeeds = []string{"DNA", "RNA", "AA", "ss-DNA", "ds-DNA", "mRNA", "dna", "", "ss-RNA", "DNA "}
var c07TopSeeds = []string{"linear", "circular", "LINEAR", "Circular", "", "linear ", "circ", "circularlinear"}

func c07RandLocString(r *rand.Rand) string {
	L := []int{8, 40, 1000, 5000000}[r.Intn(4)]
	o := gen.LocOpt{L: L, MaxParts: 1 + r.Intn(6), MaxDepth: r.Intn(4), Ambiguous: true, Overlap: r.Intn(2) == 0, Sites: true}
	s := model.SafeString(gen.RandLoc(r, o))
	if r.Intn(10) == 0 && strings.Contains(s, "..>") {
		// legacy spelling of an open end
		i := strings.Index(s, "..>")
		j := i + 3
		for j < len(s) && s[j] >= '0' && s[j] <= '9' {
			j++
		}
		s = s[:i] + ".." + s[i+3:j] + ">" + s[j:]
	}
	return s
}

func c07RandLocatorString(r *rand.Rand) string {
	var head string
	switch r.Intn(5) {
	case 0:
		head = c07RandLocString(r)
	case 1:
		head = c07SelSeeds[r.Intn(len(c07SelSeeds))]
	case 2:
		head = fmt.Sprintf("%d..%d", 1+r.Intn(40), 1+r.Intn(60))
	case 3:
		head = fmt.Sprintf("complement(%d)", 1+r.Intn(40))
	}
	switch r.Intn(4) {
	case 0:
		return head
	case 1:
		return head + "@" + c07RandMod(r)
	case 2:
		return "@" + c07RandMod(r)
	}
	if head == "" {
		return c07RandMod(r)
	}
	return head + "@" + c07RandMod(r) + "@" + c07RandMod(r)
}

func c07RawBytes(r *rand.Rand, max int) []byte {
	n := r.Intn(max + 1)
	if r.Intn(4) == 0 {
		n = r.Intn(17)
	}
	b := make([]byte, n)
	mode := r.Intn(3)
	for i := range b {
		switch mode {
		case 0:
			b[i] = byte(r.Intn(256))
		case 1:
			b[i] = byte(32 + r.Intn(95))
			if r.Intn(30) == 0 {
				b[i] = '\n'
			}
		default:
			b[i] = c07RawAlpha[r.Intn(len(c07RawAlpha))]
		}
	}
	return b
}

func (s *c07State) loadCorpus() {
	c := s.c
	s.corpus = map[string][]byte{}
	dir := filepath.Join(os.Getenv("VERIF_REPO_DIR"), "seqio", "testdata")
	if os.Getenv("VERIF_REPO_DIR") == "" {
		dir = "/repo/seqio/testdata"
	}
	ents, err := os.ReadDir(dir)
	if err != nil {
		c.Inconclusive("corpus directory not readable: " + dir)
		return
	}
	for _, e := range ents {
		n := e.Name()
		if !(strings.HasSuffix(n, ".gb") || strings.HasSuffix(n, ".fasta") || n == "pBAT5.txt") {
			continue
		}
		b, err := os.ReadFile(filepath.Join(dir, n))
		if err != nil {
			continue
		}
		if len(b) > c07MaxInput {
			// keep the first record if it fits, else a prefix.
			if i := bytes.Index(b, []byte("\n//\n")); i >= 0 && i+4 <= c07MaxInput {
				b = b[:i+4]
			} else {
				b = b[:c07MaxInput]
			}
		}
		s.corpus[n] = b
	}
	for n := range s.corpus {
		s.names = append(s.names, n)
	}
	sort.Strings(s.names)
	for _, n := range s.names {
		if strings.HasSuffix(n, ".fasta") {
			s.faNames = append(s.faNames, n)
		} else {
			s.gbNames = append(s.gbNames, n)
			// the feature table of the record, as a base for the table parser.
			b := s.corpus[n]
			if i := bytes.Index(b, []byte("\nFEATURES")); i >= 0 {
				t := b[i+1:]
				if j := bytes.IndexByte(t, '\n'); j >= 0 {
					t = t[j+1:]
				}
				end := len(t)
				for _, stop := range []string{"\nORIGIN", "\nCONTIG", "\n//"} {
					if j := bytes.Index(t, []byte(stop)); j >= 0 && j+1 < end {
						end = j + 1
					}
				}
				s.tables = append(s.tables, t[:end])
			}
		}
	}
	if len(s.gbNames) == 0 || len(s.faNames) == 0 {
		c.Inconclusive("corpus has no GenBank or no FASTA file: " + dir)
	}
}

func c07RandFasta(r *rand.Rand) []byte {
	var b bytes.Buffer
	for k := 1 + r.Intn(3); k > 0; k-- {
		fmt.Fprintf(&b, ">seq%d %s\n", r.Intn(100), "some description")
		p := gen.C07Residues(r, r.Intn(300))
		for i := 0; i < len(p); i += 70 {
			e := i + 70
			if e > len(p) {
				e = len(p)
			}
			b.Write(p[i:e])
			b.WriteByte('\n')
		}
	}
	return b.Bytes()
}

func c07RandTable(r *rand.Rand) []byte {
	rec, _ := gen.C07RandGenBank(r, "TBL")
	if i := bytes.Index(rec, []byte("\nFEATURES")); i >= 0 {
		t := rec[i+1:]
		if j := bytes.IndexByte(t, '\n'); j >= 0 {
			t = t[j+1:]
		}
		end := len(t)
		for _, stop := range []string{"\nORIGIN", "\nCONTIG", "\n//"} {
			if j := bytes.Index(t, []byte(stop)); j >= 0 && j+1 < end {
				end = j + 1
			}
		}
		return t[:end]
	}
	return []byte("     gene            1..5\n                     /gene=\"x\"\n")
}

// streamBase draws a base text for the scanner.
func (s *c07State) streamBase(r *rand.Rand) (text []byte, source, name string) {
	switch k := r.Intn(20); {
	case k < 6 && len(s.gbNames) > 0:
		n := s.gbNames[r.Intn(len(s.gbNames))]
		return s.corpus[n], "corpus", n
	case k < 8 && len(s.faNames) > 0:
		n := s.faNames[r.Intn(len(s.faNames))]
		return s.corpus[n], "corpus", n
	case k < 10:
		return c07RandFasta(r), "fasta", "generated-fasta"
	case k < 13:
		var b []byte
		m := 2 + r.Intn(2)
		for i := 0; i < m; i++ {
			if i == 0 && r.Intn(4) == 0 && len(s.gbNames) > 0 {
				b = append(b, s.corpus[s.gbNames[r.Intn(len(s.gbNames))]]...)
				continue
			}
			rec, _ := gen.C07RandGenBank(r, fmt.Sprintf("REC%d", i))
			b = append(b, rec...)
		}
		return b, "multi-record", fmt.Sprintf("%d-records", m)
	}
	rec, info := gen.C07RandGenBank(r, "GEN1")
	return rec, "generated", fmt.Sprintf("generated(n=%d,features=%d,%s)", info.Residues, info.Features, strings.Join(info.Fields, "+"))
}

// mutate applies n operators; returns the text, the recipe and the op names.
func (s *c07State) mutate(r *rand.Rand, text []byte, n int, ops []string, c *fw.Ctx) ([]byte, string, []string) {
	var recipe []string
	var used []string
	for i := 0; i < n; i++ {
		for try := 0; try < 6; try++ {
			op := ops[r.Intn(len(ops))]
			var other []byte
			if op == "splice" {
				other, _, _ = s.streamBase(r)
			}
			out, detail, ok := gen.C07Apply(r, op, text, other)
			if !ok {
				continue
			}
			text = out
			recipe = append(recipe, op+"("+detail+")")
			used = append(used, op)
			if op == "declared-length" {
				if j := strings.Index(detail, "kind="); j >= 0 {
					kind := detail[j+5:]
					if sp := strings.IndexByte(kind, ' '); sp >= 0 {
						kind = kind[:sp]
					}
					if bytes.Contains(text, []byte("\nORIGIN")) {
						c.Bucket("declared|" + kind)
					}
				}
			}
			break
		}
	}
	return text, strings.Join(recipe, " "), used
}

func (s *c07State) readerFor(r *rand.Rand, n int) string {
	switch k := r.Intn(10); {
	case k == 0 && n <= 4096:
		return "one-byte"
	case k == 1:
		return "chunk7"
	}
	return "bytes"
}

func (m c07) Run(c *fw.Ctx) {
	c.EnableWAL()
	debug.SetMaxStack(512 << 20)
	s := &c07State{c: c, slow: map[string]c07Slow{}, seq: c07Sequence()}
	s.regQuoted = append([]string(nil), seqio.QuotedQualifierNames...)
	s.regLiteral = append([]string(nil), seqio.LiteralQualifierNames...)
	s.regToggle = append([]string(nil), seqio.ToggleQualifierNames...)
	s.loadCorpus()
	go s.watchdog()

	s.systematic()
	s.seeded()
	s.scaling()
	s.indents()
	s.tails()

	keys := make([]string, 0, len(s.slow))
	for k := range s.slow {
		keys = append(keys, k)
	}
	sort.Strings(keys)
	for _, k := range keys {
		c.Note(fmt.Sprintf("slowest %s case of shard %d: %.2f CPU-s: %s (evidence only; budget %.0f CPU-s)", k, c.Shard, s.slow[k].cpu, s.slow[k].what, c07BudgetCPU))
	}
}

// scaling is the bounded-progress form of "time proportional to the input"
// for constructs whose size can grow inside one record: the same construct is
// scanned at size n and 8n; a CPU time at 8n that exceeds eight times the CPU
// time at n by more than 0.25 CPU-seconds and by more than a factor 2.5 is
// reported (a quadratic term that is still small next to a large linear one
// at n shows as such an excess at 8n).
// (Quadratic behaviour that already exists on the unchanged tree - joins of
// thousands of parts - is reported as evidence by the slow-case notes, and is
// not part of these probes.)
func (s *c07State) scaling() {
	c := s.c
	head := "LOCUS       SCL %d bp DNA linear SYN 01-JAN-2020\nDEFINITION  scaling.\n"
	type probe struct {
		name  string
		build func(n int) string
		n     int
		entry string // "" = scan as sequence input, else a string entry point
	}
	parts := func(open, sep, close string, n int) string {
		var b strings.Builder
		b.WriteString(open)
		for i := 0; i < n; i++ {
			if i > 0 {
				b.WriteString(sep)
			}
			fmt.Fprintf(&b, "%d..%d", 10*i+1, 10*i+5)
		}
		b.WriteString(close)
		return b.String()
	}
	probes := []probe{
		{"comment continuation lines", func(n int) string {
			return fmt.Sprintf(head, 4) + "COMMENT     first\n" + strings.Repeat("            more text\n", n) + "ORIGIN      \n        1 acgt\n//\n"
		}, 700, ""},
		{"definition continuation lines", func(n int) string {
			return fmt.Sprintf("LOCUS       SCL 4 bp DNA linear SYN 01-JAN-2020\nDEFINITION  scaling\n") + strings.Repeat("            more text\n", n) + "            end.\nORIGIN      \n        1 acgt\n//\n"
		}, 700, ""},
		{"features", func(n int) string {
			var b strings.Builder
			b.WriteString(fmt.Sprintf(head, 4) + "FEATURES             Location/Qualifiers\n")
			for i := 0; i < n; i++ {
				b.WriteString("     gene            1..4\n                     /note=\"x\"\n")
			}
			b.WriteString("ORIGIN      \n        1 acgt\n//\n")
			return b.String()
		}, 250, ""},
		{"qualifiers of one feature", func(n int) string {
			return fmt.Sprintf(head, 4) + "FEATURES             Location/Qualifiers\n     gene            1..4\n" + strings.Repeat("                     /note=\"x\"\n", n) + "ORIGIN      \n        1 acgt\n//\n"
		}, 450, ""},
		{"lines of a quoted qualifier value", func(n int) string {
			return fmt.Sprintf(head, 4) + "FEATURES             Location/Qualifiers\n     gene            1..4\n                     /note=\"x\n" + strings.Repeat("                     more\n", n) + "                     end\"\nORIGIN      \n        1 acgt\n//\n"
		}, 550, ""},
		{"lines of an unquoted qualifier value", func(n int) string {
			return fmt.Sprintf(head, 4) + "FEATURES             Location/Qualifiers\n     tRNA            1..4\n                     /anticodon=(pos:1..3,\n" + strings.Repeat("                     seq:aaa,\n", n) + "                     aa:Met)\nORIGIN      \n        1 acgt\n//\n"
		}, 550, ""},
		{"CONTIG lines that name no accession", func(n int) string {
			return fmt.Sprintf(head, 4) + strings.Repeat("CONTIG      join(\n", n) + "ORIGIN      \n        1 acgt\n//\n"
		}, 600, ""},
		{"complemented parts of a join", func(n int) string {
			var b strings.Builder
			b.WriteString("join(")
			for i := 0; i < n; i++ {
				if i > 0 {
					b.WriteString(",")
				}
				fmt.Fprintf(&b, "complement(%d..%d)", 10*i+1, 10*i+5)
			}
			b.WriteString(")")
			return b.String()
		}, 400, "location"},
		{c07MixedRunProbe, func(n int) string { return c07MixedRun(n) }, 125, "location"},
		{"two-part joins inside a join", func(n int) string {
			var b strings.Builder
			b.WriteString("join(")
			for i := 0; i < n; i++ {
				if i > 0 {
					b.WriteString(",")
				}
				fmt.Fprintf(&b, "join(%d..%d,%d..%d)", 20*i+1, 20*i+5, 20*i+8, 20*i+12)
			}
			b.WriteString(")")
			return b.String()
		}, 1500, "location"},
		{"records of a stream", func(n int) string {
			return strings.Repeat(fmt.Sprintf(head, 4)+"ORIGIN      \n        1 acgt\n//\n", n)
		}, 150, ""},
		{"FASTA lines", func(n int) string { return ">f\n" + strings.Repeat("acgtacgtacgtacgtacgt\n", n) }, 3000, ""},
		{"DBLINK lines", func(n int) string {
			return fmt.Sprintf(head, 4) + "DBLINK      A: b\n" + strings.Repeat("            A: b\n", n) + "ORIGIN      \n        1 acgt\n//\n"
		}, 900, ""},
		{"unknown lines skipped as garbage", func(n int) string {
			return fmt.Sprintf(head, 4) + strings.Repeat("  ??? unknown line\n", n) + "ORIGIN      \n        1 acgt\n//\n"
		}, 800, ""},
		{"parts of a join (location string)", func(n int) string { return parts("join(", ",", ")", n) }, 500, "location"},
		{"parts of an order (location string)", func(n int) string { return parts("order(", ",", ")", n) }, 500, "location"},
		{"nesting depth of complement (location string)", func(n int) string {
			return strings.Repeat("complement(", n) + "1..5" + strings.Repeat(")", n)
		}, 125, "location"},
		{"parts of a join nested in a join (location string)", func(n int) string { return "join(" + parts("join(", ",", ")", n) + ",999999999)" }, 2000, "location"},
		{"parts of a join nested in a join on the lines of one feature", func(n int) string {
			var b strings.Builder
			b.WriteString(fmt.Sprintf(head, 4) + "FEATURES             Location/Qualifiers\n     gene            join(join(")
			for i := 0; i < n; i++ {
				if i > 0 {
					b.WriteString(",\n                     ")
				}
				fmt.Fprintf(&b, "%d..%d", 10*i+1, 10*i+5)
			}
			b.WriteString("),999999999)\n                     /note=\"x\"\nORIGIN      \n        1 acgt\n//\n")
			return b.String()
		}, 500, ""},
		{"parts of a join (locator string)", func(n int) string { return parts("join(", ",", ")", n) }, 500, "locator"},
		{"parts of a join on the lines of one feature", func(n int) string {
			var b strings.Builder
			b.WriteString(fmt.Sprintf(head, 4) + "FEATURES             Location/Qualifiers\n     gene            join(")
			for i := 0; i < n; i++ {
				if i > 0 {
					b.WriteString(",\n                     ")
				}
				fmt.Fprintf(&b, "%d..%d", 10*i+1, 10*i+5)
			}
			b.WriteString(")\n                     /note=\"x\"\nORIGIN      \n        1 acgt\n//\n")
			return b.String()
		}, 500, ""},
		{"qualifier clauses of a selector", func(n int) string { return "gene" + strings.Repeat("/note=x", n) }, 125, "selector"},
		{"features of a feature table", func(n int) string {
			return strings.Repeat("gene            1..4\n                /note=\"x\"\n", n)
		}, 250, "table"},
	}
	origin := func(n int) string {
		var b strings.Builder
		fmt.Fprintf(&b, head, 60*n)
		b.WriteString("ORIGIN      \n")
		for i := 0; i < n; i++ {
			fmt.Fprintf(&b, "%9d acgtacgtac gtacgtacgt acgtacgtac gtacgtacgt acgtacgtac gtacgtacgt\n", 60*i+1)
		}
		b.WriteString("//\n")
		return b.String()
	}
	probes = append(probes,
		probe{"ORIGIN lines", origin, 700, ""},
		probe{"ORIGIN lines of a record that is not the first", func(n int) string { return origin(1) + origin(n) }, 700, ""})
	// the same constructs with CRLF line ends.
	for _, p := range append([]probe{}, probes...) {
		if p.entry != "" || strings.Contains(p.name, "location") {
			continue
		}
		build := p.build
		probes = append(probes, probe{p.name + " (CRLF)", func(n int) string { return strings.ReplaceAll(build(n), "\n", "\r\n") }, p.n, ""})
	}
	scanCPU := func(entry, text string) (float64, int) {
		best := -1.0
		recs := 0
		for rep := 0; rep < 2; rep++ {
			s.restoreRegistries()
			t0 := c07CPU()
			recs = 0
			if entry == "" {
				sc := seqio.NewAutoScanner(strings.NewReader(text))
				for i := 0; i < len(text)+2 && sc.Scan(); i++ {
					recs++
				}
			} else if s.call(entry, text) == nil {
				recs = 1
			}
			if d := c07CPU() - t0; best < 0 || d < best {
				best = d
			}
		}
		return best, recs
	}
	mult := 4
	if v, err := strconv.Atoi(os.Getenv("VH_C07_SCALE")); err == nil && v > 0 {
		mult = v
	}
	for _, p := range probes {
		if !c.NextShared() {
			continue
		}
		p.n *= mult
		small, large := p.build(p.n), p.build(8*p.n)
		enc := fmt.Sprintf("scaling probe: %s at n=%d (%d bytes) and n=%d (%d bytes)", p.name, p.n, len(small), 8*p.n, len(large))
		c.Begin(enc)
		c.Count(enc, true)
		c.Bucket("scaling-probe")
		var t1, t4 float64
		var r4 int
		pn, val, site, stack := fw.Guard(func() {
			t1, _ = scanCPU(p.entry, small)
			t4, r4 = scanCPU(p.entry, large)
		})
		if pn {
			c.ViolateX("scaling:"+panicClass(site, val), enc, "no panic", fmt.Sprint(val), stack, nil)
			continue
		}
		c.Note(fmt.Sprintf("scaling %s: %.3f CPU-s at n, %.3f CPU-s at 8n (%d read)", p.name, t1, t4, r4))
		// what linear scaling predicts for 8n, and the excess over it.
		lin := 8 * math.Max(t1, 0.002)
		if t4-lin > 0.25 && t4 > 2.5*lin && p.name == c07MixedRunProbe && c.KFEnabled(c07KFMixedRun) {
			c.Known(c07KFMixedRun, enc)
			continue
		}
		if t4-lin > 0.25 && t4 > 2.5*lin {
			c.Violate("superlinear-time:"+strings.NewReplacer(" ", "-", "(", "", ")", "").Replace(p.name), enc, "CPU time at 8n within 2.5x of eight times the CPU time at n (or an excess under 0.25 CPU-s)", fmt.Sprintf("%.3f CPU-s -> %.3f CPU-s", t1, t4))
		}
	}
}

// sys runs a systematic case on the shard that owns it.
func (s *c07State) sys(k c07Case) {
	if !s.c.NextShared() {
		return
	}
	if k.entry == "scan" && k.reader == "" {
		k.reader = []string{"bytes", "bytes", "bytes", "chunk7", "one-byte"}[int(s.c.Seq()/fw.NShards)%5]
		if k.reader == "one-byte" && len(k.input) > 4096 {
			k.reader = "bytes"
		}
	}
	s.run(k)
}

func c07TruncBucket(text []byte, at int) string {
	// where does the cut fall (by the simple reader's view of the intact text)?
	first := bytes.IndexByte(text, '\n')
	if first < 0 || at <= first {
		if bytes.HasPrefix(text, []byte("LOCUS")) {
			return "locus-line"
		}
		return "first-line"
	}
	o := bytes.Index(text, []byte("\nORIGIN"))
	f := bytes.Index(text, []byte("\nFEATURES"))
	switch {
	case o >= 0 && at > o:
		return "origin-block"
	case f >= 0 && at > f:
		return "feature-table"
	}
	return "header-fields"
}

func (s *c07State) systematic() {
	c := s.c
	q := c.SubRng("c07-systematic")

	// --- small bases, identical on every shard.
	type base struct {
		name   string
		text   []byte
		source string
	}
	var small []base
	mini := c07MiniRecord(73, c07MiniResidues(73), false)
	small = append(small, base{"mini(n=73)", mini, "named"})
	small = append(small, base{"mini(n=73,CRLF)", gen.C07ToCRLF(mini), "named"})
	nGen := c.Pick(3, 10)
	for i := 0; i < nGen; i++ {
		rec, info := gen.C07RandGenBank(q, fmt.Sprintf("SYS%d", i))
		small = append(small, base{fmt.Sprintf("generated#%d(n=%d,features=%d,%s)", i, info.Residues, info.Features, strings.Join(info.Fields, "+")), rec, "generated"})
		if i == 1 {
			small = append(small, base{fmt.Sprintf("generated#%d(CRLF)", i), gen.C07ToCRLF(rec), "generated"})
		}
	}
	{
		a, _ := gen.C07RandGenBank(q, "TWOA")
		b, _ := gen.C07RandGenBank(q, "TWOB")
		small = append(small, base{"two-records", append(append([]byte(nil), a...), b...), "multi-record"})
	}
	fa := []byte(">one first\nACGTACGTAC\nGGTTAA\n>two\nTTGACA\n")
	small = append(small, base{"fasta-small", fa, "fasta"}, base{"fasta-small(CRLF)", gen.C07ToCRLF(fa), "fasta"})
	if b, ok := s.corpus["NC_001422_part.fasta"]; ok {
		small = append(small, base{"NC_001422_part.fasta", b, "corpus"})
	}
	if c.Thorough() {
		for _, n := range []string{"pBAT5.txt", "NC_001422_part.gb"} {
			if b, ok := s.corpus[n]; ok {
				small = append(small, base{n, b, "corpus"})
			}
		}
	}

	// S0 the pristine bases and corpus files.
	for _, b := range small {
		s.sys(c07Case{entry: "scan", source: b.source, recipe: "pristine " + b.name, input: b.text, pristine: true})
	}
	for _, n := range s.names {
		s.sys(c07Case{entry: "scan", source: "corpus", recipe: "pristine " + n, input: s.corpus[n], pristine: true})
		s.sys(c07Case{entry: "scan", source: "corpus", recipe: "pristine " + n + " as CRLF", input: gen.C07ToCRLF(s.corpus[n]), pristine: true})
	}

	// S1 truncation at every offset.
	for _, b := range small {
		for at := 0; at < len(b.text); at++ {
			if !c.NextShared() {
				continue
			}
			if bytes.HasPrefix(b.text, []byte("LOCUS")) {
				c.Bucket("truncated-in|" + c07TruncBucket(b.text, at))
			}
			rd := []string{"bytes", "chunk7"}[int(c.Seq()/fw.NShards)%2]
			s.run(c07Case{entry: "scan", source: b.source, recipe: fmt.Sprintf("%s truncate(at=%d)", b.name, at), ops: []string{"truncate"}, input: b.text[:at], reader: rd})
		}
		c.Exhaustive("truncation at every offset of " + strings.SplitN(b.name, "(", 2)[0])
	}

	// S2 every declared length around the residues present.
	for _, n := range []int{0, 1, 10, 59, 60, 61, 120, 133} {
		p := c07MiniResidues(n)
		var ds []int
		for d := 0; d <= n+70; d++ {
			ds = append(ds, d)
		}
		ds = append(ds, n+120, n+121, 1000, 1000000000, 4294967296, 7000000000000000000, 7300000000000000000, math.MaxInt64, -1, -60, -133)
		for _, d := range ds {
			for _, crlf := range []bool{false, true} {
				if !c.NextShared() {
					continue
				}
				kind := "other"
				switch d {
				case n - 1:
					kind = "minus1"
				case n + 1:
					kind = "plus1"
				case n - 60:
					kind = "minus60"
				case n + 60:
					kind = "plus60"
				case 0:
					kind = "zero"
				case 1000000000:
					kind = "1e9"
				}
				if d != n {
					c.Bucket("declared|" + kind)
				}
				eol := "LF"
				if crlf {
					eol = "CRLF"
				}
				s.run(c07Case{entry: "scan", source: "named", recipe: fmt.Sprintf("mini record, %d residues in ORIGIN, declared-length(%d) %s", n, d, eol), ops: []string{"declared-length"},
					input: c07MiniRecord(d, p, crlf), reader: "bytes", knowClaims: true, claimD: d, claimN: n})
			}
		}
	}
	c.Exhaustive("declared LOCUS length 0..n+70 for ORIGIN blocks of n in {0,1,10,59,60,61,120,133} residues, LF and CRLF")

	// S3 every byte of the minimal record overwritten.
	{
		base := c07MiniRecord(21, c07MiniResidues(21), false)
		for at := 0; at < len(base); at++ {
			for _, b := range []byte{' ', '\n', '\r', '0', ':', 0xff} {
				if !c.NextShared() {
					continue
				}
				if base[at] == b {
					continue
				}
				in := append([]byte(nil), base...)
				in[at] = b
				s.run(c07Case{entry: "scan", source: "named", recipe: fmt.Sprintf("mini(n=21) flip-byte(at=%d byte=%d)", at, b), ops: []string{"flip-byte"}, input: in, reader: "bytes"})
			}
		}
		c.Exhaustive("every byte of the minimal record overwritten by space, LF, CR, '0', ':' and 0xff")
	}

	// S4 every operator a fixed number of times on every small base.
	reps := c.Pick(24, 120)
	for _, b := range small {
		for _, op := range gen.C07TextOps {
			for i := 0; i < reps; i++ {
				var other []byte
				if op == "splice" {
					other = small[q.Intn(len(small))].text
				}
				out, detail, ok := gen.C07Apply(q, op, b.text, other)
				if !ok {
					break
				}
				if !c.NextShared() {
					continue
				}
				if op == "declared-length" && bytes.Contains(out, []byte("\nORIGIN")) {
					if j := strings.Index(detail, "kind="); j >= 0 {
						c.Bucket("declared|" + strings.SplitN(detail[j+5:], " ", 2)[0])
					}
				}
				s.run(c07Case{entry: "scan", source: b.source, recipe: fmt.Sprintf("%s %s(%s)", b.name, op, detail), ops: []string{op}, input: out,
					reader: []string{"bytes", "bytes", "chunk7", "one-byte"}[i%4]})
			}
		}
	}

	// S5 the shapes the statement names.
	fields := []string{"DEFINITION", "ACCESSION", "VERSION", "DBLINK", "KEYWORDS", "SOURCE", "REFERENCE", "COMMENT", "FEATURES", "CONTIG", "ORIGIN", "PRIMARY", "VERYLONGFIELDNAME", "X", "ABCDEFGHIJKLMNOPQRSTUVWXYZABCDEFGHIJKLMNOPQRSTUVWXYZ"}
	for sp := 1; sp <= 14; sp++ {
		for _, f := range fields {
			for _, pad := range []int{-1, 0, 1, 3} {
				var b bytes.Buffer
				fmt.Fprintf(&b, "LOCUS%sX 4 bp DNA linear UNA 01-JAN-2020\n", strings.Repeat(" ", sp))
				switch pad {
				case -1:
					b.WriteString(f + "\n")
				default:
					b.WriteString(f + strings.Repeat(" ", pad) + "value of the field.\n")
				}
				b.WriteString("ORIGIN\n        1 acgt\n//\n")
				s.sys(c07Case{entry: "scan", source: "named", recipe: fmt.Sprintf("field name %s (%d columns) under a LOCUS indent of %d, %d padding spaces", f, len(f), sp+5, pad), ops: []string{"indent-shrink"}, input: b.Bytes()})
			}
		}
	}
	// a field (or sub-field) whose value is nothing but white space, of every
	// width around the 12-column indent, LF and CRLF.
	for _, f := range []string{"DEFINITION", "ACCESSION", "VERSION", "DBLINK", "KEYWORDS", "SOURCE", "  ORGANISM", "REFERENCE", "  AUTHORS", "  TITLE", "  JOURNAL", "   PUBMED", "COMMENT", "PRIMARY", "CONTIG", "ORIGIN"} {
		for _, fill := range []string{"", " ", "  ", "   ", "    ", "      ", "             ", strings.Repeat(" ", 40), "\t", "  \t  ", strings.Repeat(" ", 80)} {
			for _, crlf := range []bool{false, true} {
				head := "LOCUS       X 4 bp DNA linear UNA 01-JAN-2020\nDEFINITION  d.\n"
				if f == "DEFINITION" {
					head = "LOCUS       X 4 bp DNA linear UNA 01-JAN-2020\n"
				}
				if strings.HasPrefix(f, "  ") && f != "  ORGANISM" {
					head += "REFERENCE   1  (bases 1 to 4)\n"
				}
				if f == "  ORGANISM" {
					head += "SOURCE      s\n"
				}
				tail := "ORIGIN      \n        1 acgt\n//\n"
				if f == "ORIGIN" {
					tail = "        1 acgt\n//\n"
				}
				in := []byte(head + f + fill + "\n" + tail)
				if crlf {
					in = gen.C07ToCRLF(in)
				}
				s.sys(c07Case{entry: "scan", source: "named", recipe: fmt.Sprintf("field %q followed by %d bytes of white space %q and nothing else, crlf=%v", f, len(fill), fill, crlf), ops: []string{"drop-value"}, input: in})
			}
		}
	}
	// reference sub-fields of older records (MEDLINE with and without PUBMED,
	// in either order), and sub-fields no reader knows.
	for _, subs := range []string{"   MEDLINE   97002444\n", "   MEDLINE   97002444\n   PUBMED   8849441\n", "   PUBMED   8849441\n   MEDLINE   97002444\n", "  MEDLINE   97002444\n", "  AUTHORS   A,B.\n  MEDLINE   97002444\n", "  STANDARD  full automatic\n", "  MEDLINE\n"} {
		for _, crlf := range []bool{false, true} {
			in := []byte("LOCUS       X 4 bp DNA linear UNA 01-JAN-2020\nDEFINITION  d.\nREFERENCE   1  (bases 1 to 4)\n" + subs + "ORIGIN      \n        1 acgt\n//\n")
			if crlf {
				in = gen.C07ToCRLF(in)
			}
			s.sys(c07Case{entry: "scan", source: "named", recipe: fmt.Sprintf("REFERENCE sub-fields %q crlf=%v", subs, crlf), ops: []string{"swap-lines"}, input: in})
		}
	}
	for _, v := range []string{"X:", "X: ", "X:Y", "X: Y", ":", "X", "", "X::", "BioProject:", "a:b:c:"} {
		for _, cont := range []string{"", "            Y:\n", "            Y: 1\n            :\n", "            \n"} {
			for _, crlf := range []bool{false, true} {
				in := []byte("LOCUS       X 4 bp DNA linear UNA 01-JAN-2020\nDEFINITION  d.\nDBLINK      " + v + "\n" + cont + "KEYWORDS    .\nORIGIN      \n        1 acgt\n//\n")
				if crlf {
					in = gen.C07ToCRLF(in)
				}
				s.sys(c07Case{entry: "scan", source: "named", recipe: fmt.Sprintf("DBLINK value %q continuation %q crlf=%v", v, cont, crlf), ops: []string{"drop-value"}, input: in})
			}
		}
	}
	// an unreadable record followed by an intact one: the scanner must stop.
	{
		intact := c07MiniRecord(21, c07MiniResidues(21), false)
		for _, bad := range []string{
			"LOCUS       X 4 bp XNA linear UNA 01-JAN-2020\n",
			"LOCUS       X 4 bp DNA twisted UNA 01-JAN-2020\n",
			"LOCUS       X 4 bp DNA linear UNA 41-JAN-2020\n",
			"LOCUS       X 4 bp DNA linear UNA 01-JAN-2020\nDEFINITION d.\n",
			"LOCUS       X 4 bp DNA linear UNA 01-JAN-2020\nSOURCE      x\n",
			"LOCUS       X 4 bp DNA linear UNA 01-JAN-2020\nFEATURES             Location/Qualifiers\n     gene            bad\n",
			"LOCUS       X 4 bp DNA linear UNA 01-JAN-2020\nREFERENCE   x\n",
			"LOCUS       X 4 bp DNA linear UNA 01-JAN-2020\ngarbage\n",
			"LOCUS       X 4 bp DNA linear UNA 01-JAN-2020\nORIGIN      \n        1 ac\n",
			"LOCUS       X 40 bp DNA linear UNA 01-JAN-2020\nFEATURES             Location/Qualifiers\n     gene            1..4\n                     /gene=\"a\"\nORIGIN      \n        1 acgtacgtac\n",
			"LOCUS       X 4 bp DNA linear UNA 01-JAN-2020\nDEFINITION  d.\nORIGIN      \n",
			">fasta first\nACGT\n",
			"garbage\n",
			"//\n",
			"\n",
		} {
			for _, lead := range []string{"", string(intact)} {
				in := append([]byte(lead+bad), intact...)
				s.sys(c07Case{entry: "scan", source: "named", recipe: fmt.Sprintf("unreadable record %q after %d intact bytes, then an intact record", bad, len(lead)), ops: []string{"splice"}, input: in})
			}
			// ... and followed by an intact record of the other format.
			if strings.HasPrefix(bad, "LOCUS") {
				in := []byte(bad + ">fasta follows\nacgtacgtacgtacgtacgtacgtacgtacgtacgtacgtacgtacgtacgt\n")
				s.sys(c07Case{entry: "scan", source: "named", recipe: fmt.Sprintf("unreadable GenBank record %q, then an intact FASTA record", bad), ops: []string{"splice"}, input: in})
			}
		}
	}

	// S6 extreme arity and nesting.
	s.extremes()
}

func c07Repeat(unit string, n int, sep string) string {
	var b strings.Builder
	for i := 0; i < n; i++ {
		if i > 0 {
			b.WriteString(sep)
		}
		b.WriteString(unit)
	}
	return b.String()
}

func (s *c07State) extremes() {
	c := s.c
	type ext struct {
		name, kind string
		text       string
	}
	var locs []ext
	add := func(name, kind, text string) { locs = append(locs, ext{name, kind, text}) }
	pts := func(n int) string {
		var b strings.Builder
		for i := 0; i < n; i++ {
			if i > 0 {
				b.WriteByte(',')
			}
			b.WriteByte(byte('1' + (2*i)%9))
		}
		return b.String()
	}
	rngs := func(n int) string {
		var b strings.Builder
		for i := 0; i < n; i++ {
			if i > 0 {
				b.WriteByte(',')
			}
			fmt.Fprintf(&b, "%d..%d", 3*i+1, 3*i+2)
		}
		return b.String()
	}
	for _, kw := range []string{"join", "order"} {
		add(kw+" of 16000 points", "wide-list", kw+"("+pts(16000)+")")
		add(kw+" of 16000 points unclosed", "wide-list", kw+"("+pts(16000))
		add(kw+" of 16000 equal points", "wide-list", kw+"("+c07Repeat("7", 16000, ",")+")")
		add(kw+" of 5000 ranges", "wide-list", kw+"("+rngs(5000)+")")
		add(kw+" of 16000 empty members", "wide-list", kw+"("+c07Repeat("", 16000, ",")+")")
		add(kw+" nested 5000 deep", "deep-nesting", strings.Repeat(kw+"(", 5000)+"1..2"+strings.Repeat(")", 5000))
		add(kw+" nested 5000 deep two members", "deep-nesting", strings.Repeat(kw+"(1,", 5000)+"3..4"+strings.Repeat(")", 5000))
		add(kw+" nested 9000 deep unclosed", "deep-nesting", strings.Repeat(kw+"(", 9000))
	}
	add("complement 5000 deep", "deep-nesting", strings.Repeat("complement(", 5000)+"1..2"+strings.Repeat(")", 5000))
	add("complement 5000 deep unclosed", "deep-nesting", strings.Repeat("complement(", 5000)+"1..2")
	add("complement 5900 deep no operand", "deep-nesting", strings.Repeat("complement(", 5900))
	add("complement(join( 2900 deep", "deep-nesting", strings.Repeat("complement(join(", 2900)+"1..2,5"+strings.Repeat("))", 2900))
	add("complement 5000 deep one closer short", "deep-nesting", strings.Repeat("complement(", 5000)+"1..2"+strings.Repeat(")", 4999))
	add("64 KiB of (", "deep-nesting", strings.Repeat("(", c07MaxInput))
	add("64 KiB of )", "deep-nesting", strings.Repeat(")", c07MaxInput))
	add("60000-digit point", "wide-list", strings.Repeat("9", 60000))
	add("60000-digit range", "wide-list", "1.."+strings.Repeat("9", 60000))
	add("64 KiB of <", "wide-list", strings.Repeat("<", c07MaxInput))
	add("64 KiB of 1..", "wide-list", strings.Repeat("1..", c07MaxInput/3))
	add("64 KiB of 1^", "wide-list", strings.Repeat("1^", c07MaxInput/2))
	add("64 KiB of spaces", "wide-list", strings.Repeat(" ", c07MaxInput))

	for _, e := range locs {
		c.Bucket("extreme|" + e.kind)
		s.sys(c07Case{entry: "location", source: "extreme", recipe: e.name, input: []byte(e.text)})
		s.sys(c07Case{entry: "locator", source: "extreme", recipe: e.name, input: []byte(e.text)})
		if len(e.text)+6 <= c07MaxInput {
			s.sys(c07Case{entry: "locator", source: "extreme", recipe: e.name + " @^..$", input: []byte(e.text + "@^..$")})
		}
		// as the location of a feature, through the table parser and the scanner.
		if len(e.text)+200 <= c07MaxInput && !strings.HasPrefix(e.name, "64 KiB of spaces") {
			tab := "     gene            " + e.text + "\n                     /gene=\"x\"\n"
			s.sys(c07Case{entry: "table", source: "extreme", recipe: "feature located at " + e.name, input: []byte(tab)})
			rec := "LOCUS       X 4 bp DNA linear UNA 01-JAN-2020\nFEATURES             Location/Qualifiers\n" + tab + "ORIGIN      \n        1 acgt\n//\n"
			s.sys(c07Case{entry: "scan", source: "extreme", recipe: "record with a feature located at " + e.name, input: []byte(rec)})
		}
	}
	str := func(entry, name, kind, text string) {
		c.Bucket("extreme|" + kind)
		s.sys(c07Case{entry: entry, source: "extreme", recipe: name, input: []byte(text)})
	}
	str("locator", "64 KiB of @", "wide-list", strings.Repeat("@", c07MaxInput))
	str("locator", "16000 resizes", "wide-list", "gene"+strings.Repeat("@^", 16000))
	str("locator", "13000 x@ links", "wide-list", strings.Repeat("1@", 13000)+"^")
	str("locator", "selector of 16000 clauses resized", "wide-list", "gene"+strings.Repeat("/a=b", 15000)+"@^-1..$+1")
	str("modifier", "60000-digit head", "wide-list", "^+"+strings.Repeat("9", 60000))
	str("modifier", "60000-digit tail", "wide-list", "^..$-"+strings.Repeat("1", 60000))
	str("modifier", "64 KiB of ^", "wide-list", strings.Repeat("^", c07MaxInput))
	str("modifier", "64 KiB of ^..", "wide-list", strings.Repeat("^..", c07MaxInput/3))
	str("modifier", "64 KiB of $+1..", "wide-list", strings.Repeat("$+1..", c07MaxInput/5))
	str("selector", "16000 clauses", "wide-list", "gene"+strings.Repeat("/a=b", 16000))
	str("selector", "64 KiB of /", "wide-list", strings.Repeat("/", c07MaxInput))
	str("selector", "32k escaped slashes", "wide-list", strings.Repeat("\\/", c07MaxInput/2))
	str("selector", "regexp groups 5000 deep", "deep-nesting", "gene/note="+strings.Repeat("(", 5000)+"a"+strings.Repeat(")", 5000))
	str("selector", "regexp groups 900 deep", "deep-nesting", "gene/note="+strings.Repeat("(", 900)+"a"+strings.Repeat(")", 900))
	str("selector", "regexp groups 30000 deep unclosed", "deep-nesting", "/note="+strings.Repeat("(", 30000))
	str("selector", "regexp stacked repeats", "deep-nesting", "/note="+strings.Repeat("(a{1000})", 8)+"{1000}")
	str("selector", "regexp 60000 stars", "wide-list", "/note=a"+strings.Repeat("*", 60000))
	str("selector", "regexp 20000 alternatives", "wide-list", "/note="+c07Repeat("ab", 20000, "|"))
	str("selector", "regexp of 8000 optional a then 8000 a (matching applied)", "wide-list", "/note="+strings.Repeat("a?", 8000)+strings.Repeat("a", 8000))
	str("selector", "60 KiB key", "wide-list", strings.Repeat("k", 60000))
	str("date", "20000 fields", "wide-list", c07Repeat("1", 20000, "-"))
	str("date", "60000-digit day", "wide-list", strings.Repeat("1", 60000)+"-JAN-2020")
	str("date", "60000-digit year", "wide-list", "01-JAN-"+strings.Repeat("2", 60000))
	str("date", "64 KiB of -", "wide-list", strings.Repeat("-", c07MaxInput))
	str("molecule", "64 KiB of DNA", "wide-list", strings.Repeat("DNA", c07MaxInput/3))
	str("topology", "64 KiB of linear", "wide-list", strings.Repeat("linear", c07MaxInput/6))
	str("topology", "64 KiB of 0xff", "wide-list", strings.Repeat("\xff", c07MaxInput))
	// tables
	str("table", "10000 features", "wide-list", c07Repeat("     gene            1..5\n", 2600, ""))
	str("table", "feature with 2500 qualifiers", "wide-list", "     gene            1..5\n"+c07Repeat("                     /note=\"x\"\n", 2000, ""))
	str("table", "60 KiB quoted value", "wide-list", "     gene            1..5\n                     /note=\""+strings.Repeat("x", 60000)+"\"\n")
	str("table", "60 KiB unclosed quoted value", "wide-list", "     gene            1..5\n                     /note=\""+strings.Repeat("x", 60000)+"\n")
	str("table", "quoted value of 1000 lines", "wide-list", "     gene            1..5\n                     /note=\""+c07Repeat("word word", 1000, "\n                     ")+"\"\n")
	str("table", "quoted value of 30000 backslashes", "wide-list", "     gene            1..5\n                     /note=\""+strings.Repeat("\\", 30001)+"\n")
	str("table", "literal value of 1500 lines", "wide-list", "     gene            1..5\n                     /codon_start=1\n"+c07Repeat("                     2\n", 1500, ""))
	str("table", "60 KiB key", "wide-list", "     "+strings.Repeat("k", 60000)+" 1..5\n")
	str("table", "60 KiB indent", "wide-list", strings.Repeat(" ", 60000)+"gene 1..5\n")
	str("table", "unknown qualifier names x3000", "wide-list", "     gene            1..5\n"+func() string {
		var b strings.Builder
		for i := 0; i < 1500; i++ {
			fmt.Fprintf(&b, "                     /zz%d\n                     /yy%d=1\n", i, i)
		}
		return b.String()
	}())
	// CONTIG-only records (declared length, no ORIGIN) whose CONTIG line is damaged
	// after the accession: they must not be read as empty sequences.
	for _, eol := range []string{"\n", "\r\n"} {
		for _, cl := range [][2]string{
			{"intact (control)", "CONTIG      join(U00096.3:1..100)"},
			{"closing parenthesis lost", "CONTIG      join(U00096.3:1..100"},
			{"single dot", "CONTIG      join(U00096.3:1.100)"},
			{"non-numeric start", "CONTIG      join(U00096.3:x..100)"},
			{"end coordinate lost", "CONTIG      join(U00096.3:1..)"},
			{"cut after the colon", "CONTIG      join(U00096.3:"},
			{"join( lost", "CONTIG      U00096.3:1..100)"},
		} {
			rec := "LOCUS       CTG                      100 bp    DNA     linear   CON 01-JAN-2020" + eol + "DEFINITION  contig only." + eol + "ACCESSION   CTG" + eol + cl[1] + eol + "//" + eol
			str("scan", "contig-only record, CONTIG line: "+cl[0]+" eol="+fmt.Sprintf("%q", eol), "contig-damaged", rec)
		}
	}
	// a location of every shape wherever a header line carries one: the REGION
	// window of the ACCESSION line, the CONTIG line, a REFERENCE's base range.
	for li, loc := range []string{"5..20", "<5..>20", "5", "5^6", "5.20", "complement(5..20)", "complement(5)", "complement(5^6)", "join(1..5,11..20)", "order(1..5,11..20)",
		"complement(join(1..5,11..20))", "complement(order(1..5,11..20))", "join(complement(11..20),complement(1..5))", "join(1..5,complement(11..20))", "complement(complement(5..20))",
		"join(5..20)", "join()", "complement()", "5..", "..20", "20..5", "0..0", "-5..20", "99999999999999999999..5", "join(1..5,join(7..9,11..20))", "one-of(5,7)..20", "J00194.1:5..20"} {
		for _, eol := range []string{"\n", "\r\n"} {
			rec := "LOCUS       RGN                       30 bp    DNA     linear   SYN 01-JAN-2020" + eol + "DEFINITION  window." + eol + "ACCESSION   RGN REGION: " + loc + eol +
				"VERSION     RGN.1" + eol + "ORIGIN      " + eol + "        1 acgtacgtac gtacgtacgt acgtacgtac" + eol + "//" + eol
			str("scan", fmt.Sprintf("ACCESSION line with REGION: %s eol=%q", loc, eol), "header-location", rec)
			if li < 16 {
				ref := "LOCUS       RGN                       30 bp    DNA     linear   SYN 01-JAN-2020" + eol + "DEFINITION  window." + eol + "REFERENCE   1  (bases " + loc + ")" + eol + "  AUTHORS   A,B." + eol +
					"ORIGIN      " + eol + "        1 acgtacgtac gtacgtacgt acgtacgtac" + eol + "//" + eol
				str("scan", fmt.Sprintf("REFERENCE line with (bases %s) eol=%q", loc, eol), "header-location", ref)
			}
		}
	}
	// streams
	// FASTA records with an empty or one-character description under every
	// mix of line ends, as the first and as the second record of a stream.
	for _, hd := range []string{">", "> ", ">x", ">\t"} {
		for _, he := range []string{"\n", "\r\n", "\r"} {
			for _, be := range []string{"\n", "\r\n", "\r", ""} {
				for _, body := range []string{"", "ACGT", "ACGT" + be + "GG", "\r", " "} {
					one := hd + he + body + be
					str("scan", fmt.Sprintf("short FASTA header %q head-eol=%q body=%q body-eol=%q", hd, he, body, be), "short-fasta-header", one)
					str("scan", fmt.Sprintf("short FASTA header %q head-eol=%q body=%q body-eol=%q as second record", hd, he, body, be), "short-fasta-header", ">first\nAC\n"+one)
				}
			}
		}
	}
	str("scan", "32768 empty FASTA records", "wide-list", strings.Repeat(">\n", c07MaxInput/2))
	str("scan", "64 KiB of >", "wide-list", strings.Repeat(">", c07MaxInput))
	str("scan", "one FASTA line of 64 KiB", "wide-list", ">x\n"+strings.Repeat("A", c07MaxInput-3))
	str("scan", "FASTA description of 64 KiB", "wide-list", ">"+strings.Repeat("d", c07MaxInput-1))
	str("scan", "64 KiB of LF", "wide-list", strings.Repeat("\n", c07MaxInput))
	str("scan", "64 KiB of CR", "wide-list", strings.Repeat("\r", c07MaxInput))
	str("scan", "64 KiB of spaces", "wide-list", strings.Repeat(" ", c07MaxInput))
	str("scan", "64 KiB of LOCUS", "wide-list", strings.Repeat("LOCUS", c07MaxInput/5))
	str("scan", "LOCUS then 64 KiB of spaces", "wide-list", "LOCUS"+strings.Repeat(" ", c07MaxInput-5))
	str("scan", "LOCUS spread over 30000 lines", "wide-list", "LOCUS"+strings.Repeat("\n", 30000)+"X 4 bp DNA linear UNA 01-JAN-2020\n//\n")
	str("scan", "60 KiB locus name", "wide-list", "LOCUS       "+strings.Repeat("N", 60000)+" 4 bp DNA linear UNA 01-JAN-2020\nORIGIN\n        1 acgt\n//\n")
	str("scan", "60000-digit declared length", "wide-list", "LOCUS       X "+strings.Repeat("9", 60000)+" bp DNA linear UNA 01-JAN-2020\nORIGIN\n        1 acgt\n//\n")
	head := "LOCUS       X 4 bp DNA linear UNA 01-JAN-2020\n"
	tail := "ORIGIN      \n        1 acgt\n//\n"
	str("scan", "4000 garbage lines", "wide-list", head+c07Repeat("garbage line\n", 4000, "")+tail)
	str("scan", "5000 unknown fields", "wide-list", head+c07Repeat("UNKNOWN     v\n", 4000, "")+tail)
	str("scan", "DEFINITION of 4000 lines", "wide-list", head+"DEFINITION  x\n"+c07Repeat("            more\n", 3500, "")+tail)
	str("scan", "4000 REFERENCE fields", "wide-list", head+c07Repeat("REFERENCE   1\n", 4000, "")+tail)
	str("scan", "REFERENCE with 3000 subfields", "wide-list", head+"REFERENCE   1\n"+c07Repeat("  AUTHORS   a\n", 3000, "")+tail)
	str("scan", "DBLINK of 3000 pairs", "wide-list", head+"DBLINK      a: b\n"+c07Repeat("            c: d\n", 3000, "")+tail)
	str("scan", "4000 ORIGIN blocks", "wide-list", head+c07Repeat("ORIGIN      \n        1 acgt\n", 2300, "")+"//\n")
	str("scan", "2000 records", "wide-list", c07Repeat("LOCUS       X 0 bp DNA linear UNA 01-JAN-2020\n//\n", 1200, ""))
	str("scan", "CONTIG without colon before 60 KiB", "wide-list", head+"CONTIG      join("+strings.Repeat("x", 60000)+"\n"+tail)
	str("scan", "record of 60000 residues declared 60000", "wide-list", func() string {
		p := c07MiniResidues(50000)
		return string(c07MiniRecord(50000, p, false))
	}())
	str("scan", "record of 50000 residues declared 49999 CRLF", "wide-list", func() string {
		p := c07MiniResidues(45000)
		return string(c07MiniRecord(44999, p, true))
	}())
}

func (s *c07State) seeded() {
	c := s.c
	r := c.Rng
	replaySkip := func() bool { return c.Replaying() && c.Seq() != c.ReplaySeq }

	// --- streams: mutants of corpus / generated / FASTA / multi-record texts.
	nStream := c.Pick(1300, 60000)
	for it := 0; it < nStream; it++ {
		c.NextOwn()
		seed := r.Int63()
		if replaySkip() {
			continue
		}
		q := rand.New(rand.NewSource(seed))
		text, source, name := s.streamBase(q)
		if q.Intn(4) == 0 {
			text = gen.C07ToCRLF(text)
			name += " as CRLF"
		}
		nops := 1 + q.Intn(3)
		out, recipe, used := s.mutate(q, text, nops, gen.C07TextOps, c)
		s.run(c07Case{entry: "scan", source: source, recipe: name + " " + recipe, ops: used, input: out, reader: s.readerFor(q, len(out))})
	}

	// --- raw random bytes into the scanner.
	nRaw := c.Pick(250, 15000)
	for it := 0; it < nRaw; it++ {
		c.NextOwn()
		seed := r.Int63()
		if replaySkip() {
			continue
		}
		q := rand.New(rand.NewSource(seed))
		var in []byte
		switch q.Intn(4) {
		case 0:
			in = append([]byte("LOCUS       "), c07RawBytes(q, 400)...)
		case 1:
			in = append([]byte(">"), c07RawBytes(q, 400)...)
		default:
			in = c07RawBytes(q, 2000)
		}
		s.run(c07Case{entry: "scan", source: "random", recipe: "raw bytes", input: in, reader: s.readerFor(q, len(in))})
	}

	// --- strings into the other entry points.
	nStr := c.Pick(240, 16000)
	tableOps := []string{"truncate", "delete-line", "dup-line", "swap-lines", "flip-byte", "indent-shrink", "indent-grow", "collapse-spaces", "drop-value", "rewrite-numbers", "crlf-all", "crlf-line"}
	for it := 0; it < nStr; it++ {
		for _, entry := range c07Entries[1:] {
			c.NextOwn()
			seed := r.Int63()
			if replaySkip() {
				continue
			}
			q := rand.New(rand.NewSource(seed))
			var seedStr, alpha string
			switch entry {
			case "location":
				seedStr, alpha = c07RandLocString(q), c07LocAlpha
			case "locator":
				seedStr, alpha = c07RandLocatorString(q), c07LctrAlpha
			case "modifier":
				seedStr, alpha = c07RandMod(q), c07ModAlpha
			case "selector":
				seedStr, alpha = c07SelSeeds[q.Intn(len(c07SelSeeds))], c07SelAlpha
			case "date":
				seedStr, alpha = c07DateSeeds[q.Intn(len(c07DateSeeds))], c07DateAlpha
			case "molecule":
				seedStr, alpha = c07MolSeeds[q.Intn(len(c07MolSeeds))], c07WordAlpha
			case "topology":
				seedStr, alpha = c07TopSeeds[q.Intn(len(c07TopSeeds))], c07WordAlpha
			case "table":
				alpha = c07TableAlpha
			}
			k := c07Case{entry: entry}
			mode := q.Intn(10)
			if entry == "table" {
				var base []byte
				src := "generated"
				if q.Intn(3) == 0 && len(s.tables) > 0 {
					base = s.tables[q.Intn(len(s.tables))]
					src = "corpus"
				} else {
					base = c07RandTable(q)
				}
				switch {
				case mode == 0:
					k.source, k.recipe, k.input = src, "printed table", base
				case mode == 1:
					k.source, k.recipe, k.input = "random", "raw bytes", c07RawBytes(q, 300)
				case mode < 6:
					out, recipe, used := s.mutate(q, base, 1+q.Intn(3), tableOps, c)
					k.source, k.recipe, k.ops, k.input = src, "table "+recipe, used, out
				default:
					// character-level operators on a short table
					if len(base) > 600 {
						base = base[:600]
					}
					out, used := c07MutateString(q, string(base), alpha)
					k.source, k.recipe, k.input = src, "table chars "+strings.Join(used, ","), []byte(out)
					for _, u := range used {
						c.Bucket("strop|" + u)
					}
				}
				s.run(k)
				continue
			}
			switch {
			case mode == 0:
				k.source, k.recipe, k.input = "generated", "seed string", []byte(seedStr)
			case mode == 1:
				k.source, k.recipe = "random", "raw bytes"
				k.input = c07RawBytes(q, 40)
			case mode == 2:
				k.source, k.recipe = "random", "random over the alphabet"
				b := make([]byte, 1+q.Intn(24))
				for i := range b {
					b[i] = alpha[q.Intn(len(alpha))]
				}
				k.input = b
			default:
				out, used := c07MutateString(q, seedStr, alpha)
				k.source, k.recipe, k.input = "generated", fmt.Sprintf("%q %s", seedStr, strings.Join(used, ",")), []byte(out)
				for _, u := range used {
					c.Bucket("strop|" + u)
				}
			}
			s.run(k)
		}
	}
}

// c07FieldNames are the header fields and subfields of a GenBank record that
// the reader knows by name.
var c07FieldNames = map[string]bool{"DEFINITION": true, "ACCESSION": true, "VERSION": true, "DBLINK": true, "KEYWORDS": true, "SOURCE": true,
	"ORGANISM": true, "REFERENCE": true, "AUTHORS": true, "CONSRTM": true, "TITLE": true, "JOURNAL": true, "PUBMED": true, "REMARK": true, "COMMENT": true}

// indents: "fields shorter than their indent are reported as errors". Every
// header line of the corpus records and of generated records that starts a
// field or subfield the reader knows by name is rewritten with one blank less
// after the name, and (subfields) with one blank less in front of it; the
// record stands alone, first and second in a stream, with LF and CRLF line
// ends. Reading such a stream must end in an error: an accepted record has
// lost that field, and what follows it, without a word.
func (s *c07State) indents() {
	c := s.c
	var texts []string
	var names []string
	for n := range s.corpus {
		names = append(names, n)
	}
	sort.Strings(names)
	for _, n := range names {
		if t := string(s.corpus[n]); strings.HasPrefix(t, "LOCUS") {
			texts = append(texts, strings.ReplaceAll(t, "\r\n", "\n"))
		}
	}
	r := c.SubRng("c07-indents")
	for i := 0; i < 6; i++ {
		texts = append(texts, gen.RandGenBank(r, gen.GBOpt{MaxLen: 90, MaxFeatures: 3}, "f").String())
	}
	good := "LOCUS       OK 4 bp DNA linear SYN 01-JAN-2020\nDEFINITION  intact.\nORIGIN      \n        1 acgt\n//\n"
	for ti, text := range texts {
		lines := strings.Split(text, "\n")
		for i, l := range lines {
			if strings.HasPrefix(l, "FEATURES") || strings.HasPrefix(l, "ORIGIN") {
				break
			}
			if i == 0 {
				continue
			}
			body := strings.TrimLeft(l, " ")
			lead := len(l) - len(body)
			j := strings.IndexByte(body, ' ')
			if lead >= 12 || j <= 0 || !c07FieldNames[body[:j]] {
				continue
			}
			var variants []string
			if j+1 < len(body) && body[j+1] == ' ' {
				variants = append(variants, l[:lead]+body[:j]+body[j+1:])
			}
			if lead > 0 {
				variants = append(variants, l[1:])
			}
			for vi, v := range variants {
				bad := strings.Join(append(append(append([]string{}, lines[:i]...), v), lines[i+1:]...), "\n")
				for pi, stream := range []string{bad, bad + good, good + bad} {
					for _, eol := range []string{"\n", "\r\n"} {
						if !c.NextShared() {
							continue
						}
						in := strings.ReplaceAll(stream, "\n", eol)
						enc := fmt.Sprintf("short indent: record %d line %d %q rewritten as %q, stream shape %d, eol %q", ti, i+1, l, v, pi, eol)
						c.Begin(enc)
						c.Count(fmt.Sprintf("%s|%d|%d|%d|%q", text, i, vi, pi, eol), true)
						c.Bucket("short-indent|" + body[:j])
						p, val, site, n, _, err := c07ScanOnce(in)
						if p {
							c.ViolateX("short-indent:"+panicClass(site, val), enc, "an error", fmt.Sprint(val), "", nil)
							continue
						}
						if err == nil {
							c.Violate("short-indent-accepted:"+body[:j], enc, "an error (the field is shorter than its indent)", fmt.Sprintf("%d records read, no error", n))
						}
					}
				}
			}
		}
	}
}

// tails: a stream that ends inside a record. One or two intact records are
// followed by a strict prefix of another one (cut at every line start and in
// the middle of every line of the header, and at sampled offsets of the rest).
// The prefix holds bytes other than white space, so it is a truncated record:
// the scan must end in an error, or - when the cut leaves a whole record, e.g.
// only the final line end is missing - yield it. Reading the intact records
// and then stopping without a word drops the truncated one silently.
func (s *c07State) tails() {
	c := s.c
	s.boundaryTails()
	s.blankLines()
	var names []string
	for n := range s.corpus {
		names = append(names, n)
	}
	sort.Strings(names)
	var gbs []string
	for _, n := range names {
		if t := string(s.corpus[n]); strings.HasPrefix(t, "LOCUS") && len(t) < 9000 {
			gbs = append(gbs, strings.ReplaceAll(t, "\r\n", "\n"))
		}
	}
	r := c.SubRng("c07-tails")
	for i := 0; i < 3; i++ {
		gbs = append(gbs, gen.RandGenBank(r, gen.GBOpt{MaxLen: 90, MaxFeatures: 3}, "f").String())
	}
	fasta := ">one\nacgtacgt\n"
	for ti, rec := range gbs {
		var cuts []int
		pos := 0
		for _, l := range strings.SplitAfter(rec, "\n") {
			if pos > 0 {
				cuts = append(cuts, pos)
			}
			if len(l) > 3 {
				cuts = append(cuts, pos+1, pos+len(l)/2, pos+len(l)-1)
			}
			pos += len(l)
		}
		for _, k := range cuts {
			if k <= 0 || k >= len(rec) {
				continue
			}
			tail := rec[:k]
			if strings.TrimSpace(tail) == "" {
				continue
			}
			if strings.HasSuffix(tail, "\n") && strings.HasPrefix(tail, "LOCUS") {
				// the cut record first, a record of the other format behind it:
				// the cut one is not passed over in silence.
				for _, eol := range []string{"\n", "\r\n"} {
					if !c.NextShared() {
						continue
					}
					in := strings.ReplaceAll(tail+">fasta follows\nacgtacgtacgtacgtacgtacgtacgtacgtacgtacgtacgtacgtacgt\n", "\n", eol)
					enc := fmt.Sprintf("truncated first record: the first %d bytes of record %d, then an intact FASTA record, eol %q; the cut part ends in %q", k, ti, eol, clipS(tail[max(0, len(tail)-40):], 60))
					c.Begin(enc)
					c.Count(fmt.Sprintf("tail-then-fasta|%d|%d|%q", ti, k, eol), true)
					c.Bucket("truncated-record-then-other-format")
					p, val, site, n, _, err := c07ScanOnce(in)
					if p {
						c.ViolateX("truncated-record-then-other-format:"+panicClass(site, val), enc, "an error", fmt.Sprint(val), "", nil)
						continue
					}
					if err == nil {
						c.Violate("truncated-record-dropped-before-a-record-of-the-other-format", enc, "an error", fmt.Sprintf("%d records read, no error", n))
					}
				}
			}
			for hi, headText := range []string{rec, rec + rec, fasta} {
				if hi == 2 && k%5 != 0 {
					continue
				}
				for _, eol := range []string{"\n", "\r\n"} {
					if !c.NextShared() {
						continue
					}
					whole := 1
					if hi == 1 {
						whole = 2
					}
					in := strings.ReplaceAll(headText+tail, "\n", eol)
					enc := fmt.Sprintf("truncated last record: %d intact record(s) (kind %d) then the first %d bytes of record %d, eol %q; the tail ends in %q", whole, hi, k, ti, eol, clipS(tail[max(0, len(tail)-40):], 60))
					c.Begin(enc)
					c.Count(fmt.Sprintf("tail|%d|%d|%d|%q", ti, k, hi, eol), true)
					c.Bucket("truncated-last-record")
					p, val, site, n, _, err := c07ScanOnce(in)
					if p {
						c.ViolateX("truncated-last-record:"+panicClass(site, val), enc, "an error", fmt.Sprint(val), "", nil)
						continue
					}
					if hi == 2 {
						// after FASTA records everything up to the next '>' is
						// residue text: nothing to demand.
						continue
					}
					if err == nil && n <= whole {
						c.Violate("truncated-last-record-dropped", enc, "an error (or the record, if the cut left it whole)", fmt.Sprintf("%d records read, no error", n))
					}
				}
			}
		}
	}
}

// boundaryTails: the reader takes its input in blocks of 4096 bytes. Intact
// records, white space up to (just short of, just beyond) a block boundary,
// then a fragment of the next record: a truncated stream whatever the
// alignment.
func (s *c07State) boundaryTails() {
	c := s.c
	mk := func(pad int) string {
		return "LOCUS       BND                       12 bp    DNA     linear   SYN 01-JAN-2020\nDEFINITION  block boundary.\nCOMMENT     " + strings.Repeat("x", pad) + "\nORIGIN      \n        1 acgtacgtac gt\n//\n"
	}
	base := len(mk(0))
	for _, nrec := range []int{1, 2} {
		for _, block := range []int{4096, 8192} {
			for end := block - 8; end <= block+4; end++ {
				for _, tail := range []string{"L", "LOC", "\nLO", "\nLOC", "\r\nLO", " \nL", "\n\n\nL", "\n>", "\nLOCUS       X"} {
					if !c.NextShared() {
						continue
					}
					pad := end - base*nrec
					if pad < 0 {
						continue
					}
					in := mk(pad) + strings.Repeat(mk(0), nrec-1) + tail
					enc := fmt.Sprintf("truncated last record at a block boundary: %d intact record(s) ending at offset %d, then %q", nrec, end, tail)
					c.Begin(enc)
					c.Count(enc, true)
					c.Bucket("truncated-last-record|block-boundary")
					p, val, site, n, _, err := c07ScanOnce(in)
					if p {
						c.ViolateX("truncated-last-record:"+panicClass(site, val), enc, "an error", fmt.Sprint(val), "", nil)
						continue
					}
					if err == nil && n <= nrec {
						c.Violate("truncated-last-record-dropped", enc, "an error", fmt.Sprintf("%d records read, no error", n))
					}
				}
			}
		}
	}
}

// blankLines: a line of nothing but white space (blanks, tabs, form feeds,
// vertical tabs, stray carriage returns) in front of every line of a record
// is never a reason to panic.
func (s *c07State) blankLines() {
	c := s.c
	var names []string
	for n := range s.corpus {
		names = append(names, n)
	}
	sort.Strings(names)
	var rec string
	for _, n := range names {
		if t := string(s.corpus[n]); strings.HasPrefix(t, "LOCUS") && len(t) < 9000 {
			rec = strings.ReplaceAll(t, "\r\n", "\n")
			break
		}
	}
	if rec == "" {
		return
	}
	lines := strings.SplitAfter(rec, "\n")
	for _, ws := range []string{" ", "   ", "\t", " \t", "  \f", " \v", "  \r\r", "\t \t", "            ", "                     ", " \t\f\v ", "\f", "\r", "  \r"} {
		for _, eol := range []string{"\n", "\r\n"} {
			for i := range lines {
				if !c.NextShared() {
					continue
				}
				in := strings.Join(lines[:i], "") + ws + "\n" + strings.Join(lines[i:], "")
				in = strings.ReplaceAll(in, "\n", eol)
				enc := fmt.Sprintf("white-space-only line %q in front of line %d, eol %q", ws, i+1, eol)
				c.Begin(enc)
				c.Count(enc, true)
				c.Bucket("white-space-only-line")
				if p, val, site, _, _, _ := c07ScanOnce(in + in); p {
					c.ViolateX("white-space-line:"+panicClass(site, val), enc, "values or an error", fmt.Sprint(val), "", nil)
				}
			}
		}
	}
}
