package mon

import (
	"fmt"
	"math/bits"
	"math/rand"
	"reflect"
	"regexp"
	"strings"

	"github.com/go-gts/gts"

	"verifharness/fw"
	"verifharness/gen"
	"verifharness/model"
)

// C19 — feature selection (Selector, Qualifier, Key, And/Or/Not, Within,
// Overlap, strand filters, FeatureSlice.Filter) and sorted insertion
// (FeatureSlice.Insert, LocationLess).
type c19 struct{ base }

func init() { register(c19{}) }

func (c19) ID() string { return "C19" }
func (c19) Rule() string {
	return "systematic: (1) And/Or truth tables for every arity 0..3 x every assignment of constant leaf filters, Not x {T,F}; (2) every location of gen.Universe(L=5|6, arity<=3) as the single feature x every bound pair (l,u) in [-1,L+1]^2 incl. zero-length and reversed bounds x {Within,Overlap}, and x {ForwardStrand,ReverseStrand}; (3) the order axioms of LocationLess on a location universe (quick: Universe(4,3)+80 random = ~320, thorough: Universe(5,3)+60 random = ~620): one case per ordered pair (a,b) checking irreflexivity (a==b), asymmetry, and transitivity through every c of the universe, plus that a forward contiguous residue part that starts and ends before another is less. seeded: (4) tables of 0..8 features (keys {a,b,gene,source}, qualifier names {a,b,n,ab} incl. repeated names merged into multi-valued qualifiers, values {'',a,b,ab,ba,aab,c,n,a=b,=,b=a=n}, locations gen.RandLoc over 12 residues, both strands, joins/orders, nesting<=3, sites, ambiguous spans) x a filter expression: either a selector assembled from (key, 0..3 clauses (name, regexp)) with regexps {'',a,^a$,a|b,[ab]+,.,^$,b$,^ab,n,c,\\w,a\\.?b,\\bb,[ab]\\w*,a=b,=,b=,=a=|c} (backslash escapes that do not precede a '/'; regexps that hold '=' themselves) or a random And/Or/Not tree (depth<=3, arity 0..3) over Key, Qualifier, Selector, Within, Overlap, ForwardStrand, ReverseStrand and constant leaves; the filter is applied to every feature and through FeatureSlice.Filter; (5) insertion sequences of 0..9 features into an empty table through FeatureSlice.Insert only (20% source keys, locations from the universe and gen.RandLoc, many ties). Oracle: selector structure is known from assembly; accept iff key empty or equal and every clause holds (named+regexp: some value of that qualifier matches (regexp.MatchString); named only: the qualifier is present; unnamed: some value of any qualifier matches); And=all (true for none), Or=some (false for none), Not; Within = every part l<=Lo&&Hi<=u, Overlap = some part Lo<u&&l<Hi on the model's part spans, forward/reverse = every part on that strand; don't-cares evaluated under both readings and either accepted: zero-length sites (as zero-length spans / ignored), bounds with u<=l (swapped / denoting nothing). Filter == accepted features in table order, deep-equal, table unaltered. Insert: result multiset == old + new (deep-equal), no source after a non-source, no later non-source location LocationLess than an earlier one. The empty clause also stands last, closed by a slash ('key//'). Not generated (statement silent): an escaped slash '\\/', a bare trailing slash 'key/', qualifier entries without any value, tables holding two Props entries of the same name, invalid regexps. non-trivial: table non-empty and the filter is not a constant / pair of different locations / sequence of >=2 insertions; distinct: canonical case text. Keys that differ in case only (a/A, gene/Gene); gts select with a second selector whose text extends the first one's. A fifth of the inserted features repeat an earlier one word for word; gts select with a selector that accepts the source feature, also under -v. gts select with the empty selector. The axiom universe holds orders and joins whose members are complemented one by one; a location whose residues all lie in front of another's is less, never the other way round."
}

func (c19) RequiredBuckets(tier string) []string {
	out := []string{
		"clause:named+re|true", "clause:named+re|false",
		"clause:named-only|true", "clause:named-only|false",
		"clause:unnamed|true", "clause:unnamed|false",
		"clause:unnamed-empty-regexp", "clause:multi-valued-qualifier",
		"key:empty", "key:given|match", "key:given|mismatch",
		"sel:accept", "sel:reject", "sel:clauses=0", "sel:clauses=1", "sel:clauses=2", "sel:clauses=3",
		"Not", "Not|true", "Not|false",
		"Within|true", "Within|false", "Overlap|true", "Overlap|false",
		"bounds:reversed", "bounds:zero-length",
		"strand:fwd", "strand:rev", "strand:both",
		"Filter:all", "Filter:none", "Filter:some", "Filter:empty-table",
		"Insert:source", "Insert:non-source", "Insert:tie", "Insert:into-empty", "Insert:non-source-after-sources",
		"axiom:irreflexive", "axiom:asymmetric", "axiom:transitive", "axiom:starts-and-ends-before",
	}
	for _, op := range []string{"And", "Or"} {
		for a := 0; a <= 3; a++ {
			out = append(out, fmt.Sprintf("%s:arity%d", op, a))
		}
		out = append(out, op+"|true", op+"|false")
	}
	return append(out, "cli:select", "cli:select -v", "cli:select -s", "cli:select cache-on", "cli:select selector with outer blank", "cli:select selector that extends another one's text", "cli:select selector that accepts the source feature", "cli:select empty selector", "insert:identical-feature-entered-again")
}

func (c19) Findings() []fw.Finding {
	return []fw.Finding{
		{ID: "or-of-nothing-is-true", What: "Or() of zero filters accepts every feature (the empty disjunction is false)", Witness: func() (bool, string) {
			got := gts.Or()(gts.Feature{Key: "gene", Loc: gts.Range(0, 3)})
			return got, fmt.Sprintf("Or()(gene 1..3) = %v, want false", got)
		}},
		{ID: "unnamed-clause-matches-qualifier-names", What: "an unnamed selector clause also matches the qualifier names, not only the values", Witness: func() (bool, string) {
			f, err := gts.Selector("/=a")
			if err != nil {
				return false, "Selector(\"/=a\") error: " + err.Error()
			}
			got := f(gts.Feature{Key: "gene", Loc: gts.Range(0, 3), Props: gts.Props{{"a", "c"}}})
			return got, fmt.Sprintf("Selector(\"/=a\")(gene 1..3 /a=\"c\") = %v, want false", got)
		}},
		{ID: "strand-nested-complement-counted-reverse", What: "CheckStrand reports reverse for every complement(...) without looking inside", Witness: func() (bool, string) {
			loc := gts.Complemented{Location: gts.Joined{gts.Complemented{Location: gts.Range(1, 3)}, gts.Range(5, 9)}}
			got := gts.ReverseStrand(gts.Feature{Key: "gene", Loc: loc})
			return got, fmt.Sprintf("ReverseStrand(%s) = %v, want false (2..3 is read on the forward strand)", loc, got)
		}},
	}
}

// ---------------------------------------------------------------------------
// model of a feature

type c19Qual struct {
	name string
	vals []string
}

type c19Feat struct {
	key   string
	loc   gts.Location
	quals []c19Qual
}

// real builds a fresh gts.Feature (Props in the layout the library's own
// constructors produce: one entry per name, the name followed by its values).
func (f c19Feat) real() gts.Feature {
	var p gts.Props
	for _, q := range f.quals {
		p = append(p, append([]string{q.name}, q.vals...))
	}
	return gts.Feature{Key: f.key, Loc: gen.CloneLoc(f.loc), Props: p}
}

func (f c19Feat) String() string {
	var sb strings.Builder
	fmt.Fprintf(&sb, "%s %s {", f.key, model.SafeString(f.loc))
	for i, q := range f.quals {
		if i > 0 {
			sb.WriteString(" ")
		}
		fmt.Fprintf(&sb, "%s=%q", q.name, q.vals)
	}
	sb.WriteString("}")
	return sb.String()
}

// add merges a (name, values) pair the way Props.Add does.
func (f *c19Feat) add(name string, vals ...string) {
	for i := range f.quals {
		if f.quals[i].name == name {
			f.quals[i].vals = append(f.quals[i].vals, vals...)
			return
		}
	}
	f.quals = append(f.quals, c19Qual{name, append([]string(nil), vals...)})
}

func c19CloneFeature(f gts.Feature) gts.Feature {
	var p gts.Props
	if f.Props != nil {
		p = make(gts.Props, len(f.Props))
		for i, e := range f.Props {
			p[i] = append([]string(nil), e...)
		}
	}
	return gts.Feature{Key: f.Key, Loc: gen.CloneLoc(f.Loc), Props: p}
}

func c19CloneTable(ff []gts.Feature) []gts.Feature {
	out := make([]gts.Feature, len(ff))
	for i, f := range ff {
		out[i] = c19CloneFeature(f)
	}
	return out
}

func c19FeatureText(f gts.Feature) string {
	return fmt.Sprintf("%s %s %q", f.Key, model.SafeString(f.Loc), [][]string(f.Props))
}

func c19TableText(ff []gts.Feature) string {
	ss := make([]string, len(ff))
	for i, f := range ff {
		ss[i] = c19FeatureText(f)
	}
	return "[" + strings.Join(ss, "; ") + "]"
}

// ---------------------------------------------------------------------------
// selector clauses

const (
	ckNamedRe = iota
	ckNamedOnly
	ckUnnamed
)

var c19ClauseKind = []string{"named+re", "named-only", "unnamed"}

type c19Clause struct {
	kind  int
	name  string
	re    string
	spell int
}

func (cl c19Clause) text(last bool) string {
	switch cl.kind {
	case ckNamedRe:
		return "/" + cl.name + "=" + cl.re
	case ckNamedOnly:
		if cl.spell == 1 {
			return "/" + cl.name + "="
		}
		return "/" + cl.name
	default:
		if cl.re == "" && cl.spell == 1 && !last {
			return "/" // empty part: no name, no regexp (never generated in last position)
		}
		return "/=" + cl.re
	}
}

var c19reCache = map[string]*regexp.Regexp{}

func c19re(s string) *regexp.Regexp {
	if re, ok := c19reCache[s]; ok {
		return re
	}
	re := regexp.MustCompile(s)
	c19reCache[s] = re
	return re
}

// c19Rd selects one reading of the don't-cares (first two fields) and the
// deviation models of the known findings (dev*).
type c19Rd struct {
	sitesIgnored bool // zero-length sites denote no residue: they do not count for Within/Overlap/strand
	emptyBounds  bool // bounds with u<=l denote no residue (instead of being swapped)
	devOr        bool // Or() == true
	devNames     bool // unnamed clauses also test the qualifier names
	devCompl     bool // any complement(...) is reverse, whatever it wraps
}

var c19Readings = []c19Rd{{}, {sitesIgnored: true}, {emptyBounds: true}, {sitesIgnored: true, emptyBounds: true}}

var c19DevIDs = []string{"or-of-nothing-is-true", "unnamed-clause-matches-qualifier-names", "strand-nested-complement-counted-reverse"}

func (cl c19Clause) holds(f c19Feat, rd c19Rd) bool {
	switch cl.kind {
	case ckNamedRe:
		re := c19re(cl.re)
		for _, q := range f.quals {
			if q.name != cl.name {
				continue
			}
			for _, v := range q.vals {
				if re.MatchString(v) {
					return true
				}
			}
		}
		return false
	case ckNamedOnly:
		for _, q := range f.quals {
			if q.name == cl.name {
				return true
			}
		}
		return false
	default:
		re := c19re(cl.re)
		for _, q := range f.quals {
			if rd.devNames && re.MatchString(q.name) {
				return true
			}
			for _, v := range q.vals {
				if re.MatchString(v) {
					return true
				}
			}
		}
		return false
	}
}

// ---------------------------------------------------------------------------
// location predicates on the model's part spans

func c19Within(loc gts.Location, l, u int, rd c19Rd) bool {
	pp := model.Parts(loc)
	if u < l {
		if rd.emptyBounds {
			for _, p := range pp {
				if p.Kind == model.KSite && rd.sitesIgnored {
					continue
				}
				return false
			}
			return true
		}
		l, u = u, l
	}
	for _, p := range pp {
		if p.Kind == model.KSite && rd.sitesIgnored {
			continue
		}
		if !(l <= p.Lo && p.Hi <= u) {
			return false
		}
	}
	return true
}

func c19Overlap(loc gts.Location, l, u int, rd c19Rd) bool {
	if u <= l && rd.emptyBounds {
		return false
	}
	if u < l {
		l, u = u, l
	}
	for _, p := range model.Parts(loc) {
		if p.Kind == model.KSite && rd.sitesIgnored {
			continue
		}
		if p.Lo < u && l < p.Hi {
			return true
		}
	}
	return false
}

// c19DevStrand is the deviation model of the listed strand finding:
// 0 both, 1 forward, 2 reverse; a complement is reverse whatever it wraps.
func c19DevStrand(loc gts.Location) int {
	agg := func(ll []gts.Location) int {
		f, r := 0, 0
		for _, l := range ll {
			switch c19DevStrand(l) {
			case 1:
				f++
			case 2:
				r++
			default:
				f++
				r++
			}
		}
		switch {
		case r == 0:
			return 1
		case f == 0:
			return 2
		}
		return 0
	}
	switch v := loc.(type) {
	case gts.Joined:
		return agg(v)
	case gts.Ordered:
		return agg(v)
	case gts.Complemented:
		return 2
	}
	return 1
}

func c19Strand(loc gts.Location, rd c19Rd) (fwd, rev bool) {
	if rd.devCompl {
		s := c19DevStrand(loc)
		return s == 1, s == 2
	}
	fwd, rev = true, true
	for _, p := range model.Parts(loc) {
		if p.Kind == model.KSite && rd.sitesIgnored {
			continue
		}
		if p.Rev {
			fwd = false
		} else {
			rev = false
		}
	}
	return
}

// ---------------------------------------------------------------------------
// filter expressions

type c19Expr struct {
	op      string // and or not const key qual sel within overlap fwd rev
	kids    []*c19Expr
	b       bool
	key     string
	cl      c19Clause
	clauses []c19Clause
	l, u    int
}

func (e *c19Expr) selText() string {
	s := e.key
	for i, cl := range e.clauses {
		last := i == len(e.clauses)-1
		if last && cl.kind == ckUnnamed && cl.re == "" && cl.spell == 1 && len(e.clauses)%2 == 1 {
			// the empty clause in last place, closed by a slash ("key//"): the
			// selector ends after it (a trailing slash opens no further clause).
			s += "//"
			continue
		}
		s += cl.text(last)
	}
	return s
}

func (e *c19Expr) qualArgs() (string, string) {
	switch e.cl.kind {
	case ckNamedRe:
		return e.cl.name, e.cl.re
	case ckNamedOnly:
		return e.cl.name, ""
	}
	return "", e.cl.re
}

func (e *c19Expr) String() string {
	switch e.op {
	case "and", "or", "not":
		ss := make([]string, len(e.kids))
		for i, k := range e.kids {
			ss[i] = k.String()
		}
		return map[string]string{"and": "And", "or": "Or", "not": "Not"}[e.op] + "(" + strings.Join(ss, ",") + ")"
	case "const":
		if e.b {
			return "T"
		}
		return "F"
	case "key":
		return fmt.Sprintf("Key(%q)", e.key)
	case "qual":
		n, r := e.qualArgs()
		return fmt.Sprintf("Qualifier(%q,%q)", n, r)
	case "sel":
		return fmt.Sprintf("Selector(%q)", e.selText())
	case "within":
		return fmt.Sprintf("Within(%d,%d)", e.l, e.u)
	case "overlap":
		return fmt.Sprintf("Overlap(%d,%d)", e.l, e.u)
	case "fwd":
		return "ForwardStrand"
	case "rev":
		return "ReverseStrand"
	}
	return "?"
}

func (e *c19Expr) isConst() bool {
	switch e.op {
	case "const":
		return true
	case "and", "or", "not":
		for _, k := range e.kids {
			if !k.isConst() {
				return false
			}
		}
		return len(e.kids) == 0
	}
	return false
}

// build constructs the real filter through the library's constructors.
func (e *c19Expr) build() (gts.Filter, error) {
	switch e.op {
	case "and", "or", "not":
		fs := make([]gts.Filter, len(e.kids))
		for i, k := range e.kids {
			f, err := k.build()
			if err != nil {
				return nil, err
			}
			fs[i] = f
		}
		switch e.op {
		case "and":
			return gts.And(fs...), nil
		case "or":
			return gts.Or(fs...), nil
		}
		return gts.Not(fs[0]), nil
	case "const":
		b := e.b
		return func(gts.Feature) bool { return b }, nil
	case "key":
		return gts.Key(e.key), nil
	case "qual":
		n, r := e.qualArgs()
		return gts.Qualifier(n, r)
	case "sel":
		return gts.Selector(e.selText())
	case "within":
		return gts.Within(e.l, e.u), nil
	case "overlap":
		return gts.Overlap(e.l, e.u), nil
	case "fwd":
		return gts.ForwardStrand, nil
	case "rev":
		return gts.ReverseStrand, nil
	}
	return nil, fmt.Errorf("harness: unknown op %q", e.op)
}

func c19tf(b bool) string {
	if b {
		return "|true"
	}
	return "|false"
}

// eval is the reference evaluation under one reading. With c != nil the
// coverage buckets are counted (no short-circuit so every leaf is counted).
func (e *c19Expr) eval(f c19Feat, rd c19Rd, c *fw.Ctx) bool {
	switch e.op {
	case "and":
		res := true
		for _, k := range e.kids {
			if !k.eval(f, rd, c) {
				res = false
			}
		}
		if c != nil {
			c.Bucket(fmt.Sprintf("And:arity%d", len(e.kids)))
			c.Bucket("And" + c19tf(res))
		}
		return res
	case "or":
		res := false
		for _, k := range e.kids {
			if k.eval(f, rd, c) {
				res = true
			}
		}
		if len(e.kids) == 0 && rd.devOr {
			res = true
		}
		if c != nil {
			c.Bucket(fmt.Sprintf("Or:arity%d", len(e.kids)))
			c.Bucket("Or" + c19tf(res))
		}
		return res
	case "not":
		res := !e.kids[0].eval(f, rd, c)
		if c != nil {
			c.Bucket("Not")
			c.Bucket("Not" + c19tf(res))
		}
		return res
	case "const":
		return e.b
	case "key":
		res := e.key == "" || e.key == f.key
		if c != nil {
			c.Bucket("Key" + c19tf(res))
		}
		return res
	case "qual":
		res := e.cl.holds(f, rd)
		if c != nil {
			c.Bucket("Qualifier:" + c19ClauseKind[e.cl.kind] + c19tf(res))
		}
		return res
	case "sel":
		res := true
		if e.key != "" && e.key != f.key {
			res = false
		}
		if c != nil {
			switch {
			case e.key == "":
				c.Bucket("key:empty")
			case res:
				c.Bucket("key:given|match")
			default:
				c.Bucket("key:given|mismatch")
			}
			c.Bucket(fmt.Sprintf("sel:clauses=%d", len(e.clauses)))
		}
		for _, cl := range e.clauses {
			h := cl.holds(f, rd)
			if !h {
				res = false
			}
			if c != nil {
				c.Bucket("clause:" + c19ClauseKind[cl.kind] + c19tf(h))
				if cl.kind == ckUnnamed && cl.re == "" {
					c.Bucket("clause:unnamed-empty-regexp")
				}
				if cl.kind == ckNamedRe {
					for _, q := range f.quals {
						if q.name == cl.name && len(q.vals) > 1 {
							c.Bucket("clause:multi-valued-qualifier")
						}
					}
				}
			}
		}
		if c != nil {
			if res {
				c.Bucket("sel:accept")
			} else {
				c.Bucket("sel:reject")
			}
		}
		return res
	case "within", "overlap":
		var res bool
		name := "Within"
		if e.op == "within" {
			res = c19Within(f.loc, e.l, e.u, rd)
		} else {
			name = "Overlap"
			res = c19Overlap(f.loc, e.l, e.u, rd)
		}
		if c != nil {
			c.Bucket(name + c19tf(res))
			switch {
			case e.u < e.l:
				c.Bucket("bounds:reversed")
			case e.u == e.l:
				c.Bucket("bounds:zero-length")
			}
		}
		return res
	case "fwd", "rev":
		fw_, rv := c19Strand(f.loc, rd)
		if c != nil {
			switch {
			case fw_ && !rv:
				c.Bucket("strand:fwd")
			case rv && !fw_:
				c.Bucket("strand:rev")
			default:
				c.Bucket("strand:both")
			}
		}
		if e.op == "fwd" {
			return fw_
		}
		return rv
	}
	return false
}

// judge compares one observation with the model: held under some reading of
// the don't-cares, explained by the deviation model of enabled known
// findings (fewest first), or a violation.
func (c19) judge(c *fw.Ctx, e *c19Expr, f c19Feat, obs bool) (ok bool, known []string) {
	for _, rd := range c19Readings {
		if e.eval(f, rd, nil) == obs {
			return true, nil
		}
	}
	var devs []int
	for i, id := range c19DevIDs {
		if c.KFEnabled(id) {
			devs = append(devs, i)
		}
	}
	for pc := 1; pc <= len(devs); pc++ {
		for mask := 1; mask < 1<<uint(len(devs)); mask++ {
			if bits.OnesCount(uint(mask)) != pc {
				continue
			}
			var ids []string
			var d c19Rd
			for j, di := range devs {
				if mask&(1<<uint(j)) == 0 {
					continue
				}
				ids = append(ids, c19DevIDs[di])
				switch di {
				case 0:
					d.devOr = true
				case 1:
					d.devNames = true
				case 2:
					d.devCompl = true
				}
			}
			for _, rd := range c19Readings {
				rd.devOr, rd.devNames, rd.devCompl = d.devOr, d.devNames, d.devCompl
				if e.eval(f, rd, nil) == obs {
					return true, ids
				}
			}
		}
	}
	return false, nil
}

var c19OpName = map[string]string{"and": "And", "or": "Or", "not": "Not", "const": "const", "key": "Key", "qual": "Qualifier", "sel": "Selector",
	"within": "Within", "overlap": "Overlap", "fwd": "ForwardStrand", "rev": "ReverseStrand"}

// checkTable applies the filter expression to every feature of the table and
// through FeatureSlice.Filter.
func (m c19) checkTable(c *fw.Ctx, tab []c19Feat, e *c19Expr) {
	ss := make([]string, len(tab))
	for i, f := range tab {
		ss[i] = f.String()
	}
	enc := "Filter F=[" + strings.Join(ss, "; ") + "] filter=" + e.String()
	c.Begin(enc)
	c.Count(enc, len(tab) > 0 && !e.isConst())
	root := c19OpName[e.op]

	var flt gts.Filter
	var err error
	p, val, site, stack := fw.Guard(func() { flt, err = e.build() })
	if p {
		c.ViolateX(root+":build:"+panicClass(site, val), enc, "no panic", fmt.Sprint(val), stack, nil)
		return
	}
	if err != nil {
		c.Violate(root+":build-error", enc, "a filter (all regexps are valid)", err.Error())
		return
	}
	real := make(gts.FeatureSlice, len(tab))
	snap := make(gts.FeatureSlice, len(tab))
	for i, f := range tab {
		real[i] = f.real()
		snap[i] = f.real()
	}
	accept := make([]bool, len(tab))
	for i, f := range tab {
		want := e.eval(f, c19Rd{}, c)
		var obs bool
		p, val, site, stack := fw.Guard(func() { obs = flt(real[i]) })
		if p {
			c.ViolateX(root+":"+panicClass(site, val), enc, "no panic", fmt.Sprint(val), stack, nil)
			return
		}
		ok, known := m.judge(c, e, f, obs)
		if !ok {
			c.Violate(root+":accept-mismatch", enc, fmt.Sprintf("feature #%d (%s): %v", i, f.String(), want), fmt.Sprint(obs))
			return
		}
		for _, id := range known {
			c.Known(id, enc)
		}
		accept[i] = obs
	}
	var out gts.FeatureSlice
	p, val, site, stack = fw.Guard(func() { out = real.Filter(flt) })
	if p {
		c.ViolateX("Filter:"+panicClass(site, val), enc, "no panic", fmt.Sprint(val), stack, nil)
		return
	}
	c.Hold(enc, func() string { return heldSeq(gts.New(nil, out, nil)) })
	var want []gts.Feature
	for i := range snap {
		if accept[i] {
			want = append(want, snap[i])
		}
	}
	switch {
	case len(tab) == 0:
		c.Bucket("Filter:empty-table")
	case len(want) == len(tab):
		c.Bucket("Filter:all")
	case len(want) == 0:
		c.Bucket("Filter:none")
	default:
		c.Bucket("Filter:some")
	}
	same := len(out) == len(want)
	for i := 0; same && i < len(want); i++ {
		if !reflect.DeepEqual(out[i], want[i]) {
			same = false
		}
	}
	if !same {
		c.Violate("Filter:result", enc, c19TableText(want), c19TableText(out))
		return
	}
	if !reflect.DeepEqual([]gts.Feature(real), []gts.Feature(snap)) {
		c.Violate("Filter:table-altered", enc, c19TableText(snap), c19TableText(real))
	}
}

// ---------------------------------------------------------------------------
// generators

var (
	c19Keys  = []string{"a", "b", "gene", "source", "A", "Gene"}
	c19Names = []string{"a", "b", "n", "ab"}
	c19Vals  = []string{"", "a", "b", "ab", "ba", "aab", "c", "n", "a=b", "=", "b=a=n"}
	c19Res   = []string{"", "a", "^a$", "a|b", "[ab]+", ".", "^$", "b$", "^ab", "n", "c", `\w`, `a\.?b`, `\bb`, `[ab]\w*`, "a=b", "=", "b=", "=a=|c"}
)

func c19GenFeat(r *rand.Rand, o gen.LocOpt) c19Feat {
	f := c19Feat{key: c19Keys[r.Intn(len(c19Keys))], loc: gen.RandLoc(r, o)}
	for k := r.Intn(4); k > 0; k-- {
		name := c19Names[r.Intn(len(c19Names))]
		nv := 1
		if r.Intn(3) == 0 {
			nv = 2 + r.Intn(2)
		}
		vals := make([]string, nv)
		for i := range vals {
			vals[i] = c19Vals[r.Intn(len(c19Vals))]
		}
		f.add(name, vals...)
	}
	return f
}

func c19GenClause(r *rand.Rand) c19Clause {
	if r.Intn(9) == 0 {
		// the empty clause ("key//..."): no name, no regexp - some qualifier
		// value must exist.
		return c19Clause{kind: ckUnnamed, spell: 1}
	}
	cl := c19Clause{kind: r.Intn(3), spell: r.Intn(2)}
	cl.name = c19Names[r.Intn(len(c19Names))]
	if r.Intn(8) == 0 {
		cl.name = "zz"
	}
	cl.re = c19Res[r.Intn(len(c19Res))]
	switch cl.kind {
	case ckNamedRe:
		if cl.re == "" {
			cl.kind = ckNamedOnly
			cl.spell = 1
		}
	case ckNamedOnly:
		cl.re = ""
	case ckUnnamed:
		cl.name = ""
	}
	return cl
}

func c19GenSel(r *rand.Rand) *c19Expr {
	e := &c19Expr{op: "sel"}
	if r.Intn(5) >= 2 {
		e.key = append(c19Keys, "c")[r.Intn(len(c19Keys)+1)]
	}
	for k := r.Intn(4); k > 0; k-- {
		e.clauses = append(e.clauses, c19GenClause(r))
	}
	return e
}

func c19GenBounds(r *rand.Rand, L int) (int, int) {
	l := r.Intn(L+3) - 1
	u := l + r.Intn(L+3-(l+1))
	if r.Intn(7) == 0 {
		l, u = u, l
	}
	return l, u
}

func c19GenLeaf(r *rand.Rand, L int) *c19Expr {
	switch r.Intn(10) {
	case 0:
		return &c19Expr{op: "const", b: r.Intn(2) == 0}
	case 1:
		k := ""
		if r.Intn(4) != 0 {
			k = append(c19Keys, "c")[r.Intn(len(c19Keys)+1)]
		}
		return &c19Expr{op: "key", key: k}
	case 2, 3:
		return &c19Expr{op: "qual", cl: c19GenClause(r)}
	case 4:
		return c19GenSel(r)
	case 5, 6:
		l, u := c19GenBounds(r, L)
		return &c19Expr{op: "within", l: l, u: u}
	case 7:
		l, u := c19GenBounds(r, L)
		return &c19Expr{op: "overlap", l: l, u: u}
	case 8:
		return &c19Expr{op: "fwd"}
	}
	return &c19Expr{op: "rev"}
}

func c19GenExpr(r *rand.Rand, depth, L int) *c19Expr {
	if depth <= 0 || r.Intn(3) == 0 {
		return c19GenLeaf(r, L)
	}
	switch r.Intn(5) {
	case 0:
		return &c19Expr{op: "not", kids: []*c19Expr{c19GenExpr(r, depth-1, L)}}
	case 1, 2:
		e := &c19Expr{op: "and"}
		for k := r.Intn(4); k > 0; k-- {
			e.kids = append(e.kids, c19GenExpr(r, depth-1, L))
		}
		return e
	default:
		e := &c19Expr{op: "or"}
		for k := r.Intn(4); k > 0; k-- {
			e.kids = append(e.kids, c19GenExpr(r, depth-1, L))
		}
		return e
	}
}

// ---------------------------------------------------------------------------
// order axioms

func c19AxiomUniverse(c *fw.Ctx) []gts.Location {
	var uni []gts.Location
	nr := 80
	if c.Thorough() {
		uni = gen.Universe(5, 3)
		nr = 60
	} else {
		uni = gen.Universe(4, 3)
	}
	r := c.SubRng("axiom-universe")
	for i := 0; i < nr; i++ {
		L := []int{4, 6, 12}[r.Intn(3)]
		uni = append(uni, gen.RandLoc(r, gen.LocOpt{L: L, MaxParts: 4, MaxDepth: 3, Ambiguous: true, Overlap: r.Intn(2) == 0, Sites: true}))
	}
	// compound locations whose members are complemented one by one (orders keep
	// them that way; joins of both strands too).
	for _, l := range []gts.Location{
		gts.Order(gts.Range(3, 5).Complement(), gts.Range(7, 9).Complement()),
		gts.Order(gts.Range(0, 2).Complement(), gts.Range(9, 11).Complement()),
		gts.Join(gts.Range(3, 5).Complement(), gts.Range(7, 9)),
		gts.Join(gts.Range(1, 2), gts.Range(4, 6).Complement()),
		gts.Order(gts.Range(6, 8), gts.Range(10, 12).Complement()),
		gts.Range(5, 7), gts.Range(9, 10), gts.Range(2, 3).Complement(), gts.Range(11, 12),
	} {
		uni = append(uni, l)
	}
	return uni
}

func (m c19) axioms(c *fw.Ctx) {
	uni := c19AxiomUniverse(c)
	n := len(uni)
	less := make([][]bool, n)
	p, val, site, stack := fw.Guard(func() {
		for i := range uni {
			less[i] = make([]bool, n)
			for j := range uni {
				less[i][j] = gts.LocationLess(uni[i], uni[j])
			}
		}
	})
	if p {
		c.NextShared()
		c.ViolateX("LocationLess:"+panicClass(site, val), "LocationLess on the axiom universe", "no panic", fmt.Sprint(val), stack, nil)
		return
	}
	str := make([]string, n)
	single := make([]*model.Part, n) // forward contiguous residue part, else nil
	for i, l := range uni {
		str[i] = model.SafeString(l)
		pp := model.Parts(l)
		if len(pp) == 1 && pp[0].Kind != model.KSite && !pp[0].Rev {
			q := pp[0]
			single[i] = &q
		}
	}
	noted := false
	for i := 0; i < n; i++ {
		for j := 0; j < n; j++ {
			if !c.NextShared() {
				continue
			}
			enc := "LocationLess a=" + str[i] + " b=" + str[j]
			c.Begin(enc)
			c.Count(enc, i != j)
			if i == j {
				c.Bucket("axiom:irreflexive")
				if less[i][i] {
					c.Violate("LocationLess:not-irreflexive", enc, "LocationLess(a,a) == false", "true")
				}
				continue
			}
			c.Bucket("axiom:asymmetric")
			if less[i][j] && less[j][i] {
				c.Violate("LocationLess:not-asymmetric", enc, "not both LocationLess(a,b) and LocationLess(b,a)", "both true")
			}
			if a, b := single[i], single[j]; a != nil && b != nil && a.Lo < b.Lo && a.Hi < b.Hi {
				c.Bucket("axiom:starts-and-ends-before")
				if !less[i][j] {
					c.Violate("LocationLess:earlier-span-not-less", enc, "LocationLess(a,b) == true (a starts and ends before b)", "false")
				}
			}
			// whatever the strands and the nesting: a location whose residues all
			// lie in front of every residue of another one comes first.
			if ai, aj := model.Parts(uni[i]), model.Parts(uni[j]); len(ai) > 0 && len(aj) > 0 {
				hi, lo, okk := -1, 1<<30, true
				for _, q := range ai {
					if q.Kind == model.KSite {
						okk = false
					}
					if q.Hi > hi {
						hi = q.Hi
					}
				}
				for _, q := range aj {
					if q.Kind == model.KSite {
						okk = false
					}
					if q.Lo < lo {
						lo = q.Lo
					}
				}
				if okk && hi <= lo {
					c.Bucket("axiom:wholly-in-front")
					if !less[i][j] || less[j][i] {
						c.Violate("LocationLess:location-wholly-in-front-is-not-less", enc, "LocationLess(a,b) == true and LocationLess(b,a) == false (every residue of a lies in front of every residue of b)", fmt.Sprintf("LocationLess(a,b)=%v LocationLess(b,a)=%v", less[i][j], less[j][i]))
					}
				}
			}
			if less[i][j] {
				var cnt int64
				for k := 0; k < n; k++ {
					if less[j][k] {
						cnt++
						if !less[i][k] {
							c.Violate("LocationLess:not-transitive", enc+" c="+str[k], "a<b and b<c imply a<c", "LocationLess(a,b)=true LocationLess(b,c)=true LocationLess(a,c)=false")
						}
					}
				}
				c.BucketN("axiom:transitive", cnt)
			} else if !less[j][i] {
				// information only: the statement asks for a strict partial order;
				// binary-search insertion is globally sorted when incomparability is
				// transitive too (checked end-to-end by the insertion sequences).
				for k := 0; k < n; k++ {
					if !less[j][k] && !less[k][j] && (less[i][k] || less[k][i]) {
						c.Bucket("info:incomparability-not-transitive")
						if !noted {
							noted = true
							c.Note("incomparability is not transitive: a=" + str[i] + " b=" + str[j] + " c=" + str[k])
						}
						break
					}
				}
			}
		}
	}
	c.Exhaustive(fmt.Sprintf("order axioms on all pairs/triples of a %d-location universe", n))
}

// ---------------------------------------------------------------------------
// insertion sequences

func (m c19) checkInsertSeq(c *fw.Ctx, feats []c19Feat) {
	ss := make([]string, len(feats))
	for i, f := range feats {
		ss[i] = f.String()
	}
	enc := "InsertSeq [" + strings.Join(ss, "; ") + "]"
	c.Begin(enc)
	c.Count(enc, len(feats) >= 2)
	var t gts.FeatureSlice
	for step, mf := range feats {
		old := c19CloneTable(t)
		f := mf.real()
		fcopy := mf.real()
		var res gts.FeatureSlice
		p, val, site, stack := fw.Guard(func() { res = t.Insert(f) })
		if p {
			c.ViolateX("Insert:"+panicClass(site, val), enc, "no panic", fmt.Sprint(val), stack, nil)
			return
		}
		where := fmt.Sprintf("step %d: insert %s into %s", step, mf.String(), c19TableText(old))
		if mf.key == "source" {
			c.Bucket("Insert:source")
		} else {
			c.Bucket("Insert:non-source")
			if len(old) > 0 && old[0].Key == "source" {
				c.Bucket("Insert:non-source-after-sources")
			}
		}
		if len(old) == 0 {
			c.Bucket("Insert:into-empty")
		}
		// multiset == old + new.
		wantSet := append(c19CloneTable(old), fcopy)
		if len(res) != len(wantSet) {
			c.Violate("Insert:feature-count", enc, where+" -> "+fmt.Sprint(len(wantSet))+" features", c19TableText(res))
			return
		}
		used := make([]bool, len(wantSet))
		for _, g := range res {
			found := false
			for k := range wantSet {
				if !used[k] && reflect.DeepEqual(g, wantSet[k]) {
					used[k] = true
					found = true
					break
				}
			}
			if !found {
				c.Violate("Insert:multiset", enc, where+" -> the same features plus the new one", c19TableText(res))
				return
			}
		}
		// sources first.
		seenOther := false
		for _, g := range res {
			if g.Key != "source" {
				seenOther = true
			} else if seenOther {
				c.Violate("Insert:source-not-first", enc, where+" -> source features first", c19TableText(res))
				return
			}
		}
		// no later non-source location is less than an earlier one.
		var bad string
		tie := false
		p, val, site, stack = fw.Guard(func() {
			for i := 0; i < len(res); i++ {
				if res[i].Key == "source" {
					continue
				}
				if mf.key != "source" && !gts.LocationLess(res[i].Loc, f.Loc) && !gts.LocationLess(f.Loc, res[i].Loc) {
					if !reflect.DeepEqual(res[i], fcopy) {
						tie = true
					}
				}
				for j := i + 1; j < len(res); j++ {
					if res[j].Key == "source" {
						continue
					}
					if gts.LocationLess(res[j].Loc, res[i].Loc) && bad == "" {
						bad = fmt.Sprintf("#%d %s is LocationLess than #%d %s", j, model.SafeString(res[j].Loc), i, model.SafeString(res[i].Loc))
					}
				}
			}
		})
		if p {
			c.ViolateX("Insert:LocationLess:"+panicClass(site, val), enc, "no panic", fmt.Sprint(val), stack, nil)
			return
		}
		if tie {
			c.Bucket("Insert:tie")
		}
		if bad != "" {
			c.Violate("Insert:not-sorted", enc, where+" -> non-source features in non-decreasing location order", c19TableText(res)+": "+bad)
			return
		}
		t = res
	}
}

func c19Tree(op string, leaves ...bool) *c19Expr {
	e := &c19Expr{op: op}
	for _, b := range leaves {
		e.kids = append(e.kids, &c19Expr{op: "const", b: b})
	}
	return e
}

func (m c19) Run(c *fw.Ctx) {
	probe := []c19Feat{{key: "gene", loc: gts.Range(1, 4), quals: []c19Qual{{"n", []string{"a"}}}}}

	// 1. truth tables of the combinators over constant leaves.
	for _, op := range []string{"and", "or"} {
		for ar := 0; ar <= 3; ar++ {
			for asg := 0; asg < 1<<uint(ar); asg++ {
				if !c.NextShared() {
					continue
				}
				leaves := make([]bool, ar)
				for i := range leaves {
					leaves[i] = asg&(1<<uint(i)) != 0
				}
				m.checkTable(c, probe, c19Tree(op, leaves...))
			}
		}
	}
	for _, b := range []bool{false, true} {
		if c.NextShared() {
			m.checkTable(c, probe, c19Tree("not", b))
		}
		// second level: Not of And/Or of nothing and of one.
		for _, op := range []string{"and", "or"} {
			if c.NextShared() {
				m.checkTable(c, probe, &c19Expr{op: "not", kids: []*c19Expr{c19Tree(op)}})
			}
			if c.NextShared() {
				m.checkTable(c, probe, &c19Expr{op: "not", kids: []*c19Expr{c19Tree(op, b)}})
			}
		}
	}
	c.Exhaustive("And/Or truth tables, arity 0..3, constant leaves; Not")

	// 2. Within / Overlap / strand on the systematic universe.
	L := c.Pick(5, 6)
	uni := gen.Universe(L, 3)
	for _, loc := range uni {
		tab := []c19Feat{{key: "gene", loc: loc}}
		for l := -1; l <= L+1; l++ {
			for u := -1; u <= L+1; u++ {
				for _, op := range []string{"within", "overlap"} {
					if !c.NextShared() {
						continue
					}
					m.checkTable(c, tab, &c19Expr{op: op, l: l, u: u})
				}
			}
		}
		for _, op := range []string{"fwd", "rev"} {
			if !c.NextShared() {
				continue
			}
			m.checkTable(c, tab, &c19Expr{op: op})
		}
	}
	c.Exhaustive(fmt.Sprintf("Universe(L=%d,arity<=3) x (l,u) in [-1,L+1]^2 x {Within,Overlap}; x {ForwardStrand,ReverseStrand}", L))

	// 3. order axioms.
	m.axioms(c)

	// 4. seeded tables x filter expressions.
	r := c.Rng
	N := c.Pick(6000, 120000)
	for it := 0; it < N; it++ {
		c.NextOwn()
		const SL = 12
		o := gen.LocOpt{L: SL, MaxParts: 4, MaxDepth: 3, Ambiguous: r.Intn(3) == 0, Overlap: r.Intn(3) == 0, Sites: true}
		tab := make([]c19Feat, r.Intn(9))
		for i := range tab {
			tab[i] = c19GenFeat(r, o)
		}
		var e *c19Expr
		if r.Intn(5) < 3 {
			e = c19GenSel(r)
		} else {
			e = c19GenExpr(r, 3, SL)
		}
		if c.Replaying() && c.Seq() != c.ReplaySeq {
			continue
		}
		m.checkTable(c, tab, e)
	}

	// 5. insertion sequences from an empty table.
	pool := gen.Universe(c.Pick(4, 5), 3)
	M := c.Pick(1250, 12500)
	for it := 0; it < M; it++ {
		c.NextOwn()
		k := r.Intn(10)
		SL := []int{5, 8, 12, 40}[r.Intn(4)]
		o := gen.LocOpt{L: SL, MaxParts: 4, MaxDepth: 3, Ambiguous: r.Intn(3) == 0, Overlap: r.Intn(3) == 0, Sites: true}
		srcPct := []int{0, 20, 20, 50}[r.Intn(4)]
		feats := make([]c19Feat, k)
		twice := false
		for i := range feats {
			var loc gts.Location
			switch {
			case i > 0 && r.Intn(6) == 0:
				loc = feats[r.Intn(i)].loc // exact tie
			case r.Intn(3) == 0:
				loc = pool[r.Intn(len(pool))]
			default:
				loc = gen.RandLoc(r, o)
			}
			f := c19Feat{key: c19Keys[r.Intn(3)], loc: loc}
			if r.Intn(100) < srcPct {
				f.key = "source"
			}
			f.add("id", fmt.Sprint(i))
			if r.Intn(3) == 0 {
				f.add(c19Names[r.Intn(len(c19Names))], c19Vals[r.Intn(len(c19Vals))])
			}
			feats[i] = f
			if i > 0 && r.Intn(5) == 0 {
				// the same annotation entered again, word for word.
				feats[i] = feats[r.Intn(i)]
				twice = true
			}
		}
		if c.Replaying() && c.Seq() != c.ReplaySeq {
			continue
		}
		if twice {
			c.Bucket("insert:identical-feature-entered-again")
		}
		m.checkInsertSeq(c, feats)
	}
	cliSelect(c)
}
