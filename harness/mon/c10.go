package mon

import (
	"bytes"
	"fmt"
	"reflect"
	"sort"

	"github.com/go-gts/gts"

	"github.com/go-gts/gts/seqio"

	"verifharness/fw"
	"verifharness/gen"
	"verifharness/model"
)

type c10 struct{ base }

func init() { register(c10{}) }

func (c10) ID() string { return "C10" }
func (c10) Rule() string {
	return "insert;delete and embed;delete: every location of gen.Universe(L<=5|6,arity<=3) as the single labelled host feature x every index x guest length {1,3}, plus seeded hosts (L<=60, <=8 features, BasicSequence and seqio.GenBank, guests with features): Delete(Insert|Embed(h,i,g),i,len g) must restore the residues and give every host feature the same base atoms and open-end markers as originally, and (for features whose parts are sorted, disjoint and non-abutting) the same number of contiguous range parts (the split re-merged; ambiguous spans split into an order are don't-care structurally). cut;concat: all cut sets of 0..4 distinct cut points in [0,L] (0 and L give an empty end piece) (exhaustive for L<=6|7 with Universe(L,2), seeded for L<=60): Concat of the Slice pieces restores the residues and, per labelled feature, the union of the fragments' residues (with strand) equals the original's. non-trivial: the edit touches a feature; distinct: canonical case text. Hosts may list the same annotation twice (both copies come back; every fragment of a cut comes twice); guests may be CONTIG-only records. cut;concat also on hosts whose feature table is listed in reverse (not in location order). An unrelated Delete runs after the undos, before the restored residues are compared."
}
func (c10) RequiredBuckets(tier string) []string {
	out := []string{"undo:Insert", "undo:Embed", "undo:split-remerged", "undo:ambiguous-dontcare", "cut:0", "cut:1", "cut:2", "cut:3", "cut:4", "cut:feature-fragmented", "host:genbank", "host:basic", "undo:guest:contig-only-record", "undo:host-feature-listed-twice", "cut:host-feature-listed-twice", "cut:table-not-in-location-order"}
	for _, k := range []string{"point", "site", "range", "prange", "ambiguous", "join", "order", "c-range", "c-join"} {
		out = append(out, "kind|"+k)
	}
	return out
}
func (c10) Findings() []fw.Finding {
	return []fw.Finding{{ID: "join-drops-point-after-range", What: "join reduction drops a single base that directly follows a range", Witness: witnessJoinDropsPoint}}
}

func rangeCount(pp []model.Part) int {
	n := 0
	for _, p := range pp {
		if p.Kind == model.KRange {
			n++
		}
	}
	return n
}

func (m c10) undo(c *fw.Ctx, kind string, tab []gts.Feature, hostB []byte, gtab []gts.Feature, guestB []byte, i int, embed bool, contigSpan ...int) {
	op := "Insert"
	if embed {
		op = "Embed"
	}
	enc := fmt.Sprintf("%s;Delete host=%s:%q i=%d guest=%q hostF=[", op, kind, hostB, i, guestB)
	for _, f := range tab {
		enc += fmt.Sprintf("%s %s;", gen.Label(f), model.SafeString(f.Loc))
	}
	enc += "]"
	c.Begin(enc)
	nontrivial := false
	for _, f := range tab {
		if _, hi, ok := model.Bounds(model.Parts(f.Loc)); ok && i <= hi {
			nontrivial = true
		}
		c.Bucket("kind|" + locKind(f.Loc))
	}
	c.Count(enc, nontrivial)
	c.Bucket("undo:" + op)
	c.Bucket("host:" + kind)
	host := mkHost(kind, tab, hostB)
	var guest gts.Sequence = gts.New(nil, gen.SortedTable(gen.CloneTable(gtab)), append([]byte(nil), guestB...))
	if len(contigSpan) > 0 && len(guestB) == 0 {
		// a guest record that refers to its residues through CONTIG only.
		gb := mkHost("genbank", gtab, nil).(seqio.GenBank)
		gb.Fields.Contig = seqio.Contig{Accession: "U00096.3", Region: gts.Segment{0, contigSpan[0]}}
		gb.Origin = seqio.NewOrigin(nil)
		guest = gb
		enc += fmt.Sprintf(" guest-record=CONTIG-only(%d)", contigSpan[0])
		c.Bucket("undo:guest:contig-only-record")
	}
	mult := map[string]int{}
	for _, f := range tab {
		mult[gen.Label(f)]++
	}
	var res, res2, res3 gts.Sequence
	p, val, site, stack := fw.Guard(func() {
		var mid gts.Sequence
		if embed {
			mid = gts.Embed(host, i, guest)
		} else {
			mid = gts.Insert(host, i, guest)
		}
		res = gts.Delete(mid, i, len(guestB))
		// the edited sequence is a value: undoing the edit a second time
		// gives the same.
		res2 = gts.Delete(mid, i, len(guestB))
		// and so is the host: the other edit, made and undone from the same
		// host afterwards, gives the host again.
		var mid3 gts.Sequence
		if embed {
			mid3 = gts.Insert(host, i, guest)
		} else {
			mid3 = gts.Embed(host, i, guest)
		}
		res3 = gts.Delete(mid3, i, len(guestB))
		// (an unrelated deletion afterwards: the restored sequences above are
		// values of their own.)
		gts.Delete(gts.New(nil, nil, bytes.Repeat([]byte("z"), len(hostB)+len(guestB)+1)), 0, 1)
	})
	if p {
		c.ViolateX("undo:"+panicClass(site, val), enc, "no panic", fmt.Sprint(val), stack, nil)
		return
	}
	c.Hold(enc, func() string { return heldSeq(res) })
	if a, b := heldSeq(res), heldSeq(res2); a != b {
		c.Violate("undo:"+op+":second-undo-of-the-same-value-differs", enc, a, b)
		return
	}
	if !bytes.Equal(res.Bytes(), hostB) {
		c.Violate("undo:"+op+":residues", enc, string(hostB), string(res.Bytes()))
		return
	}
	if !bytes.Equal(res3.Bytes(), hostB) || !bytes.Equal(host.Bytes(), hostB) {
		c.Violate("undo:"+op+":host-changed-by-the-first-edit", enc, string(hostB), fmt.Sprintf("host %q, second edit undone %q", host.Bytes(), res3.Bytes()))
		return
	}
	got := map[string][]gts.Feature{}
	for _, f := range res.Features() {
		got[gen.Label(f)] = append(got[gen.Label(f)], f)
	}
	for _, f := range tab {
		g := got[gen.Label(f)]
		if len(g) != mult[gen.Label(f)] || g[0].Key != f.Key || !reflect.DeepEqual(g[0].Props, f.Props) {
			c.Violate("undo:"+op+":feature-identity", enc, fmt.Sprintf("%s %d time(s), same key/qualifiers", gen.Label(f), mult[gen.Label(f)]), fmt.Sprint(g))
			return
		}
		if len(g) > 1 {
			c.Bucket("undo:host-feature-listed-twice")
			for _, h := range g[1:] {
				if model.SafeString(h.Loc) != model.SafeString(g[0].Loc) || !reflect.DeepEqual(h.Props, g[0].Props) {
					c.Violate("undo:"+op+":copies-of-one-feature-differ", enc, model.SafeString(g[0].Loc), model.SafeString(h.Loc))
					return
				}
			}
		}
		before := model.Parts(f.Loc)
		var obs []model.Part
		if pp, pv, _, _ := fw.Guard(func() { obs = model.Parts(g[0].Loc) }); pp {
			c.Violate("undo:unreadable-location", enc, "", fmt.Sprint(pv))
			return
		}
		opt := model.CmpOpt{MaxCoord: len(hostB), AllowDropPoint: c.KFEnabled("join-drops-point-after-range"), IgnoreSites: false}
		exp := model.ImageIdentity(before)
		// a site exactly at i may come back on either side of where the guest was:
		// both are position i after the deletion, so no alternative is needed.
		v, why, id := model.CompareImage(exp, obs, opt)
		switch v {
		case model.VKnown:
			c.Known(id, enc)
			continue
		case model.VBad:
			c.Violate("undo:"+op+":loc:"+why+":"+locKind(f.Loc), enc, fmt.Sprintf("%s %s", gen.Label(f), model.SafeString(f.Loc)), model.SafeString(g[0].Loc))
			return
		}
		hasAmb := false
		for _, q := range before {
			if q.Kind == model.KAmb {
				hasAmb = true
			}
		}
		if hasAmb {
			c.Bucket("undo:ambiguous-dontcare")
		}
		if isReduced(before) {
			if rangeCount(obs) != rangeCount(before) {
				c.Violate("undo:"+op+":split-not-remerged:"+locKind(f.Loc), enc, model.SafeString(f.Loc), model.SafeString(g[0].Loc))
				return
			}
			for _, q := range before {
				if q.Kind == model.KRange && q.Lo < i && i < q.Hi {
					c.Bucket("undo:split-remerged")
				}
			}
		}
	}
}

func (m c10) cut(c *fw.Ctx, kind string, tab []gts.Feature, hostB []byte, cuts []int, listed ...bool) {
	L := len(hostB)
	asListed := len(listed) > 0 && listed[0]
	enc := fmt.Sprintf("Slice*;Concat host=%s:%q cuts=%v F=[", kind, hostB, cuts)
	if asListed {
		enc = fmt.Sprintf("Slice*;Concat host=%s (table as listed, not in location order):%q cuts=%v F=[", kind, hostB, cuts)
		c.Bucket("cut:table-not-in-location-order")
	}
	for _, f := range tab {
		enc += fmt.Sprintf("%s %s;", gen.Label(f), model.SafeString(f.Loc))
	}
	enc += "]"
	c.Begin(enc)
	c.Count(enc, len(cuts) > 0 && len(tab) > 0)
	c.Bucket(fmt.Sprintf("cut:%d", len(cuts)))
	c.Bucket("host:" + kind)
	host := mkHost(kind, tab, hostB, asListed)
	bounds := append(append([]int{0}, cuts...), L)
	var res, res2 gts.Sequence
	p, val, site, stack := fw.Guard(func() {
		pieces := make([]gts.Sequence, 0, len(bounds)-1)
		for k := 0; k+1 < len(bounds); k++ {
			pieces = append(pieces, gts.Slice(host, bounds[k], bounds[k+1]))
		}
		res = gts.Concat(pieces...)
		// the pieces are values: concatenating them again gives the same.
		res2 = gts.Concat(pieces...)
	})
	if p {
		c.ViolateX("cut:"+panicClass(site, val), enc, "no panic", fmt.Sprint(val), stack, nil)
		return
	}
	c.Hold(enc, func() string { return heldSeq(res) })
	if a, b := heldSeq(res), heldSeq(res2); a != b {
		c.Violate("cut:second-concat-of-the-same-pieces-differs", enc, a, b)
		return
	}
	if !bytes.Equal(res.Bytes(), hostB) {
		c.Violate("cut:residues", enc, string(hostB), string(res.Bytes()))
		return
	}
	type key struct {
		pos int
		rev bool
	}
	got := map[string]map[key]bool{}
	frag := map[string]int{}
	mult := map[string]int{}
	for _, f := range tab {
		mult[gen.Label(f)]++
	}
	printed := map[string]map[string]int{}
	for _, f := range res.Features() {
		lab := gen.Label(f)
		if printed[lab] == nil {
			printed[lab] = map[string]int{}
		}
		printed[lab][model.SafeString(f.Loc)]++
		if got[lab] == nil {
			got[lab] = map[key]bool{}
		}
		frag[lab]++
		var pp []model.Part
		if px, pv, _, _ := fw.Guard(func() { pp = model.Parts(f.Loc) }); px {
			c.Violate("cut:unreadable-location", enc, "", fmt.Sprint(pv))
			return
		}
		if bad := model.HasBad(pp); bad != "" {
			c.Violate("cut:malformed:"+bad, enc, "", model.SafeString(f.Loc))
			return
		}
		for _, a := range model.Bases(model.Atoms(pp)) {
			got[lab][key{a.Pos, a.Rev}] = true
		}
	}
	for _, f := range tab {
		lab := gen.Label(f)
		before := model.Parts(f.Loc)
		want := map[key]bool{}
		for _, a := range model.Bases(model.Atoms(before)) {
			want[key{a.Pos, a.Rev}] = true
		}
		if frag[lab] > 1 {
			c.Bucket("cut:feature-fragmented")
		}
		if mult[lab] > 1 {
			// a feature the host lists m times: every fragment comes m times.
			c.Bucket("cut:host-feature-listed-twice")
			for loc, n := range printed[lab] {
				if n%mult[lab] != 0 {
					c.Violate("cut:copies-of-one-feature-not-all-kept", enc, fmt.Sprintf("%s: every fragment %d time(s)", lab, mult[lab]), fmt.Sprintf("%s %d time(s)", loc, n))
					return
				}
			}
		}
		same := len(want) == len(got[lab])
		if same {
			for k := range want {
				if !got[lab][k] {
					same = false
				}
			}
		}
		if same {
			continue
		}
		if c.KFEnabled("join-drops-point-after-range") {
			// the deviation fires inside a piece when the tail/head deletion of its
			// Slice brings a point next to a range.
			hit := false
			for k := 0; k+1 < len(bounds); k++ {
				s, e := bounds[k], bounds[k+1]
				tail := model.ImageDelete(before, e, L-e)
				img := model.ReImage(tail, func(pp []model.Part) []model.XPart { return model.ImageDelete(pp, 0, s) })
				if _, did := model.DropPointAfterRange(img); did {
					hit = true
				}
				if _, did := model.DropPointAfterRange(tail); did {
					hit = true
				}
			}
			if hit {
				// exactly the droppable points may be missing.
				missing := 0
				extra := 0
				for k := range want {
					if !got[lab][k] {
						missing++
					}
				}
				for k := range got[lab] {
					if !want[k] {
						extra++
					}
				}
				if extra == 0 && missing > 0 {
					c.Known("join-drops-point-after-range", enc)
					continue
				}
			}
		}
		ws, gs := []string{}, []string{}
		for k := range want {
			ws = append(ws, fmt.Sprintf("%d%v", k.pos, map[bool]string{true: "-", false: ""}[k.rev]))
		}
		for k := range got[lab] {
			gs = append(gs, fmt.Sprintf("%d%v", k.pos, map[bool]string{true: "-", false: ""}[k.rev]))
		}
		sort.Strings(ws)
		sort.Strings(gs)
		c.Violate("cut:feature-residues:"+locKind(f.Loc), enc, fmt.Sprintf("%s %s = %v", lab, model.SafeString(f.Loc), ws), fmt.Sprint(gs))
		return
	}
}

func cutSets(L, maxCuts int, f func([]int)) {
	var rec func(from int, cur []int)
	rec = func(from int, cur []int) {
		f(append([]int(nil), cur...))
		if len(cur) == maxCuts {
			return
		}
		for x := from; x <= L; x++ {
			rec(x+1, append(cur, x))
		}
	}
	rec(0, nil) // 0 and L are legitimate cut positions: they give an empty end piece
}

func (m c10) Run(c *fw.Ctx) {
	maxL := c.Pick(5, 6)
	for L := 1; L <= maxL; L++ {
		hostB := gen.UniqueBytes(0, L)
		for _, loc := range gen.Universe(L, 3) {
			tab := []gts.Feature{{Key: "gene", Loc: loc, Props: gts.Props{{"label", "h0"}}}}
			for i := 0; i <= L; i++ {
				for _, n := range []int{1, 3} {
					for _, embed := range []bool{false, true} {
						if !c.NextShared() {
							continue
						}
						m.undo(c, "basic", tab, hostB, nil, gen.UniqueBytes(100, n), i, embed)
					}
				}
			}
		}
		c.Exhaustive(fmt.Sprintf("insert|embed;delete on Universe(L=%d,arity<=3) x i x n{1,3}", L))
	}
	for L := 2; L <= c.Pick(6, 7); L++ {
		hostB := gen.UniqueBytes(0, L)
		uni := gen.Universe(L, 2)
		cutSets(L, 4, func(cuts []int) {
			for _, loc := range uni {
				if !c.NextShared() {
					continue
				}
				tab := []gts.Feature{{Key: "gene", Loc: loc, Props: gts.Props{{"label", "h0"}}}}
				m.cut(c, "basic", tab, hostB, cuts)
			}
		})
		c.Exhaustive(fmt.Sprintf("slice*;concat on Universe(L=%d,arity<=2) x all cut sets of <=4 cuts", L))
	}
	r := c.Rng
	N := c.Pick(15000, 500000)
	for it := 0; it < N; it++ {
		c.NextOwn()
		L := 2 + r.Intn(59)
		o := gen.LocOpt{L: L, MaxParts: 5, MaxDepth: 3, Ambiguous: true, Overlap: r.Intn(3) == 0, Sites: true}
		tab := gen.RandTable(r, r.Intn(9), o, "h", 10)
		n := 1 + r.Intn(10)
		var gtab []gts.Feature
		if r.Intn(2) == 0 {
			gtab = gen.RandTable(r, 1+r.Intn(3), gen.LocOpt{L: n, MaxParts: 3, MaxDepth: 2, Ambiguous: true}, "g", 10)
		}
		i := r.Intn(L + 1)
		if len(tab) > 0 && r.Intn(2) == 0 {
			pp := model.Parts(tab[r.Intn(len(tab))].Loc)
			if len(pp) > 0 {
				q := pp[r.Intn(len(pp))]
				x := []int{q.Lo, q.Hi, q.Lo + 1, q.Hi - 1}[r.Intn(4)]
				if x >= 0 && x <= L {
					i = x
				}
			}
		}
		kind := "basic"
		if r.Intn(3) == 0 {
			kind = "genbank"
		}
		embed := r.Intn(2) == 0
		if len(tab) > 0 && r.Intn(5) == 0 {
			// the same annotation listed twice.
			tab = append(tab, gen.CloneTable([]gts.Feature{tab[r.Intn(len(tab))]})[0])
		}
		span := 1 + r.Intn(30)
		nc := r.Intn(5)
		cs := map[int]bool{}
		for k := 0; k < nc && L > 1; k++ {
			cs[1+r.Intn(L-1)] = true
		}
		if nc > 0 && r.Intn(6) == 0 {
			cs[[]int{0, L}[r.Intn(2)]] = true
		}
		cuts := []int{}
		for x := range cs {
			cuts = append(cuts, x)
		}
		sort.Ints(cuts)
		if c.Replaying() && c.Seq() != c.ReplaySeq {
			continue
		}
		hostB := gen.UniqueBytes(0, L)
		m.undo(c, kind, tab, hostB, gtab, gen.UniqueBytes(100, n), i, embed)
		if span%4 == 0 {
			m.undo(c, kind, tab, hostB, nil, nil, i, embed, span)
		}
		m.cut(c, kind, tab, hostB, cuts)
		if span%3 == 0 && len(tab) > 1 {
			rev := gen.CloneTable(tab)
			for i, j := 0, len(rev)-1; i < j; i, j = i+1, j-1 {
				rev[i], rev[j] = rev[j], rev[i]
			}
			m.cut(c, kind, rev, hostB, cuts, true)
		}
	}
}
