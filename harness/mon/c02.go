package mon

import (
	"bytes"
	"fmt"
	"reflect"

	"github.com/go-gts/gts"
	"github.com/go-gts/gts/seqio"

	"verifharness/fw"
	"verifharness/gen"
	"verifharness/model"
)

type c02 struct{ base }

func init() { register(c02{}) }

func (c02) ID() string { return "C02" }
func (c02) Rule() string {
	return "systematic: every location of gen.Universe(L<=6, arity<=3) as the single labelled host feature x every index 0..L x guest length {0,1,3} x {Insert,Embed}; seeded: hosts of length<=60 (BasicSequence and seqio.GenBank) with <=8 uniquely labelled features (joins<=5 parts, nesting<=3, both strands, partial ends, ambiguous spans, sites) and guests with <=3 features. Oracle: residues == host[:i]+guest+host[i:]; every host feature present once with equal key/qualifiers and base atoms == image under the insertion map (Insert: nothing covers a guest residue; Embed: a contiguous part strictly spanning i covers the guest in place), open-end markers map with their residues, sites map to either neighbour; guest features shifted by i; all coordinates within [0,newlen]. non-trivial: some feature is touched by the edit (i <= its high end); distinct: canonical case text. CLI layer: gts insert [-e] and gts infix [-e] of the real binary (--no-cache) on generated records, single and as streams of 2..3 records, judged by the C15 models (one guest copy per located region at its 5' position in input coordinates; a stream's output equals the outputs of its records alone). Guests are also seqio.GenBank records, among them CONTIG-only records (no residues, whatever span the CONTIG names)."
}
func (c02) RequiredBuckets(tier string) []string {
	var out []string
	for _, op := range []string{"Insert", "Embed"} {
		for _, k := range []string{"point", "site", "range", "prange", "ambiguous", "join", "order", "c-range", "c-join"} {
			out = append(out, op+"|"+k)
		}
		for _, a := range []string{"before", "at-start", "inside", "at-end", "after"} {
			out = append(out, op+"|align:"+a)
		}
		out = append(out, op+"|guest:empty", op+"|guest:empty-with-features", op+"|guest:plain", op+"|guest:features", op+"|host:genbank", op+"|host:basic")
	}
	out = append(out, "guest:genbank-record", "guest:contig-only-record")
	out = append(out, "cmd:insert", "cmd:insert -e", "cmd:infix", "stream:records-independent", "cache-on:after-sibling")
	return out
}

type insCase struct {
	host     gts.Sequence
	hostTab  []gts.Feature
	hostB    []byte
	guest    gts.Sequence
	guestTab []gts.Feature
	guestB   []byte
	i        int
	embed    bool
	hostKind string
}

func (k *insCase) enc() string {
	op := "Insert"
	if k.embed {
		op = "Embed"
	}
	s := fmt.Sprintf("%s host=%s:%q i=%d guest=%q hostF=[", op, k.hostKind, k.hostB, k.i, k.guestB)
	for _, f := range k.hostTab {
		s += fmt.Sprintf("%s %s %v;", f.Key, model.SafeString(f.Loc), f.Props)
	}
	s += "] guestF=["
	for _, f := range k.guestTab {
		s += fmt.Sprintf("%s %s %v;", f.Key, model.SafeString(f.Loc), f.Props)
	}
	return s + "]"
}

func alignOf(pp []model.Part, i int) string {
	lo, hi, ok := model.Bounds(pp)
	if !ok {
		return "none"
	}
	switch {
	case i < lo:
		return "before"
	case i == lo:
		return "at-start"
	case i < hi:
		return "inside"
	case i == hi:
		return "at-end"
	}
	return "after"
}

func (m c02) check(c *fw.Ctx, k *insCase) {
	op := "Insert"
	if k.embed {
		op = "Embed"
	}
	enc := k.enc()
	c.Begin(enc)
	L, n := len(k.hostB), len(k.guestB)
	nontrivial := false
	for _, f := range k.hostTab {
		pp := model.Parts(f.Loc)
		if _, hi, ok := model.Bounds(pp); ok && k.i <= hi {
			nontrivial = true
		}
		c.Bucket(op + "|" + locKind(f.Loc))
		c.Bucket(op + "|align:" + alignOf(pp, k.i))
		c.Bucket(op + "|strand:" + strandOf(pp))
	}
	switch {
	case n == 0:
		c.Bucket(op + "|guest:empty")
		if len(k.guestTab) > 0 {
			c.Bucket(op + "|guest:empty-with-features")
		}
	case len(k.guestTab) == 0:
		c.Bucket(op + "|guest:plain")
	default:
		c.Bucket(op + "|guest:features")
	}
	c.Bucket(op + "|host:" + k.hostKind)
	c.Count(enc, nontrivial)

	var res gts.Sequence
	p, val, site, stack := fw.Guard(func() {
		if k.embed {
			res = gts.Embed(k.host, k.i, k.guest)
		} else {
			res = gts.Insert(k.host, k.i, k.guest)
		}
	})
	if p {
		c.ViolateX(op+":"+panicClass(site, val), enc, "no panic", fmt.Sprint(val), stack, nil)
		return
	}
	c.Hold(enc, func() string { return heldSeq(res) })
	want := append(append(append([]byte{}, k.hostB[:k.i]...), k.guestB...), k.hostB[k.i:]...)
	if !bytes.Equal(res.Bytes(), want) {
		c.Violate(op+":residues", enc, string(want), string(res.Bytes()))
		return
	}
	if gts.Len(res) != L+n {
		c.Violate(op+":len", enc, fmt.Sprint(L+n), fmt.Sprint(gts.Len(res)))
		return
	}
	got := map[string][]gts.Feature{}
	for _, f := range res.Features() {
		got[gen.Label(f)] = append(got[gen.Label(f)], f)
	}
	if len(res.Features()) != len(k.hostTab)+len(k.guestTab) {
		c.Violate(op+":feature-count", enc, fmt.Sprint(len(k.hostTab)+len(k.guestTab)), fmt.Sprint(len(res.Features())))
		return
	}
	// a table may list the same feature twice (two identical lines of a flat
	// file): each copy is present once.
	copies := map[string]int{}
	for _, f := range k.hostTab {
		copies[gen.Label(f)]++
	}
	for _, f := range k.hostTab {
		g := got[gen.Label(f)]
		if len(g) != copies[gen.Label(f)] {
			c.Violate(op+":host-feature-not-once", enc, fmt.Sprintf("%d x %s", copies[gen.Label(f)], gen.Label(f)), fmt.Sprint(len(g)))
			return
		}
		if len(g) == 2 && (g[1].Key != g[0].Key || !reflect.DeepEqual(g[1].Props, g[0].Props) || model.SafeString(g[1].Loc) != model.SafeString(g[0].Loc)) {
			c.Violate(op+":copies-of-one-feature-differ", enc, model.SafeString(g[0].Loc), model.SafeString(g[1].Loc))
			return
		}
		if g[0].Key != f.Key || !reflect.DeepEqual(g[0].Props, f.Props) {
			c.Violate(op+":host-feature-key-props", enc, fmt.Sprintf("%s %v", f.Key, f.Props), fmt.Sprintf("%s %v", g[0].Key, g[0].Props))
			return
		}
		exp := model.ImageInsert(model.Parts(f.Loc), k.i, n, k.embed)
		var obs []model.Part
		pp, pv, _, _ := fw.Guard(func() { obs = model.Parts(g[0].Loc) })
		if pp {
			c.Violate(op+":unreadable-location", enc, "", fmt.Sprint(pv))
			return
		}
		v, why, _ := model.CompareImage(exp, obs, model.CmpOpt{MaxCoord: L + n})
		if v != model.VOK {
			c.Violate(op+":host-loc:"+why+":"+locKind(f.Loc), enc,
				fmt.Sprintf("feature %s %s -> %s", gen.Label(f), model.SafeString(f.Loc), model.XPartsString(exp)),
				fmt.Sprintf("%s = %s", model.SafeString(g[0].Loc), model.PartsString(obs)))
			return
		}
	}
	for _, f := range k.guestTab {
		g := got[gen.Label(f)]
		if len(g) != 1 {
			c.Violate(op+":guest-feature-not-once", enc, "1 x "+gen.Label(f), fmt.Sprint(len(g)))
			return
		}
		if g[0].Key != f.Key || !reflect.DeepEqual(g[0].Props, f.Props) {
			c.Violate(op+":guest-feature-key-props", enc, fmt.Sprintf("%s %v", f.Key, f.Props), fmt.Sprintf("%s %v", g[0].Key, g[0].Props))
			return
		}
		// guest coordinates + i  ==  insertion of i residues at 0.
		exp := model.ImageInsert(model.Parts(f.Loc), 0, k.i, true)
		obs := model.Parts(g[0].Loc)
		v, why, _ := model.CompareImage(exp, obs, model.CmpOpt{MaxCoord: L + n})
		if v != model.VOK {
			c.Violate(op+":guest-loc:"+why+":"+locKind(f.Loc), enc,
				fmt.Sprintf("guest feature %s %s -> %s", gen.Label(f), model.SafeString(f.Loc), model.XPartsString(exp)),
				fmt.Sprintf("%s = %s", model.SafeString(g[0].Loc), model.PartsString(obs)))
			return
		}
	}
}

func mkHost(kind string, tab []gts.Feature, b []byte, keepOrder ...bool) gts.Sequence {
	t := gen.SortedTable(gen.CloneTable(tab))
	if len(keepOrder) > 0 && keepOrder[0] {
		// the table as listed (a file in its own order, a hand-built table).
		t = gts.FeatureSlice(gen.CloneTable(tab))
	}
	// residues with spare capacity behind them (a buffer that was appended
	// to), the spare bytes set to a value no residue has.
	bb := append(make([]byte, 0, len(b)+24), b...)
	for i := len(b); i < cap(bb); i++ {
		bb[:cap(bb)][i] = 0x7f
	}
	if kind == "genbank" {
		return seqio.GenBank{Fields: seqio.GenBankFields{LocusName: "H", Molecule: gts.DNA, Topology: gts.Linear,
			Date: seqio.Date{Year: 2020, Month: 1, Day: 1}}, Table: t, Origin: seqio.NewOrigin(bb)}
	}
	return gts.New(nil, t, bb)
}

// hostMemoryTouched looks at a host made by mkHost after an operation on it:
// its residues, and the sentinel bytes in the spare capacity behind them (what
// a neighbour carved from the same buffer would hold), are as they were.
func hostMemoryTouched(host gts.Sequence, hostB []byte) string {
	if _, isGB := host.(seqio.GenBank); isGB {
		return ""
	}
	b := host.Bytes()
	if !bytes.Equal(b, hostB) {
		return fmt.Sprintf("the argument now reads %q", b)
	}
	full := b[:cap(b)]
	for i := len(b); i < len(full); i++ {
		if full[i] != 0x7f {
			return fmt.Sprintf("byte %d behind the argument's residues changed from 0x7f to %#x", i-len(b), full[i])
		}
	}
	return ""
}

func (m c02) Run(c *fw.Ctx) {
	// A. systematic small universe.
	maxL := c.Pick(6, 7)
	for L := 1; L <= maxL; L++ {
		uni := gen.Universe(L, 3)
		hostB := gen.UniqueBytes(0, L)
		for _, loc := range uni {
			for i := 0; i <= L; i++ {
				for _, n := range []int{0, 1, 3} {
					for _, embed := range []bool{false, true} {
						if !c.NextShared() {
							continue
						}
						tab := []gts.Feature{{Key: "gene", Loc: loc, Props: gts.Props{{"label", "h0"}}}}
						guestB := gen.UniqueBytes(100, n)
						k := &insCase{hostTab: tab, hostB: hostB, guestB: guestB, i: i, embed: embed, hostKind: "basic"}
						k.host = mkHost("basic", tab, hostB)
						k.guest = gts.New(nil, nil, append([]byte(nil), guestB...))
						m.check(c, k)
					}
				}
			}
		}
		c.Exhaustive(fmt.Sprintf("Universe(L=%d,arity<=3) x i x n{0,1,3} x {Insert,Embed}", L))
	}
	// B. seeded larger cases.
	N := c.Pick(15000, 500000)
	r := c.Rng
	for it := 0; it < N; it++ {
		if !c.NextOwn() {
			// keep the PRNG stream aligned in replay mode
		}
		L := 1 + r.Intn(60)
		n := r.Intn(12)
		if r.Intn(6) == 0 {
			n = 0
		}
		o := gen.LocOpt{L: L, MaxParts: 5, MaxDepth: 3, Ambiguous: true, Overlap: r.Intn(3) == 0, Sites: true}
		tab := gen.RandTable(r, r.Intn(9), o, "h", 10)
		if len(tab) > 0 && r.Intn(6) == 0 {
			// the same feature listed twice.
			d := tab[r.Intn(len(tab))]
			tab = append(tab, gen.CloneTable([]gts.Feature{d})[0])
		}
		var gtab []gts.Feature
		if n > 0 && r.Intn(2) == 0 {
			og := gen.LocOpt{L: n, MaxParts: 3, MaxDepth: 2, Ambiguous: true, Sites: false}
			gtab = gen.RandTable(r, 1+r.Intn(3), og, "g", 10)
		}
		if n == 0 && r.Intn(2) == 0 {
			// an empty guest still carries its features (an annotated site).
			gtab = []gts.Feature{{Key: "misc_feature", Loc: gts.Between(0), Props: gts.Props{{"label", "g0"}, {"note", "site of an empty guest"}}}}
		}
		i := r.Intn(L + 1)
		if len(tab) > 0 && r.Intn(2) == 0 {
			// aim at a boundary of some feature.
			pp := model.Parts(tab[r.Intn(len(tab))].Loc)
			if len(pp) > 0 {
				p := pp[r.Intn(len(pp))]
				cand := []int{p.Lo, p.Hi, p.Lo + 1, p.Hi - 1}
				x := cand[r.Intn(len(cand))]
				if x >= 0 && x <= L {
					i = x
				}
			}
		}
		kind := "basic"
		if r.Intn(3) == 0 {
			kind = "genbank"
		}
		embed := r.Intn(2) == 0
		gk, span := r.Intn(5), 1+r.Intn(30)
		if c.Replaying() && c.Seq() != c.ReplaySeq {
			continue
		}
		hostB := gen.UniqueBytes(0, L)
		guestB := gen.UniqueBytes(100, n)
		k := &insCase{hostTab: tab, hostB: hostB, guestTab: gtab, guestB: guestB, i: i, embed: embed, hostKind: kind}
		k.host = mkHost(kind, tab, hostB)
		k.guest = gts.New(nil, gen.SortedTable(gen.CloneTable(gtab)), append([]byte(nil), guestB...))
		switch {
		case gk == 0:
			// a guest that is a GenBank record itself.
			k.guest = mkHost("genbank", gtab, guestB)
			c.Bucket("guest:genbank-record")
		case gk == 1 && n == 0:
			// a record that refers to its residues through CONTIG only: it
			// holds no residues, whatever span the CONTIG names.
			gb := mkHost("genbank", gtab, nil).(seqio.GenBank)
			gb.Fields.Contig = seqio.Contig{Accession: "U00096.3", Region: gts.Segment{0, span}}
			gb.Origin = seqio.NewOrigin(nil)
			k.guest = gb
			c.Bucket("guest:contig-only-record")
		}
		m.check(c, k)
	}
	// the commands the property names as observation points, on the real binary.
	c15Drive(c, []c15cmd{{"insert", nil}, {"insert", []string{"-e"}}, {"infix", nil}, {"infix", []string{"-e"}}}, c.Pick(96, 3000))
}
