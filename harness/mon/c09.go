package mon

import (
	"fmt"
	"math/rand"
	"strings"

	"github.com/go-gts/gts"

	"verifharness/fw"
)

// C09 — Minimize and Invert partition the sequence exactly.
//
// Reference model: a bitmap over [0,n). A segment {h,t} covers the residues
// [min(h,t), max(h,t)); a collection covers the union. The maximal runs of the
// bitmap are the only answer Minimize may give (forward, increasing, disjoint,
// non-abutting, exact union determine it uniquely); the inversions are judged
// on the residues they emit (each complement residue exactly once, no covered
// residue) and on the shape the statement names (segments; for the circular
// form one region reading across the origin when both ends are free).
type c09 struct{ base }

func init() { register(c09{}) }

func (c09) ID() string { return "C09" }

func (c09) Rule() string {
	return "one case = (n, region argument); Minimize, InvertLinear and InvertCircular are all run on it. " +
		"systematic: every ordered tuple of 1..3 non-empty oriented segments over [0,n] for n<=10 (thorough 13), of 4 segments for n<=4 (thorough 6), " +
		"region shape (bare Segment / flat Regions / nested Regions) rotated over the tuples and fully crossed for n<=4 (thorough 5); " +
		"zero-length sweep: tuples of 1..3 segments with at least one zero-length segment, n<=5 (thorough 7). " +
		"seeded: n in 1..60, 1..6 regions x 1..4 segments, segments derived from earlier ones (abutting left/right, contained, containing, partially overlapping, equal, touching the window ends), " +
		"scenarios: tiling that covers [0,n) completely, window avoiding both ends / only 0 / only n, short or long segments, orientation all-forward / all-reverse / mixed, regions wrapped as Segment, Regions or deeper nested Regions, shuffled. " +
		"Oracle: bitmap model. Minimize == maximal runs of the covered bitmap (forward, prev.end < next.start, union exact; a zero-length output is tolerated only at the position of a zero-length input segment and only when it abuts nothing). " +
		"InvertLinear: every region is one non-empty forward segment inside [0,n), no residue twice, residues == complement of covered. " +
		"InvertCircular: same residues; when covered is non-empty and neither residue 0 nor n-1 is covered exactly one region reads [x,n) then [0,y) and all others are single segments, otherwise all are single segments " +
		"(order of the regions in the result is not judged; with a zero-length input segment sitting on 0 or n, or nothing covered, merged and unmerged are both accepted). " +
		"non-trivial: at least two input segments and at least one covered residue; distinct: canonical text 'n=<n> r=<nested list of (head,tail)>'."
}

func (c09) RequiredBuckets(tier string) []string {
	return []string{
		"orient:fwd", "orient:rev", "orient:mixed",
		"rel:overlap", "rel:nested", "rel:abutting", "rel:disjoint",
		"touches-0", "touches-n", "covers-all",
		"circular:merged-ends", "circular:not-merged",
		"input:nested-regions", "input:bare-segment", "input:zero-length",
		"regions|1", "regions|6", "region-segments|4", "results-held-across-calls", "coordinates:beyond-2^32",
	}
}

// ---- model ---------------------------------------------------------------

type c09Model struct {
	n       int
	segs    []gts.Segment // flattened input, as given
	cov     []bool
	ncov    int
	zeroAt  map[int]bool // positions of zero-length input segments
	depth   int          // nesting depth of Regions (0 = bare segment)
	outside bool         // a coordinate outside [0,n]
}

// c09Flatten is the harness's own walk over a Region tree.
func c09Flatten(r gts.Region, depth int, out *[]gts.Segment, maxDepth *int) bool {
	switch v := r.(type) {
	case gts.Segment:
		*out = append(*out, v)
		return true
	case gts.Regions:
		if depth+1 > *maxDepth {
			*maxDepth = depth + 1
		}
		for _, x := range v {
			if !c09Flatten(x, depth+1, out, maxDepth) {
				return false
			}
		}
		return true
	}
	return false
}

func c09Enc(r gts.Region, sb *strings.Builder) {
	switch v := r.(type) {
	case gts.Segment:
		fmt.Fprintf(sb, "(%d,%d)", v[0], v[1])
	case gts.Regions:
		sb.WriteByte('[')
		for i, x := range v {
			if i > 0 {
				sb.WriteByte(' ')
			}
			c09Enc(x, sb)
		}
		sb.WriteByte(']')
	default:
		fmt.Fprintf(sb, "<%T>", r)
	}
}

func c09EncRegions(rr []gts.Region) string {
	var sb strings.Builder
	sb.WriteByte('{')
	for i, r := range rr {
		if i > 0 {
			sb.WriteByte(' ')
		}
		c09Enc(r, &sb)
	}
	sb.WriteByte('}')
	return sb.String()
}

func c09EncSegs(ss []gts.Segment) string {
	var sb strings.Builder
	sb.WriteByte('{')
	for i, s := range ss {
		if i > 0 {
			sb.WriteByte(' ')
		}
		fmt.Fprintf(&sb, "(%d,%d)", s[0], s[1])
	}
	sb.WriteByte('}')
	return sb.String()
}

func c09Norm(s gts.Segment) (int, int) {
	if s[1] < s[0] {
		return s[1], s[0]
	}
	return s[0], s[1]
}

func c09Build(n int, arg gts.Region) (*c09Model, bool) {
	m := &c09Model{n: n, cov: make([]bool, n), zeroAt: map[int]bool{}}
	if !c09Flatten(arg, 0, &m.segs, &m.depth) {
		return nil, false
	}
	for _, s := range m.segs {
		lo, hi := c09Norm(s)
		if lo < 0 || hi > n {
			m.outside = true
			continue
		}
		if lo == hi {
			m.zeroAt[lo] = true
		}
		for p := lo; p < hi; p++ {
			if !m.cov[p] {
				m.cov[p] = true
				m.ncov++
			}
		}
	}
	return m, true
}

// c09Runs returns the maximal runs of positions whose bit equals val.
func c09Runs(bits []bool, val bool) []gts.Segment {
	var out []gts.Segment
	start := -1
	for p := 0; p <= len(bits); p++ {
		in := p < len(bits) && bits[p] == val
		if in && start < 0 {
			start = p
		}
		if !in && start >= 0 {
			out = append(out, gts.Segment{start, p})
			start = -1
		}
	}
	return out
}

func c09Positions(bits []bool, val bool) string {
	return c09EncSegs(c09Runs(bits, val))
}

// ---- oracles -------------------------------------------------------------

// checkMin judges the result of Minimize. Returns "" when it conforms.
func (m *c09Model) checkMin(out []gts.Segment) (class, exp, obs string) {
	want := c09Runs(m.cov, true)
	exp = "maximal runs of the covered residues " + c09EncSegs(want)
	obs = c09EncSegs(out)
	for _, s := range out {
		if s[1] < s[0] {
			return "Minimize:reverse-segment", exp, obs
		}
		if s[0] < 0 || s[1] > m.n {
			return "Minimize:out-of-range", exp, obs
		}
		if s[0] == s[1] && !m.zeroAt[s[0]] {
			return "Minimize:empty-segment", exp, obs
		}
	}
	cnt := make([]int, m.n)
	for _, s := range out {
		for p := s[0]; p < s[1]; p++ {
			cnt[p]++
		}
	}
	for p := 0; p < m.n; p++ {
		if m.cov[p] && cnt[p] == 0 {
			return "Minimize:loses-covered-residue", exp, fmt.Sprintf("%s (residue %d missing)", obs, p)
		}
	}
	for p := 0; p < m.n; p++ {
		if !m.cov[p] && cnt[p] > 0 {
			return "Minimize:emits-uncovered-residue", exp, fmt.Sprintf("%s (residue %d is not covered by the input)", obs, p)
		}
	}
	for p := 0; p < m.n; p++ {
		if cnt[p] > 1 {
			return "Minimize:segments-overlap", exp, fmt.Sprintf("%s (residue %d in %d segments)", obs, p, cnt[p])
		}
	}
	for i := 1; i < len(out); i++ {
		prev, s := out[i-1], out[i]
		if prev[1] == s[0] {
			return "Minimize:abutting-segments", exp, fmt.Sprintf("%s (%v abuts %v)", obs, prev, s)
		}
		if prev[1] > s[0] {
			return "Minimize:not-increasing", exp, fmt.Sprintf("%s (%v before %v)", obs, prev, s)
		}
	}
	// the conditions above determine the non-empty segments uniquely.
	var nz []gts.Segment
	for _, s := range out {
		if s[0] < s[1] {
			nz = append(nz, s)
		}
	}
	if len(nz) != len(want) {
		return "Minimize:not-maximal-runs", exp, obs
	}
	for i := range nz {
		if nz[i] != want[i] {
			return "Minimize:not-maximal-runs", exp, obs
		}
	}
	return "", "", ""
}

const (
	c09MergeNo = iota
	c09MergeYes
	c09MergeEither
)

func (m *c09Model) expectMerge() int {
	if m.ncov == 0 {
		return c09MergeEither
	}
	if m.cov[0] || m.cov[m.n-1] {
		return c09MergeNo
	}
	if m.zeroAt[0] || m.zeroAt[m.n] {
		return c09MergeEither
	}
	return c09MergeYes
}

// checkInv judges an inversion. circular selects the InvertCircular shape rule.
func (m *c09Model) checkInv(fn string, out []gts.Region, circular bool) (class, exp, obs string) {
	free := c09Runs(m.cov, false)
	exp = "complement of the covered residues " + c09EncSegs(free)
	merge := c09MergeNo
	if circular {
		merge = m.expectMerge()
		switch merge {
		case c09MergeYes:
			exp += fmt.Sprintf(", the end pieces as one region reading [x,%d) then [0,y)", m.n)
		case c09MergeNo:
			exp += ", every region a single segment (an end of the sequence is covered)"
		}
	} else {
		exp += ", every region a single segment"
	}
	obs = c09EncRegions(out)
	cnt := make([]int, m.n)
	wraps, multi := 0, 0
	for _, r := range out {
		var ss []gts.Segment
		d := 0
		if !c09Flatten(r, 0, &ss, &d) {
			return fn + ":unknown-region-type", exp, obs
		}
		if len(ss) == 0 {
			return fn + ":empty-region", exp, obs
		}
		for _, s := range ss {
			if s[0] < 0 || s[1] < 0 || s[0] > m.n || s[1] > m.n {
				return fn + ":out-of-range", exp, obs
			}
			if s[0] == s[1] {
				return fn + ":empty-segment", exp, obs
			}
			if s[1] < s[0] {
				return fn + ":reverse-segment", exp, obs
			}
			for p := s[0]; p < s[1]; p++ {
				cnt[p]++
			}
		}
		if len(ss) > 1 {
			multi++
			// a region of several segments must read contiguously with exactly one
			// step across the origin.
			w, bad := 0, false
			for i := 1; i < len(ss); i++ {
				switch {
				case ss[i-1][1] == m.n && ss[i][0] == 0:
					w++
				case ss[i-1][1] == ss[i][0]:
				default:
					bad = true
				}
			}
			if !circular {
				return fn + ":region-not-a-segment", exp, obs
			}
			if bad || w != 1 {
				return fn + ":merged-region-does-not-read-across-origin", exp, obs
			}
			wraps++
		}
	}
	for p := 0; p < m.n; p++ {
		if cnt[p] > 1 {
			return fn + ":residue-twice", exp, fmt.Sprintf("%s (residue %d emitted %d times)", obs, p, cnt[p])
		}
	}
	for p := 0; p < m.n; p++ {
		if m.cov[p] && cnt[p] > 0 {
			return fn + ":emits-covered-residue", exp, fmt.Sprintf("%s (residue %d is covered by the input)", obs, p)
		}
	}
	for p := 0; p < m.n; p++ {
		if !m.cov[p] && cnt[p] == 0 {
			return fn + ":loses-residue", exp, fmt.Sprintf("%s (residue %d neither in the input nor in the inversion)", obs, p)
		}
	}
	if circular {
		switch merge {
		case c09MergeYes:
			if wraps == 0 {
				return fn + ":ends-not-merged", exp, obs
			}
			if wraps > 1 {
				return fn + ":several-merged-regions", exp, obs
			}
		case c09MergeNo:
			if wraps > 0 {
				return fn + ":unexpected-merge", exp, obs
			}
		default:
			if wraps > 1 {
				return fn + ":several-merged-regions", exp, obs
			}
		}
	}
	return "", "", ""
}

// ---- one case ------------------------------------------------------------

func (m c09) check(c *fw.Ctx, n int, arg gts.Region) {
	var sb strings.Builder
	fmt.Fprintf(&sb, "n=%d r=", n)
	c09Enc(arg, &sb)
	enc := sb.String()
	md, ok := c09Build(n, arg)
	if !ok || md.outside || n < 1 || len(md.segs) == 0 {
		c.Skip("generated case outside the quantifier (coordinates outside [0,n], n<1 or no segment)")
		return
	}
	c.Begin(enc)
	c.Count(enc, len(md.segs) >= 2 && md.ncov > 0)

	// buckets.
	fwd, rev, zero := 0, 0, 0
	for _, s := range md.segs {
		switch {
		case s[0] < s[1]:
			fwd++
		case s[1] < s[0]:
			rev++
		default:
			zero++
		}
	}
	switch {
	case fwd > 0 && rev > 0:
		c.Bucket("orient:mixed")
	case rev > 0:
		c.Bucket("orient:rev")
	case fwd > 0:
		c.Bucket("orient:fwd")
	}
	if zero > 0 {
		c.Bucket("input:zero-length")
	}
	var rel [5]bool
	for i := 0; i < len(md.segs); i++ {
		al, ah := c09Norm(md.segs[i])
		if al == ah {
			continue
		}
		for j := i + 1; j < len(md.segs); j++ {
			bl, bh := c09Norm(md.segs[j])
			if bl == bh {
				continue
			}
			switch {
			case ah < bl || bh < al:
				rel[0] = true
			case ah == bl || bh == al:
				rel[1] = true
			case al == bl && ah == bh:
				rel[2] = true
				rel[4] = true
			case (al <= bl && bh <= ah) || (bl <= al && ah <= bh):
				rel[2] = true
			default:
				rel[3] = true
			}
		}
	}
	for i, name := range []string{"rel:disjoint", "rel:abutting", "rel:nested", "rel:overlap", "rel:duplicate"} {
		if rel[i] {
			c.Bucket(name)
		}
	}
	if md.ncov > 0 && md.cov[0] {
		c.Bucket("touches-0")
	}
	if md.ncov > 0 && md.cov[n-1] {
		c.Bucket("touches-n")
	}
	switch {
	case md.ncov == n:
		c.Bucket("covers-all")
	case md.ncov == 0:
		c.Bucket("covers-nothing")
	}
	switch md.depth {
	case 0:
		c.Bucket("input:bare-segment")
	case 1:
		c.Bucket("input:flat-regions")
	default:
		c.Bucket("input:nested-regions")
		if md.depth >= 3 {
			c.Bucket("input:depth>=3")
		}
	}
	if top, ok := arg.(gts.Regions); ok {
		if len(top) <= 6 {
			c.Bucket(fmt.Sprintf("regions|%d", len(top)))
		}
		for _, r := range top {
			var ss []gts.Segment
			d := 0
			c09Flatten(r, 0, &ss, &d)
			if len(ss) == 4 {
				c.Bucket("region-segments|4")
				break
			}
		}
	}
	switch md.expectMerge() {
	case c09MergeYes:
		c.Bucket("circular:merged-ends")
	case c09MergeNo:
		c.Bucket("circular:not-merged")
	default:
		c.Bucket("circular:dont-care")
	}

	// the code under test.
	var mn []gts.Segment
	p, val, site, stack := fw.Guard(func() { mn = gts.Minimize(arg) })
	if p {
		c.ViolateX("Minimize:"+panicClass(site, val), enc, "no panic", fmt.Sprint(val), stack, nil)
	} else if cl, exp, obs := md.checkMin(mn); cl != "" {
		c.Violate(cl, enc, exp, obs)
	}
	var il []gts.Region
	p, val, site, stack = fw.Guard(func() { il = gts.InvertLinear(arg, n) })
	if p {
		c.ViolateX("InvertLinear:"+panicClass(site, val), enc, "no panic", fmt.Sprint(val), stack, nil)
	} else if cl, exp, obs := md.checkInv("InvertLinear", il, false); cl != "" {
		c.Violate(cl, enc, exp, obs)
	}
	var ic []gts.Region
	p, val, site, stack = fw.Guard(func() { ic = gts.InvertCircular(arg, n) })
	if p {
		c.ViolateX("InvertCircular:"+panicClass(site, val), enc, "no panic", fmt.Sprint(val), stack, nil)
	} else if cl, exp, obs := md.checkInv("InvertCircular", ic, true); cl != "" {
		c.Violate(cl, enc, exp, obs)
	}

	// chromosome-scale coordinates: every coordinate and n multiplied by a
	// large factor (beyond 2^31, beyond 2^32) - the partition scales with it.
	if c09ScaleTick++; c09ScaleTick%5 == 0 && n > 0 {
		for _, f := range []int{3000000001, 1 << 33} {
			var scale func(r gts.Region) gts.Region
			scale = func(r gts.Region) gts.Region {
				switch v := r.(type) {
				case gts.Segment:
					return gts.Segment{v[0] * f, v[1] * f}
				case gts.Regions:
					out := make(gts.Regions, len(v))
					for i := range v {
						out[i] = scale(v[i])
					}
					return out
				}
				return r
			}
			big := scale(arg)
			var bmn []gts.Segment
			var bil, bic []gts.Region
			if p, val, site, stack := fw.Guard(func() {
				bmn = gts.Minimize(big)
				bil = gts.InvertLinear(big, n*f)
				bic = gts.InvertCircular(big, n*f)
			}); p {
				c.ViolateX("scaled:"+panicClass(site, val), enc, "no panic with every coordinate multiplied by "+fmt.Sprint(f), fmt.Sprint(val), stack, nil)
				break
			}
			want := make([]gts.Segment, len(mn))
			for i, s := range mn {
				want[i] = gts.Segment{s[0] * f, s[1] * f}
			}
			wil, wic := make([]gts.Region, len(il)), make([]gts.Region, len(ic))
			for i := range il {
				wil[i] = scale(il[i])
			}
			for i := range ic {
				wic[i] = scale(ic[i])
			}
			got := c09EncSegs(bmn) + " | " + c09EncRegions(bil) + " | " + c09EncRegions(bic)
			exp := c09EncSegs(want) + " | " + c09EncRegions(wil) + " | " + c09EncRegions(wic)
			if got != exp {
				c.Violate("scaled:results-do-not-scale", enc+fmt.Sprintf("  with every coordinate and n multiplied by %d", f), exp, got)
				break
			}
			c.Bucket("coordinates:beyond-2^32")
		}
	}

	// results stay what they were: the values returned for the previous case
	// are looked at again now that three more calls have been made (a caller
	// that collects the segments of several regions holds them this long).
	if h := c09Held; h != nil {
		now := c09EncSegs(h.mn) + " | " + c09EncRegions(h.il) + " | " + c09EncRegions(h.ic)
		if now != h.text {
			c.Violate("result-changed-by-later-call", h.enc+"  then  "+enc, h.text, now)
		}
		c.Bucket("results-held-across-calls")
	}
	c09Held = &c09Keep{enc: enc, mn: mn, il: il, ic: ic, text: c09EncSegs(mn) + " | " + c09EncRegions(il) + " | " + c09EncRegions(ic)}
}

// c09Keep holds the values returned for one case until the next case has run.
type c09Keep struct {
	enc  string
	mn   []gts.Segment
	il   []gts.Region
	ic   []gts.Region
	text string
}

var c09Held *c09Keep

var c09ScaleTick int

// ---- systematic sweep ----------------------------------------------------

var c09Shapes = map[int][]func(s []gts.Segment) gts.Region{
	1: {
		func(s []gts.Segment) gts.Region { return s[0] },
		func(s []gts.Segment) gts.Region { return gts.Regions{s[0]} },
	},
	2: {
		func(s []gts.Segment) gts.Region { return gts.Regions{s[0], s[1]} },
		func(s []gts.Segment) gts.Region { return gts.Regions{gts.Regions{s[0]}, s[1]} },
		func(s []gts.Segment) gts.Region { return gts.Regions{gts.Regions{s[0], s[1]}} },
	},
	3: {
		func(s []gts.Segment) gts.Region { return gts.Regions{s[0], s[1], s[2]} },
		func(s []gts.Segment) gts.Region { return gts.Regions{s[0], gts.Regions{s[1], s[2]}} },
		func(s []gts.Segment) gts.Region { return gts.Regions{gts.Regions{s[0], s[1]}, s[2]} },
		func(s []gts.Segment) gts.Region {
			return gts.Regions{gts.Regions{s[0]}, gts.Regions{s[1]}, gts.Regions{s[2]}}
		},
	},
	4: {
		func(s []gts.Segment) gts.Region { return gts.Regions{s[0], s[1], s[2], s[3]} },
		func(s []gts.Segment) gts.Region {
			return gts.Regions{gts.Regions{s[0], s[1]}, gts.Regions{s[2], s[3]}}
		},
		func(s []gts.Segment) gts.Region {
			return gts.Regions{s[0], gts.Regions{s[1], gts.Regions{s[2], s[3]}}}
		},
		func(s []gts.Segment) gts.Region { return gts.Regions{gts.Regions{s[0], s[1], s[2], s[3]}} },
	},
}

func c09AllSegs(n int, zero bool) []gts.Segment {
	var out []gts.Segment
	for h := 0; h <= n; h++ {
		for t := 0; t <= n; t++ {
			if h == t && !zero {
				continue
			}
			out = append(out, gts.Segment{h, t})
		}
	}
	return out
}

// sweep enumerates every ordered k-tuple over segs (every shard walks the same
// list; NextShared decides who executes a case).
func (m c09) sweep(c *fw.Ctx, n, k int, segs []gts.Segment, needZero, allShapes bool) {
	idx := make([]int, k)
	tuple := make([]gts.Segment, k)
	shapes := c09Shapes[k]
	cnt := 0
	for {
		ok := !needZero
		for j, i := range idx {
			tuple[j] = segs[i]
			if segs[i][0] == segs[i][1] {
				ok = true
			}
		}
		if ok {
			if allShapes {
				for _, sh := range shapes {
					if c.NextShared() {
						m.check(c, n, sh(append([]gts.Segment(nil), tuple...)))
					}
				}
			} else {
				if c.NextShared() {
					m.check(c, n, shapes[cnt%len(shapes)](append([]gts.Segment(nil), tuple...)))
				}
				cnt++
			}
		}
		j := k - 1
		for j >= 0 {
			idx[j]++
			if idx[j] < len(segs) {
				break
			}
			idx[j] = 0
			j--
		}
		if j < 0 {
			return
		}
	}
}

// ---- seeded generator ----------------------------------------------------

type c09iv struct{ lo, hi int }

func c09GenCase(r *rand.Rand) (int, gts.Region) {
	n := 1 + r.Intn(60)
	if r.Intn(4) == 0 {
		n = 1 + r.Intn(12)
	}
	nReg := 1 + r.Intn(6)
	if r.Intn(8) == 0 {
		nReg = 6
	}
	sizes := make([]int, nReg)
	T := 0
	for i := range sizes {
		sizes[i] = 1 + r.Intn(4)
		T += sizes[i]
	}
	scen := r.Intn(8)
	short := r.Intn(2) == 0
	wlo, whi := 0, n
	switch {
	case scen == 1 && n >= 3: // keep both ends free
		wlo = 1 + r.Intn(n-2)
		whi = wlo + 1 + r.Intn(n-1-wlo)
	case scen == 2 && n >= 2: // keep 0 free
		wlo = 1 + r.Intn(n-1)
	case scen == 3 && n >= 2: // keep n free
		whi = 1 + r.Intn(n-1)
	}
	length := func(max int) int {
		if max < 1 {
			return 0
		}
		if short && max > 4 {
			max = 4
		}
		return 1 + r.Intn(max)
	}
	randIv := func() c09iv {
		lo := wlo + r.Intn(whi-wlo)
		return c09iv{lo, lo + length(whi-lo)}
	}
	var ivs []c09iv
	if scen == 0 {
		// a tiling of [0,n) with optional overlaps.
		mcnt := T
		if mcnt > n {
			mcnt = n
		}
		cuts := r.Perm(n - 1)[:mcnt-1]
		isCut := make([]bool, n+1)
		for _, x := range cuts {
			isCut[x+1] = true
		}
		isCut[n] = true
		start := 0
		for p := 1; p <= n; p++ {
			if isCut[p] {
				lo := start - []int{0, 0, 1, 2}[r.Intn(4)]
				if lo < 0 {
					lo = 0
				}
				ivs = append(ivs, c09iv{lo, p})
				start = p
			}
		}
	}
	for len(ivs) < T {
		if len(ivs) == 0 {
			ivs = append(ivs, randIv())
			continue
		}
		e := ivs[r.Intn(len(ivs))]
		var v c09iv
		okv := false
		switch r.Intn(11) {
		case 0: // abut on the right
			if e.hi < whi {
				v, okv = c09iv{e.hi, e.hi + length(whi-e.hi)}, true
			}
		case 1: // abut on the left
			if e.lo > wlo {
				v, okv = c09iv{e.lo - length(e.lo-wlo), e.lo}, true
			}
		case 2: // contained
			lo := e.lo + r.Intn(e.hi-e.lo)
			v, okv = c09iv{lo, lo + 1 + r.Intn(e.hi-lo)}, true
		case 3: // containing
			v, okv = c09iv{e.lo - r.Intn(e.lo-wlo+1), e.hi + r.Intn(whi-e.hi+1)}, true
		case 4: // partial overlap to the right
			if e.hi-e.lo >= 2 && e.hi < whi {
				lo := e.lo + 1 + r.Intn(e.hi-e.lo-1)
				v, okv = c09iv{lo, e.hi + length(whi-e.hi)}, true
			}
		case 5: // partial overlap to the left
			if e.hi-e.lo >= 2 && e.lo > wlo {
				hi := e.lo + 1 + r.Intn(e.hi-e.lo-1)
				v, okv = c09iv{e.lo - length(e.lo-wlo), hi}, true
			}
		case 6: // equal
			v, okv = e, true
		case 7: // touches the window start
			v, okv = c09iv{wlo, wlo + length(whi-wlo)}, true
		case 8: // touches the window end
			v, okv = c09iv{whi - length(whi-wlo), whi}, true
		}
		if !okv || v.lo >= v.hi || v.lo < wlo || v.hi > whi {
			v = randIv()
		}
		ivs = append(ivs, v)
	}
	r.Shuffle(len(ivs), func(i, j int) { ivs[i], ivs[j] = ivs[j], ivs[i] })
	omode := r.Intn(5)
	segs := make([]gts.Segment, len(ivs))
	for i, v := range ivs {
		rv := false
		switch omode {
		case 0:
		case 1:
			rv = true
		default:
			rv = r.Intn(2) == 0
		}
		if rv {
			segs[i] = gts.Segment{v.hi, v.lo}
		} else {
			segs[i] = gts.Segment{v.lo, v.hi}
		}
	}
	regs := make(gts.Regions, 0, nReg)
	at := 0
	for _, k := range sizes {
		part := segs[at : at+k]
		at += k
		var reg gts.Region
		switch {
		case k == 1 && r.Intn(2) == 0:
			reg = part[0]
		case k >= 2 && r.Intn(3) == 0:
			j := 1 + r.Intn(k-1)
			inner := gts.Regions{}
			for _, s := range part[j:] {
				inner = append(inner, s)
			}
			outer := gts.Regions{}
			for _, s := range part[:j] {
				outer = append(outer, s)
			}
			if r.Intn(2) == 0 {
				outer = append(outer, inner)
			} else {
				outer = append(gts.Regions{inner}, outer...)
			}
			reg = outer
		default:
			rr := gts.Regions{}
			for _, s := range part {
				rr = append(rr, s)
			}
			reg = rr
		}
		regs = append(regs, reg)
	}
	var arg gts.Region = regs
	if nReg == 1 && r.Intn(2) == 0 {
		arg = regs[0]
	}
	return n, arg
}

func (m c09) Run(c *fw.Ctx) {
	// outside the quantifier (1..6 regions): the empty collection. Observed for
	// the record only.
	if c.Shard == 0 && !c.Replaying() {
		c.Skip("empty region collection (outside the quantifier: 1..6 regions, each 1..4 segments)")
		p, val, _, _ := fw.Guard(func() { gts.InvertCircular(gts.Regions{}, 5) })
		if p {
			c.Note(fmt.Sprintf("outside the quantifier, not judged: InvertCircular(Regions{}, 5) panics (%v): it indexes the first minimized segment of an empty list", val))
		}
	}

	// A. systematic.
	n3 := c.Pick(10, 13)
	for n := 1; n <= n3; n++ {
		segs := c09AllSegs(n, false)
		for k := 1; k <= 3; k++ {
			m.sweep(c, n, k, segs, false, false)
		}
		c.Exhaustive(fmt.Sprintf("n=%d: all ordered tuples of 1..3 non-empty oriented segments over [0,n] (region shape rotated)", n))
	}
	n4 := c.Pick(4, 6)
	for n := 1; n <= n4; n++ {
		m.sweep(c, n, 4, c09AllSegs(n, false), false, false)
		c.Exhaustive(fmt.Sprintf("n=%d: all ordered 4-tuples of non-empty oriented segments over [0,n] (region shape rotated)", n))
	}
	ns := c.Pick(4, 5)
	for n := 1; n <= ns; n++ {
		segs := c09AllSegs(n, false)
		for k := 1; k <= 3; k++ {
			m.sweep(c, n, k, segs, false, true)
		}
		c.Exhaustive(fmt.Sprintf("n=%d: all ordered tuples of 1..3 non-empty oriented segments x every region shape (bare/flat/nested)", n))
	}
	nz := c.Pick(5, 7)
	for n := 1; n <= nz; n++ {
		segs := c09AllSegs(n, true)
		for k := 1; k <= 3; k++ {
			m.sweep(c, n, k, segs, true, false)
		}
		c.Exhaustive(fmt.Sprintf("n=%d: all ordered tuples of 1..3 oriented segments with at least one zero-length segment", n))
	}

	// B. seeded.
	N := c.Pick(40000, 1500000)
	r := c.Rng
	for it := 0; it < N; it++ {
		c.NextOwn()
		n, arg := c09GenCase(r)
		if c.Replaying() && c.Seq() != c.ReplaySeq {
			continue
		}
		m.check(c, n, arg)
	}
}
