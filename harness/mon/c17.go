package mon

import (
	"bytes"
	"errors"
	"fmt"
	"math/rand"
	"strings"

	"github.com/go-gts/gts"
	"github.com/go-gts/gts/seqio"

	"verifharness/fw"
	"verifharness/model"
)

// C17 — FASTA output reads back identically; conversion to FASTA keeps
// residues.
//
// Model: the records themselves (description, residues) plus the closed-form
// text layout of model/c17_layout.go. Nothing of /repo is used to compute an
// expectation.
type c17 struct{ base }

func init() { register(c17{}) }

func (c17) ID() string { return "C17" }

func (c17) Rule() string {
	return "a case is a stream of k (1..5) records written back to back with seqio.NewWriter(buf, FastaFile).WriteSeq (for streams without GenBank records also through the format-detecting writer), then read with seqio.NewAutoScanner from the written text and from its CRLF twin. " +
		"Record inputs: seqio.Fasta, *seqio.Fasta, gts.New(string info), gts.New(fmt.Stringer info), seqio.GenBank (plain, Fields.Region set to a gts.Segment, obtained by gts.Slice with non-negative and negative indices, by slicing such a slice again (the region suffix may count in either record but spans the residues written), or a CONTIG-only record without ORIGIN block: zero residues). " +
		"systematic (every shard enumerates, NextShared): A. every length n in 0..300 (thorough 0..1400) x k in 1..5 x position of the length-n record in the stream, the other records drawn from the boundary lengths {0,1,7,35,69,70,71,139,140,141,210,299}, kinds/descriptions/versions/definitions rotated from fixed pools; B. every residue byte 33..126 except '>' as a homogeneous 71-residue record and in cyclic-alphabet residues; C. description pool (empty, '>', spaces, tabs, leading/trailing blanks, 70 and 200 columns, UTF-8, 'LOCUS', '//') x boundary lengths x the four non-GenBank input kinds x k in {1,3}; D. version pool x definition pool x {plain, region, slice, slice with negative indices} x boundary lengths. " +
		"seeded (NextOwn): k uniform 1..5, lengths <= 300 (thorough <= 5000) biased to multiples of 70 +-1 and 0, random kinds, descriptions over bytes 32..126 and tab (no line breaks), residues over 33..126 minus '>' or a DNA alphabet. " +
		"Oracle: WriteSeq returns no error; the bytes written for each record are '>'+desc+LF followed by the residues in lines of exactly 70 columns (last line shorter), each ended by one LF (zero residues: empty line or nothing; exact multiple of 70: an extra blank line is tolerated); reading the LF text and the CRLF twin yields exactly k records, in order, each with the same description and the same residues when looked at after the whole stream was scanned, and Err()==nil; for GenBank inputs desc == Version + [':'(head+1)'-'tail] + ' ' + Definition and residues == the record's residues. " +
		"Outside the quantifier and never generated: descriptions/versions/definitions containing LF or CR, residues containing '>' or white space, wrap-around slices. " +
		"CLI layer: gts clear|reverse|complement|select gene|sort -F fasta --no-cache on streams of 1..3 generated GenBank records (lengths on the 70-column boundaries; CONTIG-only records for clear): the text is one FASTA record per input record with description VERSION+' '+DEFINITION and the residues the command implies in the exact layout, and fed back through gts clear -F fasta reads back the same; with -o name.{gb,genbank,fasta,txt,} the file holds the same bytes; for the other record-writing subcommands (delete, extract, rotate, split, insert, define, search, join, select, pick, sort) -F fasta prints well-formed FASTA, -F genbank prints GenBank, and -o writes exactly what stdout would get, whatever the extension; every third case also with the cache on. " +
		"non-trivial: the stream has >= 2 records or a record longer than one line (n > 70); distinct: canonical case text (kinds, descriptions, lengths, residue generator parameters, writer). A third of the genbank / genbank-region values are the reader's value of the record's own flat-file text: LF, CRLF, and with secondary accessions in front of REGION. gts define / search / select -F fasta leave the residues of every record alone (spacer records of n/s/w among them). The LF and CRLF texts are also read without their final line terminator."
}

func (c17) RequiredBuckets(tier string) []string {
	return []string{
		"len%70=0", "len%70=1", "len%70=69", "len=0", "len>70",
		"k=1", "k=2", "k=3", "k=4", "k=5",
		"LF", "CRLF", "no-final-line-terminator",
		"desc:empty", "desc:has-gt", "desc:has-space", "desc:has-tab",
		"genbank:plain", "genbank:region", "genbank:slice", "genbank:slice-negative-index",
		"kind:fasta", "kind:fasta-ptr", "kind:basic-string", "kind:basic-stringer",
		"kind:genbank", "kind:genbank-region", "kind:genbank-slice", "kind:genbank-contig", "kind:genbank-slice2",
		"writer:fasta", "writer:auto",
		"alphabet:single-byte-record", "residues:cyclic-alphabet", "residues:random",
		"empty-record-not-last", "multiple-of-70-not-last", "after-a-failed-write",
		"cli:fasta clear", "cli:fasta reverse", "cli:fasta complement", "cli:fasta select", "cli:fasta sort", "cli:fasta pick", "cli:fasta -o", "cli:fasta cache-on", "cli:plumbing delete", "cli:plumbing extract", "cli:plumbing insert", "cli:plumbing split", "cli:plumbing join", "cli:plumbing search", "cli:plumbing stream", "cli:fasta stream", "cli:fasta len%70=0", "cli:fasta CONTIG-only record",
	}
}

const c17KF = "fasta-crlf-keeps-cr"

func (c17) Findings() []fw.Finding {
	return []fw.Finding{{
		ID:   c17KF,
		What: "FASTA text with CRLF line ends reads back with a '\\r' kept after every residue line (FastaParser strips only '\\n' from the residue block)",
		Witness: func() (bool, string) {
			var buf bytes.Buffer
			if _, err := seqio.NewWriter(&buf, seqio.FastaFile).WriteSeq(seqio.Fasta{Desc: "d", Data: []byte("ACGT")}); err != nil {
				return false, "write error: " + err.Error()
			}
			text := strings.ReplaceAll(buf.String(), "\n", "\r\n")
			sc := seqio.NewAutoScanner(strings.NewReader(text))
			if !sc.Scan() {
				return true, fmt.Sprintf("%q does not scan: %v", text, sc.Err())
			}
			got := sc.Value().Bytes()
			return !bytes.Equal(got, []byte("ACGT")), fmt.Sprintf("%q reads back residues %q, want \"ACGT\"", text, got)
		},
	}}
}

// c17Alpha is the residue alphabet of the quantifier: printable, no '>'.
var c17Alpha = func() []byte {
	var a []byte
	for b := 33; b <= 126; b++ {
		if b != '>' {
			a = append(a, byte(b))
		}
	}
	return a
}()

type c17Stringer struct{ s string }

func (s c17Stringer) String() string { return s.s }

var c17Kinds = []string{"fasta", "fasta-ptr", "basic-string", "basic-stringer", "genbank", "genbank-region", "genbank-slice"}

var c17DescPool = []string{
	"", ">", "x>y", ">>", "a b", " ", "\t", "a\tb", " lead", "trail ",
	"id1 some description text", strings.Repeat("x", 70), strings.Repeat("long description ", 12) + ">",
	"LOCUS       X", "//", "\xc3\xa9 \xce\x94", ";comment", "a  b", "gi|123|ref|NC_1.1| thing", "\ttab lead", "tab trail\t",
}

var c17VerPool = []string{"NC_001422.1", "X", "AB123456.2", "", "v>1", "two words"}

var c17DefPool = []string{
	"Coliphage phi-X174, complete genome.", "", "d", "has > inside", "tab\there", " two  spaces ",
	strings.Repeat("a very long definition ", 6) + "end.",
	// GenBank definitions are wrapped over several lines in real files; the
	// FASTA description is one line, line breaks written as blanks.
	"wrapped over\ntwo lines", "wrapped over\nthree lines\nof a definition", "four\nlines\nof\ntext.",
}

var c17OtherLens = []int{0, 1, 69, 70, 71, 139, 140, 141, 210, 7, 35, 299}

// c17rec is the specification of one record of a stream.
type c17rec struct {
	kind   string
	desc   string // non-GenBank kinds
	ver    string // GenBank kinds
	def    string
	gmode  string // residue generator: cyc | rep | rnd | dna
	gparam int64
	n      int
	head   int  // genbank-region: head of the region (tail = head+n)
	pre    int  // genbank-slice: residues of the parent before the slice
	post   int  // genbank-slice: residues of the parent after the slice
	neg    bool // genbank-slice: indices given as negative offsets from the end
	clen   int  // genbank-contig: length of the CONTIG region (the record holds no residues)
	pre2   int  // genbank-slice2: residues of the first slice in front of the second one
	post2  int  // genbank-slice2: residues of the first slice after the second one
	// genbank, genbank-region: the value handed to the writer was read from
	// the record's flat-file text: 1 LF, 2 CRLF, 3 LF with secondary accessions
	// in front of REGION, 4 CRLF with secondary accessions (0: built in memory).
	via int
}

func c17gen(mode string, param int64, n int) []byte {
	out := make([]byte, n)
	switch mode {
	case "cyc":
		for i := range out {
			out[i] = c17Alpha[(int(param)+i)%len(c17Alpha)]
		}
	case "rep":
		for i := range out {
			out[i] = byte(param)
		}
	case "rnd":
		r := rand.New(rand.NewSource(param))
		for i := range out {
			out[i] = c17Alpha[r.Intn(len(c17Alpha))]
		}
	case "dna":
		r := rand.New(rand.NewSource(param))
		const dna = "acgtnACGTN-*"
		for i := range out {
			out[i] = dna[r.Intn(len(dna))]
		}
	}
	return out
}

func (r *c17rec) isGB() bool { return strings.HasPrefix(r.kind, "genbank") }

// residues are the residues the written record must carry.
func (r *c17rec) residues() []byte {
	if r.kind == "genbank-contig" {
		return []byte{}
	}
	if r.kind == "genbank-slice2" {
		a := r.pre + r.pre2
		return c17gen(r.gmode, r.gparam, r.pre+r.pre2+r.n+r.post2+r.post)[a : a+r.n]
	}
	if r.kind == "genbank-slice" {
		return c17gen(r.gmode, r.gparam, r.pre+r.n+r.post)[r.pre : r.pre+r.n]
	}
	return c17gen(r.gmode, r.gparam, r.n)
}

// c17Flat is the one-line form of a (possibly wrapped) GenBank definition.
func c17Flat(s string) string { return strings.ReplaceAll(s, "\n", " ") }

// wantDesc is the description the written record must carry.
func (r *c17rec) wantDesc() string {
	switch r.kind {
	case "genbank", "genbank-contig":
		return r.ver + " " + c17Flat(r.def)
	case "genbank-region":
		return r.ver + model.FastaSuffix(r.head, r.head+r.n) + " " + c17Flat(r.def)
	case "genbank-slice":
		return r.ver + model.FastaSuffix(r.pre, r.pre+r.n) + " " + c17Flat(r.def)
	case "genbank-slice2":
		// a slice of a slice: the window within the record that was sliced.
		return r.ver + model.FastaSuffix(r.pre2, r.pre2+r.n) + " " + c17Flat(r.def)
	}
	return r.desc
}

// altDesc is a second acceptable description: for a slice of a slice the
// statement does not say which record the region suffix counts in; the window
// within the original record is accepted too. Either way the suffix spans as
// many residues as the record holds.
func (r *c17rec) altDesc() string {
	if r.kind == "genbank-slice2" {
		return r.ver + model.FastaSuffix(r.pre+r.pre2, r.pre+r.pre2+r.n) + " " + c17Flat(r.def)
	}
	return ""
}

func (r *c17rec) enc() string {
	res := fmt.Sprintf("n=%d res=%s:%d", r.n, r.gmode, r.gparam)
	switch r.kind {
	case "genbank":
		return fmt.Sprintf("{genbank ver=%q def=%q %s%s}", r.ver, r.def, res, c17ViaName[r.via])
	case "genbank-contig":
		return fmt.Sprintf("{genbank-contig (no ORIGIN block, CONTIG join(ACC17.1:%d..%d)) ver=%q def=%q}", r.head+1, r.head+r.clen, r.ver, r.def)
	case "genbank-slice2":
		return fmt.Sprintf("{genbank-slice-of-a-slice ver=%q def=%q parent=%d first=[%d,%d) second=[%d,%d) of the first %s}", r.ver, r.def, r.pre+r.pre2+r.n+r.post2+r.post, r.pre, r.pre+r.pre2+r.n+r.post2, r.pre2, r.pre2+r.n, res)
	case "genbank-region":
		return fmt.Sprintf("{genbank-region ver=%q def=%q region=Segment{%d,%d} %s%s}", r.ver, r.def, r.head, r.head+r.n, res, c17ViaName[r.via])
	case "genbank-slice":
		return fmt.Sprintf("{genbank-slice ver=%q def=%q parent=%d slice=[%d,%d) negative-indices=%v %s}", r.ver, r.def, r.pre+r.n+r.post, r.pre, r.pre+r.n, r.neg, res)
	}
	return fmt.Sprintf("{%s desc=%q %s}", r.kind, r.desc, res)
}

var c17ViaName = []string{"", " read from its LF text", " read from its CRLF text", " read from its LF text with secondary accessions", " read from its CRLF text with secondary accessions"}

func c17genbank(ver, def string, res []byte) seqio.GenBank {
	f := seqio.GenBankFields{
		Molecule: gts.DNA, Topology: gts.Linear,
		Date:       seqio.Date{Year: 2020, Month: 1, Day: 1},
		Definition: def, Version: ver,
	}
	if ver != "" {
		// a fallback to the accession or the locus name instead of the version
		// must be visible; with an empty version all three are empty so that an
		// id-style fallback is not judged.
		f.LocusName = "LOC17"
		f.Accession = "ACC17"
	}
	return seqio.GenBank{Fields: f, Origin: seqio.NewOrigin(append([]byte(nil), res...))}
}

// build makes the gts.Sequence handed to the writer.
func (r *c17rec) build() gts.Sequence {
	res := append([]byte(nil), r.residues()...)
	switch r.kind {
	case "fasta":
		return seqio.Fasta{Desc: r.desc, Data: res}
	case "fasta-ptr":
		return &seqio.Fasta{Desc: r.desc, Data: res}
	case "basic-string":
		return gts.New(r.desc, nil, res)
	case "basic-stringer":
		return gts.New(c17Stringer{r.desc}, nil, res)
	case "genbank":
		return c17viaText(c17genbank(r.ver, r.def, res), r.via)
	case "genbank-region":
		gb := c17genbank(r.ver, r.def, res)
		gb.Fields.Region = gts.Segment{r.head, r.head + r.n}
		return c17viaText(gb, r.via)
	case "genbank-slice2":
		L := r.pre + r.pre2 + r.n + r.post2 + r.post
		parent := c17genbank(r.ver, r.def, c17gen(r.gmode, r.gparam, L))
		first := gts.Slice(parent, r.pre, r.pre+r.pre2+r.n+r.post2)
		return gts.Slice(first, r.pre2, r.pre2+r.n)
	case "genbank-contig":
		gb := c17genbank(r.ver, r.def, nil)
		gb.Origin = seqio.NewOrigin(nil)
		gb.Fields.Contig = seqio.Contig{Accession: "ACC17.1", Region: gts.Segment{r.head, r.head + r.clen}}
		return gb
	case "genbank-slice":
		L := r.pre + r.n + r.post
		parent := c17genbank(r.ver, r.def, c17gen(r.gmode, r.gparam, L))
		if r.neg {
			return gts.Slice(parent, r.pre-L, r.pre+r.n-L)
		}
		return gts.Slice(parent, r.pre, r.pre+r.n)
	}
	panic("c17: unknown kind " + r.kind)
}

// c17viaText hands back the record as the reader delivers it from the record's
// own flat-file text (a pipeline's second command sees records that way). The
// plain LF text must read back with the same version, definition, region and
// residues (else the record is outside what the text form carries, which is
// C01's subject, and the in-memory value is used); the variants - CRLF line
// ends, secondary accessions in front of REGION - name the same record.
func c17viaText(gb seqio.GenBank, via int) gts.Sequence {
	if via == 0 {
		return gb
	}
	text := gb.String()
	read := func(t string) (seqio.GenBank, bool) {
		sc := seqio.NewAutoScanner(strings.NewReader(t))
		if !sc.Scan() {
			return seqio.GenBank{}, false
		}
		v, ok := sc.Value().(seqio.GenBank)
		return v, ok
	}
	// a definition the flat file carries as it is: printable ASCII words with
	// single blanks between them (a period of its own at the end included: the
	// writer adds the terminating one, the reader takes that one off).
	def := gb.Fields.Definition
	simple := def == strings.Join(strings.Fields(def), " ")
	for i := 0; i < len(def); i++ {
		if def[i] < 32 || def[i] > 126 {
			simple = false
		}
	}
	plain, ok := read(text)
	if !ok || !simple || plain.Fields.Version != gb.Fields.Version ||
		fmt.Sprint(plain.Fields.Region) != fmt.Sprint(gb.Fields.Region) || !bytes.Equal(plain.Bytes(), gb.Bytes()) {
		return gb
	}
	if via >= 3 {
		if !strings.Contains(text, "\nACCESSION   ACC17") {
			return gb
		}
		text = strings.Replace(text, "\nACCESSION   ACC17", "\nACCESSION   ACC17 AB000001 AB000002", 1)
	}
	if via == 2 || via == 4 {
		text = strings.ReplaceAll(text, "\n", "\r\n")
	}
	v, ok := read(text)
	if !ok {
		return gts.New("the reader rejects the record's own text (variant "+fmt.Sprint(via)+")", nil, nil)
	}
	return v
}

type c17got struct {
	desc string
	data []byte
}

// c17read scans a text with the auto-detecting scanner; at most max records.
// The records are kept as the values the scanner handed out and looked at only
// after the whole stream was scanned (as gts sort / gts join / a guest reader
// do): a record that a later Scan rewrites is not "read back identically".
func c17read(text string, max int) (out []c17got, err error, bad string) {
	sc := seqio.NewAutoScanner(strings.NewReader(text))
	var vals []gts.Sequence
	for sc.Scan() {
		v := sc.Value()
		if v == nil {
			return out, nil, "Scan()==true but Value()==nil"
		}
		vals = append(vals, v)
		if len(vals) >= max {
			break
		}
	}
	err = sc.Err()
	for _, v := range vals {
		d, ok := v.Info().(string)
		if !ok {
			return out, nil, fmt.Sprintf("record %d has Info() of type %T, not a description string", len(out), v.Info())
		}
		out = append(out, c17got{d, append([]byte(nil), v.Bytes()...)})
	}
	return out, err, ""
}

func c17diff(want, got []byte) string {
	i := 0
	for i < len(want) && i < len(got) && want[i] == got[i] {
		i++
	}
	win := func(p []byte) string {
		lo, hi := i-8, i+24
		if lo < 0 {
			lo = 0
		}
		if hi > len(p) {
			hi = len(p)
		}
		if lo > hi {
			lo = hi
		}
		return fmt.Sprintf("%q", p[lo:hi])
	}
	return fmt.Sprintf("length want %d got %d; first difference at residue %d: want ...%s got ...%s", len(want), len(got), i, win(want), win(got))
}

// compare judges one read-back. mode is "LF" or "CRLF".
func (m c17) compare(c *fw.Ctx, enc, mode, text string, wantD []string, wantR, devR [][]byte) {
	k := len(wantD)
	var got []c17got
	var err error
	var bad string
	p, val, site, stack := fw.Guard(func() { got, err, bad = c17read(text, k+3) })
	cls := "readback-" + mode + ":"
	if p {
		c.ViolateX(cls+panicClass(site, val), enc, "no panic", fmt.Sprint(val), stack, map[string]interface{}{"text": text})
		return
	}
	if bad != "" {
		c.Violate(cls+"value", enc, "seqio.Fasta records", bad)
		return
	}
	exact := len(got) == k
	for i := 0; exact && i < k; i++ {
		exact = got[i].desc == wantD[i] && bytes.Equal(got[i].data, wantR[i])
	}
	if exact {
		if err != nil {
			c.Violate(cls+"scanner-error", enc, "Err()==nil after the last record", err.Error())
		}
		return
	}
	if mode == "CRLF" && c.KFEnabled(c17KF) && len(got) == k && err == nil {
		// deviation model: right number of records, right descriptions, and the
		// residues of every record are its written residue lines each followed
		// by '\r' (only '\n' is stripped from the residue block).
		dev := true
		for i := 0; dev && i < k; i++ {
			dev = got[i].desc == wantD[i] && bytes.Equal(got[i].data, devR[i])
		}
		if dev {
			c.Known(c17KF, enc)
			return
		}
	}
	extra := map[string]interface{}{"text": clipStr(text, 4000)}
	if len(got) != k {
		obs := fmt.Sprintf("%d records", len(got))
		if len(got) > k {
			obs = fmt.Sprintf(">= %d records", len(got))
		}
		if err != nil {
			obs += "; Err()=" + err.Error()
		}
		var ds []string
		for _, g := range got {
			ds = append(ds, fmt.Sprintf("(%q,%d residues)", g.desc, len(g.data)))
		}
		c.ViolateX(cls+"record-count", enc, fmt.Sprintf("%d records", k), obs+" "+strings.Join(ds, " "), "", extra)
		return
	}
	// report the first record that neither reads back exactly nor (CRLF, known
	// finding listed) follows the deviation model; failing that the first one
	// that is not exact.
	explained := func(i int) bool {
		if got[i].desc != wantD[i] {
			return false
		}
		if bytes.Equal(got[i].data, wantR[i]) {
			return true
		}
		return mode == "CRLF" && c.KFEnabled(c17KF) && bytes.Equal(got[i].data, devR[i])
	}
	at := -1
	for i := 0; i < k && at < 0; i++ {
		if !explained(i) {
			at = i
		}
	}
	for i := 0; i < k && at < 0; i++ {
		if !bytes.Equal(got[i].data, wantR[i]) {
			at = i
		}
	}
	if at < 0 {
		// every record exact but Err() != nil cannot reach here; defensive.
		c.ViolateX(cls+"scanner-error", enc, "Err()==nil", fmt.Sprint(err), "", extra)
		return
	}
	if got[at].desc != wantD[at] {
		c.ViolateX(cls+"description", enc, fmt.Sprintf("record %d: %q", at, wantD[at]), fmt.Sprintf("record %d: %q", at, got[at].desc), "", extra)
		return
	}
	if err != nil && explained(at) {
		c.ViolateX(cls+"scanner-error", enc, "Err()==nil after the last record", err.Error(), "", extra)
		return
	}
	c.ViolateX(cls+"residues", enc, fmt.Sprintf("record %d of %d", at, k), fmt.Sprintf("record %d: %s", at, c17diff(wantR[at], got[at].data)), "", extra)
}

func clipStr(s string, n int) string {
	if len(s) > n {
		return s[:n] + "...(clipped)"
	}
	return s
}

// check executes one stream case.
func (m c17) check(c *fw.Ctx, recs []c17rec, writer string) {
	k := len(recs)
	parts := make([]string, k)
	for i := range recs {
		parts[i] = recs[i].enc()
	}
	enc := fmt.Sprintf("FASTA stream k=%d writer=%s %s", k, writer, strings.Join(parts, " "))
	c.Begin(enc)

	wantD := make([]string, k)
	wantR := make([][]byte, k)
	nontrivial := k >= 2
	for i := range recs {
		wantD[i] = recs[i].wantDesc()
		wantR[i] = recs[i].residues()
		if recs[i].n > model.FastaWidth {
			nontrivial = true
		}
	}
	c.Count(enc, nontrivial)

	// coverage.
	c.Bucket(fmt.Sprintf("k=%d", k))
	c.Bucket("writer:" + writer)
	for i := range recs {
		r := &recs[i]
		n := r.n
		switch {
		case n == 0:
			c.Bucket("len=0")
			if i < k-1 {
				c.Bucket("empty-record-not-last")
			}
		case n%model.FastaWidth == 0:
			c.Bucket("len%70=0")
			if i < k-1 {
				c.Bucket("multiple-of-70-not-last")
			}
		case n%model.FastaWidth == 1:
			c.Bucket("len%70=1")
		case n%model.FastaWidth == 69:
			c.Bucket("len%70=69")
		}
		if n > model.FastaWidth {
			c.Bucket("len>70")
		}
		if n > 300 {
			c.Bucket("len>300")
		}
		c.Bucket("kind:" + r.kind)
		switch r.kind {
		case "genbank":
			c.Bucket("genbank:plain")
		case "genbank-region":
			c.Bucket("genbank:region")
		case "genbank-slice":
			c.Bucket("genbank:slice")
			if r.neg {
				c.Bucket("genbank:slice-negative-index")
			}
			if n == 0 {
				c.Bucket("genbank:slice-empty")
			}
		}
		d := wantD[i]
		if d == "" {
			c.Bucket("desc:empty")
		}
		if strings.Contains(d, ">") {
			c.Bucket("desc:has-gt")
		}
		if strings.Contains(d, " ") {
			c.Bucket("desc:has-space")
		}
		if strings.Contains(d, "\t") {
			c.Bucket("desc:has-tab")
		}
		switch r.gmode {
		case "rep":
			c.Bucket("alphabet:single-byte-record")
		case "cyc":
			if n >= len(c17Alpha) {
				c.Bucket("residues:cyclic-alphabet")
			}
		default:
			c.Bucket("residues:random")
		}
	}

	// build the inputs.
	seqs := make([]gts.Sequence, k)
	for i := range recs {
		r := &recs[i]
		p, val, site, stack := fw.Guard(func() { seqs[i] = r.build() })
		if p {
			c.ViolateX("build:"+panicClass(site, val), enc, "no panic while building record "+r.enc(), fmt.Sprint(val), stack, nil)
			return
		}
		if r.isGB() {
			var held []byte
			p, val, _, _ := fw.Guard(func() { held = seqs[i].Bytes() })
			if p || !bytes.Equal(held, wantR[i]) {
				// the GenBank value itself does not hold the intended residues:
				// ORIGIN encoding / Slice residues are C16 / C03, not judged here.
				_ = val
				c.Skip("GenBank input does not hold the intended residues (ORIGIN encoding or Slice: judged by C16/C03)")
				return
			}
		}
	}

	// write.
	var buf bytes.Buffer
	pieces := make([]string, k)
	var werr error
	werrAt := -1
	p, val, site, stack := fw.Guard(func() {
		// now and then a write to a full device fails part-way first: what
		// is written afterwards, anywhere in the process, is unaffected.
		if c17FailTick++; c17FailTick%5 == 0 && len(seqs) > 0 {
			fw := &c17FailWriter{left: 1 + (c17FailTick/5)%40}
			seqio.NewWriter(fw, seqio.FastaFile).WriteSeq(seqs[len(seqs)-1])
			c.Bucket("after-a-failed-write")
		}
		var w seqio.SeqWriter
		if writer == "auto" {
			w = seqio.NewWriter(&buf, seqio.DefaultFile)
		} else {
			w = seqio.NewWriter(&buf, seqio.FastaFile)
		}
		for i := range seqs {
			before := buf.Len()
			if _, err := w.WriteSeq(seqs[i]); err != nil {
				werr, werrAt = err, i
				return
			}
			pieces[i] = string(buf.Bytes()[before:])
		}
	})
	if p {
		c.ViolateX("write:"+panicClass(site, val), enc, "no panic", fmt.Sprint(val), stack, nil)
		return
	}
	if werr != nil {
		c.Violate("write:error", enc, "WriteSeq succeeds", fmt.Sprintf("record %d: %v", werrAt, werr))
		return
	}

	// layout of the written bytes (this is also the GenBank -> FASTA
	// description and residue check on the text itself).
	for i := range recs {
		ok, why := model.FastaLayoutOK(wantD[i], wantR[i], pieces[i])
		if alt := recs[i].altDesc(); !ok && why == "description-line" && alt != "" {
			if ok2, _ := model.FastaLayoutOK(alt, wantR[i], pieces[i]); ok2 {
				ok, wantD[i] = true, alt
			}
		}
		if !ok {
			cls := "layout:" + why
			if recs[i].isGB() && why == "description-line" {
				cls = "genbank-to-fasta:description"
			}
			c.Violate(cls, enc, fmt.Sprintf("record %d: %q", i, clipStr(model.FastaRecord(wantD[i], wantR[i]), 3000)),
				fmt.Sprintf("record %d: %q", i, clipStr(pieces[i], 3000)))
			return
		}
	}

	// deviation model of the known CRLF finding, per record: the residue block
	// as written (it passed the layout check: the canonical block, or one of
	// the tolerated variants) with CRLF line ends and only the '\n' removed.
	// For the canonical block this is model.FastaCRKeptResidues.
	devR := make([][]byte, k)
	for i := range recs {
		block := pieces[i][len(">"+wantD[i]+"\n"):]
		devR[i] = []byte(strings.ReplaceAll(block, "\n", "\r"))
		if block == model.FastaRecord("", wantR[i])[2:] && !bytes.Equal(devR[i], model.FastaCRKeptResidues(wantR[i])) {
			panic("c17: deviation models disagree")
		}
	}

	text := buf.String()
	c.Bucket("LF")
	m.compare(c, enc, "LF", text, wantD, wantR, nil)
	c.Bucket("CRLF")
	m.compare(c, enc, "CRLF", strings.ReplaceAll(text, "\n", "\r\n"), wantD, wantR, devR)
	// files whose last line has no line terminator.
	if len(wantR[k-1]) > 0 && len(wantR[k-1])%70 != 0 && strings.HasSuffix(text, "\n") && !strings.HasSuffix(text, "\n\n") {
		c.Bucket("no-final-line-terminator")
		cut := strings.TrimSuffix(text, "\n")
		m.compare(c, enc+" (the text without its final line terminator)", "LF", cut, wantD, wantR, nil)
		devCut := append([][]byte(nil), devR...)
		devCut[k-1] = bytes.TrimSuffix(devR[k-1], []byte("\r"))
		m.compare(c, enc+" (the CRLF text without its final line terminator)", "CRLF", strings.ReplaceAll(cut, "\n", "\r\n"), wantD, wantR, devCut)
	}
}

func c17allPlain(recs []c17rec) bool {
	for i := range recs {
		if recs[i].isGB() {
			return false
		}
	}
	return true
}

// c17randDesc draws a description without line breaks.
func c17randDesc(r *rand.Rand) string {
	switch r.Intn(10) {
	case 0:
		return ""
	case 1:
		return c17DescPool[r.Intn(len(c17DescPool))]
	}
	n := r.Intn(40)
	if r.Intn(12) == 0 {
		n = 60 + r.Intn(240)
	}
	b := make([]byte, n)
	for i := range b {
		switch r.Intn(12) {
		case 0:
			b[i] = '>'
		case 1:
			b[i] = ' '
		case 2:
			b[i] = '\t'
		default:
			b[i] = byte(32 + r.Intn(95))
		}
	}
	return string(b)
}

// c17randLen draws a residue count <= max biased to the line-width borders.
func c17randLen(r *rand.Rand, max int) int {
	switch r.Intn(10) {
	case 0:
		return 0
	case 1, 2, 3:
		q := r.Intn(max/model.FastaWidth + 1)
		n := q*model.FastaWidth + []int{-1, 0, 1}[r.Intn(3)]
		if n < 0 {
			n = 0
		}
		if n > max {
			n = max
		}
		return n
	case 4:
		return r.Intn(model.FastaWidth + 2)
	}
	return r.Intn(max + 1)
}

func c17randRec(r *rand.Rand, maxLen int) c17rec {
	rec := c17rec{kind: c17Kinds[r.Intn(len(c17Kinds))], n: c17randLen(r, maxLen)}
	rec.desc = c17randDesc(r)
	rec.ver = c17VerPool[r.Intn(len(c17VerPool))]
	rec.def = c17DefPool[r.Intn(len(c17DefPool))]
	if r.Intn(3) == 0 {
		// free-form version/definition (no line breaks).
		rec.ver = c17randDesc(r)
		rec.def = c17randDesc(r)
	}
	switch r.Intn(4) {
	case 0:
		rec.gmode, rec.gparam = "cyc", int64(r.Intn(len(c17Alpha)))
	case 1:
		rec.gmode, rec.gparam = "dna", int64(r.Int31())
	default:
		rec.gmode, rec.gparam = "rnd", int64(r.Int31())
	}
	rec.head = r.Intn(1000)
	rec.pre = r.Intn(150)
	rec.post = r.Intn(150)
	if r.Intn(4) == 0 {
		rec.pre = 0
	}
	if r.Intn(4) == 0 {
		rec.post = 0
	}
	rec.neg = rec.post > 0 && r.Intn(3) == 0
	via := []int{0, 0, 0, 1, 2, 3, 4}[r.Intn(7)]
	// normalise the fields the kind does not use (canonical case text).
	switch rec.kind {
	case "genbank":
		rec.desc, rec.head, rec.pre, rec.post, rec.neg = "", 0, 0, 0, false
		rec.via = via
	case "genbank-region":
		rec.desc, rec.pre, rec.post, rec.neg = "", 0, 0, false
		rec.via = via
	case "genbank-slice":
		rec.desc, rec.head = "", 0
	default:
		rec.ver, rec.def, rec.head, rec.pre, rec.post, rec.neg = "", "", 0, 0, 0, false
	}
	return rec
}

func (m c17) Run(c *fw.Ctx) {
	// A. every length x record count x position of that record in the stream.
	maxN := c.Pick(300, 1400)
	for n := 0; n <= maxN; n++ {
		for k := 1; k <= 5; k++ {
			for pos := 0; pos < k; pos++ {
				if !c.NextShared() {
					continue
				}
				recs := make([]c17rec, k)
				for i := range recs {
					r := &recs[i]
					r.n = c17OtherLens[(n+3*k+5*i+pos)%len(c17OtherLens)]
					if i == pos {
						r.n = n
					}
					r.kind = c17Kinds[(n+3*i+k+pos)%len(c17Kinds)]
					r.gmode, r.gparam = "cyc", int64((n+13*i)%len(c17Alpha))
					switch r.kind {
					case "genbank", "genbank-region", "genbank-slice":
						r.ver = c17VerPool[(n+i+k)%len(c17VerPool)]
						r.def = c17DefPool[(n+2*i+pos)%len(c17DefPool)]
						if r.kind == "genbank-region" {
							r.head = (n*7 + i*31) % 500
						}
						if r.kind == "genbank-slice" {
							r.pre = ((n + i) % 5) * 17
							r.post = ((n + k) % 4) * 23
							r.neg = r.post > 0 && (n+pos)%3 == 0
						}
					default:
						r.desc = c17DescPool[(n*7+i+3*k+pos)%len(c17DescPool)]
					}
				}
				writer := "fasta"
				if c17allPlain(recs) && (n+k+pos)%2 == 0 {
					writer = "auto"
				}
				m.check(c, recs, writer)
			}
		}
	}
	c.Exhaustive(fmt.Sprintf("residue count n in 0..%d (every remainder mod 70) x record count k in 1..5 x position of the length-n record", maxN))

	// B. every residue byte of the alphabet as a homogeneous record.
	for _, b := range c17Alpha {
		for _, kind := range []string{"fasta", "basic-string", "genbank"} {
			if !c.NextShared() {
				continue
			}
			recs := []c17rec{{kind: kind, desc: "byte " + string(b), ver: "V.1", def: "byte " + string(b), gmode: "rep", gparam: int64(b), n: 71}}
			if kind == "genbank" {
				recs[0].desc = ""
			} else {
				recs[0].ver, recs[0].def = "", ""
			}
			m.check(c, recs, "fasta")
		}
	}
	c.Exhaustive("every residue byte 33..126 except '>' as a homogeneous 71-residue record x {Fasta, BasicSequence, GenBank}")

	// C. description pool x boundary lengths x non-GenBank kinds x k.
	for di, d := range c17DescPool {
		for _, n := range []int{0, 1, 69, 70, 71, 140, 141} {
			for ki, kind := range c17Kinds[:4] {
				for _, k := range []int{1, 3} {
					if !c.NextShared() {
						continue
					}
					recs := make([]c17rec, k)
					for i := range recs {
						recs[i] = c17rec{kind: c17Kinds[(ki+i)%4], desc: c17DescPool[(di+i*5)%len(c17DescPool)],
							gmode: "cyc", gparam: int64((di + n + i) % len(c17Alpha)), n: c17OtherLens[(n+di+i)%len(c17OtherLens)]}
					}
					// the record under test sits in the middle of a 3-stream.
					at := k / 2
					recs[at].kind, recs[at].desc, recs[at].n = kind, d, n
					writer := "fasta"
					if (di+ki+k)%3 == 0 {
						writer = "auto"
					}
					m.check(c, recs, writer)
				}
			}
		}
	}
	c.Exhaustive("description pool x n in {0,1,69,70,71,140,141} x {Fasta,*Fasta,BasicSequence(string),BasicSequence(Stringer)} x k in {1,3}")

	// D. GenBank -> FASTA: version x definition x region mode x boundary lengths.
	for vi, ver := range c17VerPool {
		for fi, def := range c17DefPool {
			for mi, mode := range []string{"plain", "region", "slice", "slice-neg", "slice-prefix", "slice-suffix", "contig", "slice-of-slice"} {
				for ni, n := range []int{0, 1, 69, 70, 71, 140} {
					if !c.NextShared() {
						continue
					}
					r := c17rec{ver: ver, def: def, gmode: "cyc", gparam: int64((vi*7 + fi*3 + ni) % len(c17Alpha)), n: n}
					switch mode {
					case "plain":
						r.kind = "genbank"
					case "region":
						r.kind, r.head = "genbank-region", []int{0, 1, 99, 12345}[(vi+fi+ni)%4]
					case "slice":
						r.kind, r.pre, r.post = "genbank-slice", 1+(vi*13+ni*7)%90, 1+(fi*11+ni)%90
					case "slice-neg":
						r.kind, r.pre, r.post, r.neg = "genbank-slice", (vi*13+ni*7)%90, 1+(fi*11+ni)%90, true
					case "slice-prefix":
						r.kind, r.pre, r.post = "genbank-slice", 0, 1+(fi*11+ni)%90
					case "slice-suffix":
						r.kind, r.pre, r.post = "genbank-slice", 1+(vi*13+ni*7)%90, 0
					case "slice-of-slice":
						r.kind, r.pre, r.post, r.pre2, r.post2 = "genbank-slice2", 1+(vi*13+ni*7)%40, (fi*11+ni)%40, (vi+fi+ni)%9, (vi*3+ni)%7
					case "contig":
						// a record without residues whose CONTIG line spans n+1 bases.
						r.kind, r.head, r.clen, r.n = "genbank-contig", []int{0, 1, 99, 12345}[(vi+fi+ni)%4], n+1, 0
					}
					recs := []c17rec{r}
					if (vi+fi+mi+ni)%2 == 1 {
						// followed by a plain FASTA record: framing after a converted record.
						recs = append(recs, c17rec{kind: "fasta", desc: "next", gmode: "cyc", gparam: 5, n: 75})
					}
					m.check(c, recs, "fasta")
				}
			}
		}
	}
	c.Exhaustive("version pool x definition pool x {plain, Region set, Slice, Slice with negative indices, prefix slice, suffix slice, CONTIG-only record} x n in {0,1,69,70,71,140}")

	// E. seeded streams.
	N := c.Pick(1500, 15000)
	maxLen := c.Pick(300, 5000)
	r := c.Rng
	for it := 0; it < N; it++ {
		c.NextOwn()
		k := 1 + r.Intn(5)
		recs := make([]c17rec, k)
		ml := maxLen
		if r.Intn(3) > 0 {
			ml = 300
		}
		for i := range recs {
			recs[i] = c17randRec(r, ml)
			if r.Intn(14) == 0 {
				recs[i] = c17rec{kind: "genbank-contig", ver: c17VerPool[r.Intn(len(c17VerPool))], def: c17DefPool[r.Intn(len(c17DefPool))], gmode: "cyc", head: r.Intn(1000), clen: 1 + r.Intn(5000)}
			}
		}
		writer := "fasta"
		if c17allPlain(recs) && r.Intn(3) == 0 {
			writer = "auto"
		}
		if c.Replaying() && c.Seq() != c.ReplaySeq {
			continue
		}
		m.check(c, recs, writer)
	}
	// F. `gts <cmd> -F fasta` on the real binary.
	cliFasta(c)
}

var c17FailTick int

// c17FailWriter accepts a few bytes and then fails like a full device.
type c17FailWriter struct{ left int }

func (w *c17FailWriter) Write(p []byte) (int, error) {
	if len(p) <= w.left {
		w.left -= len(p)
		return len(p), nil
	}
	n := w.left
	w.left = 0
	return n, errors.New("no space left on device")
}
