package model

// Reference model of the GenBank ORIGIN block layout (property C16), written
// from the format definition and independent of seqio/origin.go and of the two
// ORIGIN readers in seqio/genbank_subparsers.go:
//
//	a block of n residues is ceil(n/60) lines; line l (0-based) is the
//	1-based index 60*l+1 right-aligned in 9 columns, then for every started
//	group of ten residues one space and the (up to ten) residues, then "\n".

// OriginLineWidth is the index column width.
const OriginLineWidth = 9

// OriginLen is the byte length of the block of n residues: every started line
// costs 9 index columns and a line end, every started group one separator,
// every residue one byte.
func OriginLen(n int) int {
	if n <= 0 {
		return 0
	}
	return 10*((n+59)/60) + (n+9)/10 + n
}

// OriginIndex renders the 1-based index v right-aligned in 9 columns.
func OriginIndex(v int) []byte {
	var d [20]byte
	k := len(d)
	if v == 0 {
		k--
		d[k] = '0'
	}
	for x := v; x > 0; x /= 10 {
		k--
		d[k] = byte('0' + x%10)
	}
	out := make([]byte, 0, OriginLineWidth)
	for i := len(d) - k; i < OriginLineWidth; i++ {
		out = append(out, ' ')
	}
	return append(out, d[k:]...)
}

// OriginIndexWidth is the number of digits of the largest index of a block of
// n residues (0 for the empty block).
func OriginIndexWidth(n int) int {
	if n <= 0 {
		return 0
	}
	v, w := 60*((n-1)/60)+1, 0
	for ; v > 0; v /= 10 {
		w++
	}
	return w
}

// OriginBlock lays p out.
func OriginBlock(p []byte) []byte {
	out := make([]byte, 0, len(p)+len(p)/5+24)
	for i := 0; i < len(p); i += 60 {
		out = append(out, OriginIndex(i+1)...)
		for j := i; j < i+60 && j < len(p); j += 10 {
			e := j + 10
			if e > len(p) {
				e = len(p)
			}
			out = append(out, ' ')
			out = append(out, p[j:e]...)
		}
		out = append(out, '\n')
	}
	return out
}

// CRLF returns the CRLF twin of an LF text.
func CRLF(text []byte) []byte {
	out := make([]byte, 0, len(text)+len(text)/60+8)
	for _, b := range text {
		if b == '\n' {
			out = append(out, '\r')
		}
		out = append(out, b)
	}
	return out
}

// OriginVerdict is what a reader of an ORIGIN block declared to hold d
// residues must conclude from a text.
type OriginVerdict struct {
	Accept   bool
	Residues []byte
	// Short: the text was rejected because a line ended at column >= 9 before
	// the layout was complete (every byte present was in place).
	Short bool
	// Overlong: (lenient reading only) some line carried bytes after the last
	// expected residue.
	Overlong bool
	Line     int    // 0-based line of the first anomaly
	Why      string // reason of the rejection
}

func originNextLine(text []byte, off int, crlf bool) (line []byte, next int) {
	i := off
	for i < len(text) && text[i] != '\n' {
		i++
	}
	line = text[off:i]
	next = i
	if i < len(text) {
		next = i + 1
	}
	if crlf && i < len(text) && len(line) > 0 && line[len(line)-1] == '\r' {
		line = line[:len(line)-1]
	}
	return
}

// OriginRead reads the block of d declared residues at the start of text (what
// follows the block is not looked at). crlf: a line may end in "\r\n" as well
// as in "\n" (the line-by-line reader); otherwise only "\n" ends a line (the
// in-place validator). lenient describes the reading that ignores anything
// after the last expected residue of a line; the strict reading rejects it.
func OriginRead(text []byte, d int, crlf, lenient bool) OriginVerdict {
	v := OriginVerdict{}
	res := make([]byte, 0, d)
	off := 0
	for i, l := 0, 0; i < d; i, l = i+60, l+1 {
		line, next := originNextLine(text, off, crlf)
		off = next
		idx := OriginIndex(i + 1)
		pos := 0
		fail := func(why string) OriginVerdict {
			v.Line, v.Why = l, why
			if pos >= len(line) && pos >= OriginLineWidth {
				v.Short = true
			}
			return v
		}
		for ; pos < OriginLineWidth; pos++ {
			if pos >= len(line) || line[pos] != idx[pos] {
				return fail("index")
			}
		}
		for j := i; j < i+60 && j < d; j += 10 {
			if pos >= len(line) || line[pos] != ' ' {
				return fail("separator")
			}
			pos++
			for k := j; k < j+10 && k < d; k++ {
				if pos >= len(line) || line[pos] < 33 || line[pos] > 126 {
					return fail("residue")
				}
				res = append(res, line[pos])
				pos++
			}
		}
		if pos < len(line) {
			if !lenient {
				return fail("line continues after the last residue")
			}
			v.Overlong = true
		}
	}
	v.Accept, v.Residues = true, res
	return v
}
