package model

import (
	"fmt"
	"sort"
)

// XPart is an expected part after an edit, with the set of acceptable
// positions when it is a site (the statement does not choose a neighbour).
type XPart struct {
	Part
	SiteAlt  []int // acceptable site positions (Kind==KSite)
	Vanished bool  // the part lost all its residues in the edit
	From     int   // index of the originating part
}

func keep(p Part, from int) XPart { return XPart{Part: p, From: from} }

// ImageInsert maps parts through the insertion of n residues at index i.
// embed=false: a range strictly spanning i is split around the guest;
// embed=true: it is extended over the guest.
func ImageInsert(pp []Part, i, n int, embed bool) []XPart {
	f := func(p int) int {
		if p < i {
			return p
		}
		return p + n
	}
	var out []XPart
	for k, p := range pp {
		switch p.Kind {
		case KPoint:
			q := p
			q.Lo, q.Hi = f(p.Lo), f(p.Lo)+1
			out = append(out, keep(q, k))
		case KSite:
			q := p
			x := XPart{Part: q, From: k}
			switch {
			case p.Lo < i:
			case p.Lo > i:
				x.Lo, x.Hi = p.Lo+n, p.Lo+n
			default:
				x.SiteAlt = []int{i, i + n}
			}
			out = append(out, x)
		case KRange, KAmb:
			if p.Lo < i && i < p.Hi && n > 0 && !embed {
				a, b := p, p
				a.Hi = i
				a.OpenHi = false
				b.Lo, b.Hi = i+n, p.Hi+n
				b.OpenLo = false
				xa, xb := keep(a, k), keep(b, k)
				if p.Rev {
					out = append(out, xb, xa)
				} else {
					out = append(out, xa, xb)
				}
				continue
			}
			q := p
			q.Lo, q.Hi = f(p.Lo), f(p.Hi-1)+1
			out = append(out, keep(q, k))
		default:
			out = append(out, keep(p, k))
		}
	}
	return out
}

// ImageDelete maps parts through the deletion of residues [i,i+n).
func ImageDelete(pp []Part, i, n int) []XPart {
	j := i + n
	f := func(p int) int {
		if p < i {
			return p
		}
		return p - n
	}
	var out []XPart
	for k, p := range pp {
		switch p.Kind {
		case KSite:
			q := p
			switch {
			case p.Lo <= i:
			case p.Lo >= j:
				q.Lo, q.Hi = p.Lo-n, p.Lo-n
			default:
				q.Lo, q.Hi = i, i
			}
			out = append(out, keep(q, k))
		case KPoint, KRange, KAmb:
			lo, hi := p.Lo, p.Hi
			// surviving residues: [lo,hi) minus [i,j)
			cutLo := lo >= i && lo < j
			cutHi := hi-1 >= i && hi-1 < j
			nlo, nhi := lo, hi
			if cutLo {
				nlo = j
			}
			if cutHi {
				nhi = i
			}
			if n == 0 {
				out = append(out, keep(p, k))
				continue
			}
			if nlo >= nhi {
				q := p
				q.Kind = KSite
				q.Lo, q.Hi = i, i
				q.OpenLo, q.OpenHi = false, false
				out = append(out, XPart{Part: q, Vanished: true, From: k})
				continue
			}
			q := p
			q.Lo, q.Hi = f(nlo), f(nhi-1)+1
			if p.Kind == KRange {
				q.OpenLo = p.OpenLo || cutLo
				q.OpenHi = p.OpenHi || cutHi
			}
			out = append(out, keep(q, k))
		default:
			out = append(out, keep(p, k))
		}
	}
	return out
}

// Plain strips the expectation wrapper.
func Plain(xx []XPart) []Part {
	out := make([]Part, len(xx))
	for i, x := range xx {
		out[i] = x.Part
	}
	return out
}

// DropPointAfterRange applies the listed deviation "join reduction drops a
// single base that directly follows a range" (KNOWN id join-drops-point-after-range)
// to an expected part list in reading order. It returns the reduced list and
// whether anything was dropped.
func DropPointAfterRange(xx []XPart) ([]XPart, bool) {
	out := make([]XPart, 0, len(xx))
	dropped := false
	// forward strand: [Range ..p)[site p]*[Point p]  -> point dropped.
	// reverse strand (reading order mirrored): [Point p][site p]*[Range ..p) -> point dropped.
	// Only members of the same join are reduced against each other. Once a
	// point was dropped, a site at p+1 (absorbed by that point before it was
	// itself dropped) and further points at p may follow.
	n := len(xx)
	drop := make([]bool, n)
	for a := 0; a < n; a++ {
		A := xx[a]
		if A.Kind != KRange || !A.InList || A.Ord {
			continue
		}
		step, b := 1, a+1
		if A.Rev {
			step, b = -1, a-1
		}
		one := false
		for ; b >= 0 && b < n; b += step {
			B := xx[b]
			if drop[b] {
				continue
			}
			if !B.InList || B.Ord || B.Rev != A.Rev || B.Group != A.Group {
				break
			}
			if B.Kind == KSite && (B.Lo == A.Hi || (one && B.Lo == A.Hi+1)) {
				continue
			}
			if B.Kind == KPoint && B.Lo == A.Hi {
				drop[b] = true
				dropped = true
				one = true
				continue
			}
			break
		}
	}
	for k, x := range xx {
		if !drop[k] {
			out = append(out, x)
		}
	}
	return out, dropped
}

// CmpOpt tunes CompareImage.
type CmpOpt struct {
	IgnoreMarkers   bool // e.g. source features after Slice
	AllComplete     bool // every marker must be gone
	IgnoreSites     bool // site atoms are don't-care
	VanishedSitesDC bool // sites left by vanished list members are don't-care
	AllowDropPoint  bool // KNOWN join-drops-point-after-range listed
	MaxCoord        int  // every coordinate must lie in [0,MaxCoord]; <0: unchecked
	CyclicL         int  // >0: parts abutting across the origin of a circular sequence of this length also form a don't-care junction
}

// Verdict of CompareImage.
const (
	VOK = iota
	VKnown
	VBad
)

// CompareImage checks observed parts against the expected image.
// It returns the verdict, the clause that failed and (for VKnown) the id.
func CompareImage(exp []XPart, obs []Part, o CmpOpt) (int, string, string) {
	if bad := HasBad(obs); bad != "" {
		return VBad, "malformed: " + bad, ""
	}
	if o.MaxCoord >= 0 {
		for _, p := range obs {
			if p.Lo < 0 || p.Hi > o.MaxCoord {
				return VBad, "coordinate-out-of-range", ""
			}
		}
	}
	v, why := compareOnce(exp, obs, o)
	if v == VOK {
		return VOK, "", ""
	}
	if o.AllowDropPoint {
		if red, did := DropPointAfterRange(exp); did {
			if v2, _ := compareOnce(red, obs, o); v2 == VOK {
				return VKnown, why, "join-drops-point-after-range"
			}
		}
	}
	return VBad, why, ""
}

func compareOnce(exp []XPart, obs []Part, o CmpOpt) (int, string) {
	// Consecutive duplicates are collapsed on both sides: the documented join
	// reductions drop a repeated base (join(1,1) -> 1, join(1,1..3) -> 1..3),
	// which changes neither the set nor the order of the denoted residues.
	eb := CollapseDups(Bases(Atoms(Plain(exp))))
	ob := CollapseDups(Bases(Atoms(obs)))
	if !EqualAtoms(eb, ob) {
		return VBad, "residues"
	}
	if !o.IgnoreSites {
		// observed sites must each be acceptable for some expected site.
		acc := map[int]bool{}
		var standalone []XPart
		for _, x := range exp {
			if x.Kind != KSite {
				continue
			}
			if len(x.SiteAlt) > 0 {
				for _, a := range x.SiteAlt {
					acc[a] = true
				}
			} else {
				acc[x.Lo] = true
			}
			if !x.InList {
				standalone = append(standalone, x)
			}
		}
		nObsSites := 0
		for _, p := range obs {
			if p.Kind == KSite {
				nObsSites++
				if !acc[p.Lo] {
					return VBad, "site"
				}
			}
		}
		// a location that is nothing but one site must stay a site.
		if len(exp) == 1 && len(standalone) == 1 && nObsSites != 1 {
			return VBad, "site-lost"
		}
		// a location all of whose parts vanished must consist of sites only
		// (already implied by residues==nil) and have at least one.
		if len(eb) == 0 && len(exp) > 0 && nObsSites == 0 {
			return VBad, "site-lost"
		}
	}
	if o.AllComplete {
		if len(Markers(obs)) != 0 {
			return VBad, "markers-not-stripped"
		}
		return VOK, ""
	}
	if !o.IgnoreMarkers {
		dc := junctionMarkers(exp, o.CyclicL)
		es := MarkerSet(Markers(Plain(exp)))
		os := MarkerSet(Markers(obs))
		for m := range es {
			if !os[m] && !dc[m] {
				return VBad, "marker-missing"
			}
		}
		for m := range os {
			if !es[m] && !dc[m] {
				return VBad, "marker-extra"
			}
		}
	}
	return VOK, ""
}

// junctionMarkers returns the markers that sit on an interior junction of two
// expected range parts that abut on the same strand and are consecutive in a
// list: merging them (which the reductions are allowed to do) removes those
// markers, keeping them (order lists do) keeps them: don't-care.
func junctionMarkers(exp []XPart, cyclicL int) map[Marker]bool {
	dc := map[Marker]bool{}
	// consecutive in reading order, skipping sites.
	prev := -1
	for k, x := range exp {
		if x.Kind == KSite {
			continue
		}
		if prev >= 0 {
			a, b := exp[prev], x
			if a.Kind == KRange && b.Kind == KRange && a.Rev == b.Rev {
				lo, hi := a, b
				if a.Rev {
					lo, hi = b, a
				}
				if lo.Hi == hi.Lo {
					dc[Marker{Pos: lo.Hi - 1, Hi: true, Rev: a.Rev}] = true
					dc[Marker{Pos: hi.Lo, Hi: false, Rev: a.Rev}] = true
				}
				if cyclicL > 0 && lo.Hi == cyclicL && hi.Lo == 0 {
					dc[Marker{Pos: cyclicL - 1, Hi: true, Rev: a.Rev}] = true
					dc[Marker{Pos: 0, Hi: false, Rev: a.Rev}] = true
				}
			}
		}
		prev = k
	}
	return dc
}

// PartsString prints parts compactly.
func PartsString(pp []Part) string {
	s := "["
	for i, p := range pp {
		if i > 0 {
			s += " "
		}
		k := map[int]string{KPoint: "P", KSite: "S", KRange: "R", KAmb: "A", KNil: "NIL", KUnknown: "?"}[p.Kind]
		s += fmt.Sprintf("%s(%d,%d", k, p.Lo, p.Hi)
		if p.OpenLo {
			s += "<"
		}
		if p.OpenHi {
			s += ">"
		}
		if p.Rev {
			s += "-"
		}
		if p.Ord {
			s += "o"
		}
		s += ")"
	}
	return s + "]"
}

// XPartsString prints expected parts.
func XPartsString(xx []XPart) string {
	s := PartsString(Plain(xx))
	for _, x := range xx {
		if len(x.SiteAlt) > 0 {
			s += fmt.Sprintf(" site-alt%v", x.SiteAlt)
		}
	}
	return s
}

// SortedInts returns a sorted copy.
func SortedInts(a []int) []int {
	b := append([]int(nil), a...)
	sort.Ints(b)
	return b
}

// CollapseDups removes consecutive repeats of the same residue atom.
func CollapseDups(aa []Atom) []Atom {
	out := make([]Atom, 0, len(aa))
	for _, a := range aa {
		if n := len(out); n > 0 && out[n-1].Pos == a.Pos && out[n-1].Rev == a.Rev && out[n-1].Site == a.Site {
			continue
		}
		out = append(out, a)
	}
	return out
}

// ImageRotate maps parts through a change of origin: residue k moves to
// (k+n) mod L. A contiguous part that now crosses the origin is split into
// two parts reading across it; a part covering all L residues stays [0,L)
// (the statement's "a full-length feature stays full-length").
func ImageRotate(pp []Part, n, L int) []XPart {
	n %= L
	if n < 0 {
		n += L
	}
	var out []XPart
	for k, p := range pp {
		switch p.Kind {
		case KSite:
			x := XPart{Part: p, From: k}
			g := (p.Lo + n) % L
			x.Lo, x.Hi = g, g
			if g == 0 {
				x.SiteAlt = []int{0, L}
			}
			out = append(out, x)
		case KPoint, KRange, KAmb:
			if p.Hi-p.Lo == L {
				q := p
				q.Lo, q.Hi = 0, L
				out = append(out, keep(q, k))
				continue
			}
			lo := (p.Lo + n) % L
			hi := lo + (p.Hi - p.Lo)
			if hi <= L {
				q := p
				q.Lo, q.Hi = lo, hi
				out = append(out, keep(q, k))
				continue
			}
			a, b := p, p
			a.Lo, a.Hi = lo, L
			a.OpenHi = false
			b.Lo, b.Hi = 0, hi-L
			b.OpenLo = false
			if p.Kind == KPoint {
				a.Kind, b.Kind = KRange, KRange
			}
			a.InList, b.InList = true, true
			if p.Rev {
				out = append(out, keep(b, k), keep(a, k))
			} else {
				out = append(out, keep(a, k), keep(b, k))
			}
		default:
			out = append(out, keep(p, k))
		}
	}
	return out
}

// ReImage feeds an expectation through a further edit: f maps plain parts.
func ReImage(xx []XPart, f func([]Part) []XPart) []XPart {
	out := f(Plain(xx))
	// carry SiteAlt/Vanished from the first stage where the part is unchanged
	for i := range out {
		src := xx[out[i].From]
		out[i].From = src.From
		if src.Vanished {
			out[i].Vanished = true
		}
		if len(src.SiteAlt) > 0 && out[i].Kind == KSite && len(out[i].SiteAlt) == 0 {
			out[i].SiteAlt = nil // recomputed by the caller if it matters
		}
	}
	return out
}

// ImageReverse maps parts through the reversal of a sequence of length L:
// residue x -> L-1-x, site g -> L-g, open ends swap sides, reading order
// reverses (strand flags unchanged).  siteOffByOne applies the listed
// deviation "mirrored site is one position low" (site g -> L-1-g).
func ImageReverse(pp []Part, L int, siteOffByOne bool) []XPart {
	out := make([]XPart, 0, len(pp))
	for k := len(pp) - 1; k >= 0; k-- {
		p := pp[k]
		q := p
		switch p.Kind {
		case KSite:
			g := L - p.Lo
			if siteOffByOne {
				g = L - 1 - p.Lo
			}
			q.Lo, q.Hi = g, g
		case KPoint, KRange, KAmb:
			q.Lo, q.Hi = L-p.Hi, L-p.Lo
			q.OpenLo, q.OpenHi = p.OpenHi, p.OpenLo
		}
		out = append(out, XPart{Part: q, From: k})
	}
	return out
}

// ImageIdentity wraps parts unchanged.
func ImageIdentity(pp []Part) []XPart {
	out := make([]XPart, len(pp))
	for k, p := range pp {
		out[k] = XPart{Part: p, From: k}
	}
	return out
}

// Extract is the model of sequence extraction: the residues at the base
// atoms of the parts in reading order, complemented by comp on the reverse
// strand.
func Extract(seq []byte, pp []Part, comp func(byte) byte) []byte {
	var out []byte
	for _, a := range Atoms(pp) {
		if a.Site {
			continue
		}
		if a.Pos < 0 || a.Pos >= len(seq) {
			out = append(out, '?')
			continue
		}
		b := seq[a.Pos]
		if a.Rev {
			b = comp(b)
		}
		out = append(out, b)
	}
	return out
}

// ComplementByte is the IUPAC complement table (written from the IUPAC
// definition; U complements to A, A to T).
func ComplementByte(b byte) byte {
	const from = "ACGTURYKMBDHVSWNacgturykmbdhvswn"
	const to = "TGCAAYRMKVHDBSWNtgcaayrmkvhdbswn"
	for i := 0; i < len(from); i++ {
		if from[i] == b {
			return to[i]
		}
	}
	return b
}

// OnlyRepeatedPointsRemoved reports whether after denotes the residues of
// before minus at least one back-to-back repeat, and every residue that
// occurs less often afterwards can be accounted for by single-base point
// parts of before (join(1,1) -> 1, join(2,2..3) -> 2..3): the shape the listed
// finding join-reduction-not-idempotent is about. Repeats between two ranges
// (join(4..4,4..6)) are left alone by the documented reductions.
func OnlyRepeatedPointsRemoved(before, after []Part) bool {
	type key struct {
		pos int
		rev bool
	}
	cntB, cntA, pts := map[key]int{}, map[key]int{}, map[key]int{}
	for _, p := range before {
		for _, a := range Atoms([]Part{p}) {
			if a.Site {
				continue
			}
			k := key{a.Pos, a.Rev}
			cntB[k]++
			if p.Kind == KPoint {
				pts[k]++
			}
		}
	}
	for _, a := range Bases(Atoms(after)) {
		cntA[key{a.Pos, a.Rev}]++
	}
	removed := 0
	for k, n := range cntB {
		d := n - cntA[k]
		if d < 0 || d > pts[k] || (d > 0 && cntA[k] == 0) {
			return false
		}
		removed += d
	}
	for k := range cntA {
		if cntB[k] == 0 {
			return false
		}
	}
	return removed > 0
}
