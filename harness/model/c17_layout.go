package model

import (
	"fmt"
	"strings"
)

// Closed-form reference model of the FASTA text layout demanded by C17:
// one description line ">"+desc+"\n", then the residues cut into lines of
// FastaWidth columns (all but the last exactly FastaWidth wide), every line
// terminated by a single "\n".

// FastaWidth is the line width of the residue block.
const FastaWidth = 70

// FastaLines cuts the residues into the lines of the residue block. Zero
// residues give one empty line (the canonical layout keeps the line
// terminator after the description and after the block).
func FastaLines(res []byte) []string {
	if len(res) == 0 {
		return []string{""}
	}
	var out []string
	for i := 0; i < len(res); i += FastaWidth {
		j := i + FastaWidth
		if j > len(res) {
			j = len(res)
		}
		out = append(out, string(res[i:j]))
	}
	return out
}

// FastaRecord is the canonical text of one record.
func FastaRecord(desc string, res []byte) string {
	var sb strings.Builder
	sb.Grow(len(desc) + len(res) + len(res)/FastaWidth + 4)
	sb.WriteByte('>')
	sb.WriteString(desc)
	sb.WriteByte('\n')
	for _, l := range FastaLines(res) {
		sb.WriteString(l)
		sb.WriteByte('\n')
	}
	return sb.String()
}

// FastaLayoutOK judges the written text of one record. What the statement
// fixes (description on one line, 70-column wrapping, a line terminator after
// the last residue line) is demanded byte for byte; what it leaves open is
// accepted either way:
//   - zero residues: the residue block may be one empty line or be absent;
//   - an exact multiple of the width: a blank line after the last full line is
//     tolerated (both read as the same record).
func FastaLayoutOK(desc string, res []byte, got string) (bool, string) {
	head := ">" + desc + "\n"
	if !strings.HasPrefix(got, head) {
		return false, "description-line"
	}
	body := got[len(head):]
	n := len(res)
	if n == 0 {
		if body == "" || body == "\n" {
			return true, ""
		}
		return false, "empty-record-body"
	}
	var sb strings.Builder
	for _, l := range FastaLines(res) {
		sb.WriteString(l)
		sb.WriteByte('\n')
	}
	want := sb.String()
	if body == want {
		return true, ""
	}
	if n%FastaWidth == 0 && body == want+"\n" {
		return true, ""
	}
	// name the first thing that is wrong.
	if !strings.HasSuffix(body, "\n") {
		return false, "no-trailing-newline"
	}
	lines := strings.Split(strings.TrimSuffix(body, "\n"), "\n")
	if strings.Join(lines, "") != string(res) {
		return false, "residues-in-text"
	}
	for i, l := range lines {
		if len(l) > FastaWidth || (i < len(lines)-1 && len(l) != FastaWidth) {
			return false, "line-width"
		}
	}
	return false, "residue-block"
}

// FastaCRKeptResidues is the deviation model of the known finding
// "fasta-crlf-keeps-cr": the reader strips only '\n' from the residue block,
// so with CRLF line ends every line of the canonical block contributes its
// residues followed by '\r'.
func FastaCRKeptResidues(res []byte) []byte {
	var out []byte
	for _, l := range FastaLines(res) {
		out = append(out, l...)
		out = append(out, '\r')
	}
	return out
}

// FastaSuffix is the region suffix of a sliced record: 1-based first residue
// and last residue of the half-open span [head, tail).
func FastaSuffix(head, tail int) string {
	return fmt.Sprintf(":%d-%d", head+1, tail)
}
