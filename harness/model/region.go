package model

import "github.com/go-gts/gts"

// DSeg is a directed segment: forward when Head<=Tail (residues
// Head..Tail-1), reverse when Tail<Head (residues Head-1 down to Tail, read
// complemented).
type DSeg struct{ Head, Tail int }

// Len is the number of residues.
func (s DSeg) Len() int {
	if s.Tail < s.Head {
		return s.Head - s.Tail
	}
	return s.Tail - s.Head
}

// Rev reports a reverse-strand segment.
func (s DSeg) Rev() bool { return s.Tail < s.Head }

// RegionOf flattens the region of a location into directed segments in 5'->3'
// order, from the model's own reading of the location (M1), not from
// Location.Region().
func RegionOf(loc gts.Location) []DSeg {
	var out []DSeg
	for _, p := range Parts(loc) {
		if p.Kind == KNil || p.Kind == KUnknown {
			continue
		}
		if p.Rev {
			out = append(out, DSeg{p.Hi, p.Lo})
		} else {
			out = append(out, DSeg{p.Lo, p.Hi})
		}
	}
	return out
}

// SplicedLen is the total residue count.
func SplicedLen(ss []DSeg) int {
	n := 0
	for _, s := range ss {
		n += s.Len()
	}
	return n
}

// SplicedPos maps spliced index k to (sequence position, reverse strand).
// k<0 extends the first segment outward against its direction, k>=len extends
// the last segment outward along its direction. A zero-length first/last
// segment is treated as forward.
func SplicedPos(ss []DSeg, k int) (pos int, rev bool) {
	if len(ss) == 0 {
		return k, false
	}
	if k < 0 {
		f := ss[0]
		if f.Rev() {
			return f.Head - 1 - k, true
		}
		return f.Head + k, false
	}
	rem := k
	for _, s := range ss {
		if rem < s.Len() {
			if s.Rev() {
				return s.Head - 1 - rem, true
			}
			return s.Head + rem, false
		}
		rem -= s.Len()
	}
	l := ss[len(ss)-1]
	if l.Rev() {
		return l.Tail - 1 - rem, true
	}
	return l.Tail + rem, false
}

// SplicedWindow extracts spliced indices [lo,hi) from seq; ok=false when a
// needed position lies outside the sequence.
func SplicedWindow(seq []byte, ss []DSeg, lo, hi int, comp func(byte) byte) (out []byte, ok bool) {
	for k := lo; k < hi; k++ {
		p, rev := SplicedPos(ss, k)
		if p < 0 || p >= len(seq) {
			return nil, false
		}
		b := seq[p]
		if rev {
			b = comp(b)
		}
		out = append(out, b)
	}
	return out, true
}

// SplicedGap returns the acceptable sequence coordinates (gap positions) of
// the zero-length point at spliced index k: inside a segment it is the gap on
// the 5' side of S[k]; at a boundary between segments (including zero-length
// ones) the 3' end of every segment that ends at k and the 5' end of every
// segment that starts at k are all acceptable; outside [0,n] the first/last
// segment is extended outward.
func SplicedGap(ss []DSeg, k int) []int {
	n := SplicedLen(ss)
	if len(ss) == 0 {
		return []int{k}
	}
	if k < 0 {
		f := ss[0]
		if f.Rev() {
			return []int{f.Head - k}
		}
		return []int{f.Head + k}
	}
	if k > n {
		l := ss[len(ss)-1]
		d := k - n
		if l.Rev() {
			return []int{l.Tail - d}
		}
		return []int{l.Tail + d}
	}
	var out []int
	add := func(g int) {
		for _, x := range out {
			if x == g {
				return
			}
		}
		out = append(out, g)
	}
	cum := 0
	for _, s := range ss {
		start, end := cum, cum+s.Len()
		if k == start {
			add(s.Head)
		}
		if k == end {
			add(s.Tail)
		}
		if k > start && k < end {
			if s.Rev() {
				add(s.Head - (k - start))
			} else {
				add(s.Head + (k - start))
			}
		}
		cum = end
	}
	return out
}

// ModWindow turns a modifier (kind, p, q) into the spliced window [lo,hi) of
// a region of n residues. kinds: "^" Head(p), "$" Tail(p), "^$" HeadTail,
// "^^" HeadHead, "$$" TailTail. hi<lo collapses onto lo.
func ModWindow(kind string, p, q, n int) (lo, hi int) {
	switch kind {
	case "^":
		lo, hi = p, p
	case "$":
		lo, hi = n+p, n+p
	case "^$":
		lo, hi = p, n+q
	case "^^":
		lo, hi = p, q
	case "$$":
		lo, hi = n+p, n+q
	}
	if hi < lo {
		hi = lo
	}
	return
}
