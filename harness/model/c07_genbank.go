package model

// A deliberately simple reader of GenBank record text for property C07. It
// answers only what the consistency clause needs: what length does the LOCUS
// line declare, is there an ORIGIN block, and how many residues are physically
// present in it (9-column index, groups of up to ten residues). It is written
// from the flat-file layout and shares nothing with seqio.

import (
	"strconv"
	"strings"
)

// C07SplitLines splits at CRLF, LF or a lone CR and drops the terminators.
func C07SplitLines(text []byte) []string {
	var out []string
	start := 0
	for i := 0; i < len(text); i++ {
		switch text[i] {
		case '\n':
			out = append(out, string(text[start:i]))
			start = i + 1
		case '\r':
			out = append(out, string(text[start:i]))
			if i+1 < len(text) && text[i+1] == '\n' {
				i++
			}
			start = i + 1
		}
	}
	if start < len(text) {
		out = append(out, string(text[start:]))
	}
	return out
}

// C07Block is one ORIGIN block of a record text.
type C07Block struct {
	Line  int // index of the ORIGIN line
	Count int // residues in the residue-shaped lines that follow it
	// ExactFor reports whether the lines after the ORIGIN line start with the
	// exact layout of d residues (what a strict block reader accepts).
	lines []string
}

// C07Record is what the simple reader sees in one record text.
type C07Record struct {
	LocusOK  bool // the first line is a LOCUS line with a readable length
	Declared int
	Depth    int // columns of a top-level field name incl. padding
	Blocks   []C07Block
	// Unclear is non-empty when the field structure cannot be told without
	// re-implementing the reader (unbalanced quotes, escapes, a CONTIG line
	// without colon, a record separator inside the text): don't-care.
	Unclear string
}

func c07IsDigits(s string) bool {
	if s == "" {
		return false
	}
	for i := 0; i < len(s); i++ {
		if s[i] < '0' || s[i] > '9' {
			return false
		}
	}
	return true
}

// c07ResidueLine: optional spaces, an index of digits, then one or more
// groups " xxxxxxxxxx" of printable non-space bytes; nothing else but blanks
// at the end of the line.
func c07ResidueLine(s string) (int, bool) {
	s = strings.TrimRight(s, " \t\v\f")
	i := 0
	for i < len(s) && s[i] == ' ' {
		i++
	}
	j := i
	for j < len(s) && s[j] >= '0' && s[j] <= '9' {
		j++
	}
	if j == i {
		return 0, false
	}
	n, groups := 0, 0
	for j < len(s) {
		if s[j] != ' ' {
			return 0, false
		}
		j++
		k := j
		for k < len(s) && s[k] >= 33 && s[k] <= 126 {
			k++
		}
		if k == j {
			return 0, false
		}
		n += k - j
		groups++
		j = k
	}
	return n, groups > 0
}

// C07ReadRecord reads one record text (from its LOCUS line to its "//").
func C07ReadRecord(text []byte) C07Record {
	var rec C07Record
	lines := C07SplitLines(text)
	if len(lines) == 0 {
		return rec
	}
	// LOCUS line: "LOCUS" spaces name spaces length " bp"|" aa" ...
	first := lines[0]
	if strings.HasPrefix(first, "LOCUS ") && !strings.ContainsAny(first, "\t\v\f") {
		rest := first[5:]
		sp := 0
		for sp < len(rest) && rest[sp] == ' ' {
			sp++
		}
		tok := strings.Fields(rest)
		if len(tok) >= 3 && (tok[2] == "bp" || tok[2] == "aa") {
			num := tok[1]
			digits := strings.TrimPrefix(strings.TrimPrefix(num, "-"), "+")
			if c07IsDigits(digits) && len(num)-len(digits) <= 1 {
				if v, err := strconv.Atoi(num); err == nil {
					rec.LocusOK, rec.Declared, rec.Depth = true, v, sp+5
				}
			}
		}
	}
	last := len(lines) - 1
	for i, l := range lines {
		if i < last && l == "//" {
			rec.Unclear = "a record separator inside the record text"
		}
		if strings.HasPrefix(l, "CONTIG") && !strings.Contains(l, ":") {
			rec.Unclear = "a CONTIG line without colon (its reader scans on to the next colon)"
		}
	}
	firstOrigin := -1
	for i := 1; i < len(lines); i++ {
		l := lines[i]
		if !(l == "ORIGIN" || strings.HasPrefix(l, "ORIGIN ")) {
			continue
		}
		if firstOrigin < 0 {
			firstOrigin = i
		}
		b := C07Block{Line: i}
		j := i + 1
		for ; j < len(lines); j++ {
			n, ok := c07ResidueLine(lines[j])
			if !ok {
				break
			}
			b.Count += n
		}
		b.lines = lines[i+1:]
		rec.Blocks = append(rec.Blocks, b)
	}
	if firstOrigin >= 0 && rec.Unclear == "" {
		// a backslash inside a quoted value makes its reader skip the next
		// byte, possibly the closing quote.
		quotes, inQuote := 0, false
		for _, l := range lines[:firstOrigin] {
			for i := 0; i < len(l); i++ {
				switch l[i] {
				case '"':
					quotes++
					inQuote = !inQuote
				case '\\':
					if inQuote {
						rec.Unclear = "a backslash inside a quoted value before the ORIGIN line"
					}
				}
			}
		}
		if quotes%2 == 1 {
			rec.Unclear = "an odd number of double quotes before the ORIGIN line (a quoted value may run over it)"
		}
	}
	return rec
}

// ExactFor reports whether the lines after the ORIGIN line begin with exactly
// the layout of d residues: line l holds the index 60*l+1 right-aligned in 9
// columns and, for each started group of ten, one space and the residues
// (bytes 33..126), and nothing else but blanks at the end of a line.
func (b C07Block) ExactFor(d int) bool {
	l := 0
	for i := 0; i < d; i, l = i+60, l+1 {
		if l >= len(b.lines) {
			return false
		}
		line := strings.TrimRight(b.lines[l], " \t\v\f")
		idx := string(OriginIndex(i + 1))
		if !strings.HasPrefix(line, idx) {
			return false
		}
		pos := len(idx)
		for j := i; j < i+60 && j < d; j += 10 {
			if pos >= len(line) || line[pos] != ' ' {
				return false
			}
			pos++
			for k := j; k < j+10 && k < d; k++ {
				if pos >= len(line) || line[pos] < 33 || line[pos] > 126 {
					return false
				}
				pos++
			}
		}
		if pos != len(line) {
			return false
		}
	}
	return true
}
