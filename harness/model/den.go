// Package model holds the reference models the monitors compare go-gts/gts
// against. Nothing in here calls into the code under test except to read the
// exported fields of its location value types.
package model

import (
	"fmt"
	"strings"

	"github.com/go-gts/gts"
)

// Part kinds.
const (
	KPoint = iota
	KSite
	KRange
	KAmb
	KNil // a nil entry inside a join/order (only produced by defective code)
	KUnknown
)

// Part is one contiguous component of a location, in coordinate terms.
type Part struct {
	Kind   int
	Lo, Hi int  // residues [Lo,Hi); a site has Lo==Hi (the gap before residue Lo)
	OpenLo bool // '<' printed on the low coordinate
	OpenHi bool // '>' printed on the high coordinate
	Rev    bool // read on the reverse strand
	Ord    bool // nearest enclosing list is an order(...)
	InList bool // member of a join/order list
	Group  int  // identifies the nearest enclosing list within one location (0: none)
}

// Atom is one denoted thing: a residue or a zero-length site.
type Atom struct {
	Site bool
	Pos  int
	Rev  bool
	Amb  bool
}

func (a Atom) String() string {
	s := fmt.Sprint(a.Pos)
	if a.Site {
		s = "^" + s
	}
	if a.Amb {
		s += "?"
	}
	if a.Rev {
		s += "-"
	}
	return s
}

// Parts lists the contiguous parts of loc in reading order (5'->3').
func Parts(loc gts.Location) []Part {
	g := 0
	return parts(loc, false, false, false, 0, &g)
}

func parts(loc gts.Location, rev, ord, inList bool, group int, next *int) []Part {
	switch v := loc.(type) {
	case nil:
		return []Part{{Kind: KNil, Rev: rev, Ord: ord, InList: inList, Group: group}}
	case gts.Point:
		return []Part{{Kind: KPoint, Lo: int(v), Hi: int(v) + 1, Rev: rev, Ord: ord, InList: inList, Group: group}}
	case gts.Between:
		return []Part{{Kind: KSite, Lo: int(v), Hi: int(v), Rev: rev, Ord: ord, InList: inList, Group: group}}
	case gts.Ranged:
		return []Part{{Kind: KRange, Lo: v.Start, Hi: v.End, OpenLo: v.Partial.Partial5, OpenHi: v.Partial.Partial3, Rev: rev, Ord: ord, InList: inList, Group: group}}
	case gts.Ambiguous:
		return []Part{{Kind: KAmb, Lo: v.Start, Hi: v.End, Rev: rev, Ord: ord, InList: inList, Group: group}}
	case gts.Joined:
		return listParts([]gts.Location(v), rev, false, next)
	case gts.Ordered:
		return listParts([]gts.Location(v), rev, true, next)
	case gts.Complemented:
		return parts(v.Location, !rev, ord, inList, group, next)
	default:
		return []Part{{Kind: KUnknown, Rev: rev}}
	}
}

func listParts(ll []gts.Location, rev, ord bool, next *int) []Part {
	*next++
	group := *next
	var out []Part
	if !rev {
		for _, l := range ll {
			out = append(out, parts(l, rev, ord, true, group, next)...)
		}
		return out
	}
	for i := len(ll) - 1; i >= 0; i-- {
		out = append(out, parts(ll[i], rev, ord, true, group, next)...)
	}
	return out
}

// Atoms expands parts into atoms in reading order.
func Atoms(pp []Part) []Atom {
	var out []Atom
	for _, p := range pp {
		switch p.Kind {
		case KSite:
			out = append(out, Atom{Site: true, Pos: p.Lo, Rev: p.Rev})
		case KPoint, KRange, KAmb:
			amb := p.Kind == KAmb
			if !p.Rev {
				for x := p.Lo; x < p.Hi; x++ {
					out = append(out, Atom{Pos: x, Rev: false, Amb: amb})
				}
			} else {
				for x := p.Hi - 1; x >= p.Lo; x-- {
					out = append(out, Atom{Pos: x, Rev: true, Amb: amb})
				}
			}
		}
	}
	return out
}

// Den is the denotation of a location: its atoms in reading order.
func Den(loc gts.Location) []Atom { return Atoms(Parts(loc)) }

// Bases filters the residue atoms.
func Bases(aa []Atom) []Atom {
	out := make([]Atom, 0, len(aa))
	for _, a := range aa {
		if !a.Site {
			out = append(out, a)
		}
	}
	return out
}

// Sites filters the site atoms.
func Sites(aa []Atom) []Atom {
	var out []Atom
	for _, a := range aa {
		if a.Site {
			out = append(out, a)
		}
	}
	return out
}

// AtomsString prints an atom list compactly.
func AtomsString(aa []Atom) string {
	ss := make([]string, len(aa))
	for i, a := range aa {
		ss[i] = a.String()
	}
	return "[" + strings.Join(ss, " ") + "]"
}

// EqualAtoms compares two atom lists.
func EqualAtoms(a, b []Atom) bool {
	if len(a) != len(b) {
		return false
	}
	for i := range a {
		if a[i] != b[i] {
			return false
		}
	}
	return true
}

// Marker is an open end attached to a residue: Hi=false means '<' on residue
// Pos (the low end of a range), Hi=true means '>' on residue Pos (the high
// end of a range).
type Marker struct {
	Pos int
	Hi  bool
	Rev bool
}

func (m Marker) String() string {
	s := "<"
	if m.Hi {
		s = ">"
	}
	r := ""
	if m.Rev {
		r = "-"
	}
	return fmt.Sprintf("%s%d%s", s, m.Pos, r)
}

// Markers lists the open ends of all range parts.
func Markers(pp []Part) []Marker {
	var out []Marker
	for _, p := range pp {
		if p.Kind != KRange {
			continue
		}
		if p.OpenLo {
			out = append(out, Marker{Pos: p.Lo, Hi: false, Rev: p.Rev})
		}
		if p.OpenHi {
			out = append(out, Marker{Pos: p.Hi - 1, Hi: true, Rev: p.Rev})
		}
	}
	return out
}

// MarkerSet turns a marker list into a set.
func MarkerSet(mm []Marker) map[Marker]bool {
	s := make(map[Marker]bool, len(mm))
	for _, m := range mm {
		s[m] = true
	}
	return s
}

// MarkersString prints markers.
func MarkersString(mm []Marker) string {
	ss := make([]string, len(mm))
	for i, m := range mm {
		ss[i] = m.String()
	}
	return "{" + strings.Join(ss, " ") + "}"
}

// HasBad reports whether the location contains a nil or unknown part, a
// range with Hi<=Lo, or an ambiguous span with Hi<=Lo.
func HasBad(pp []Part) string {
	for _, p := range pp {
		switch p.Kind {
		case KNil:
			return "nil-part-in-list"
		case KUnknown:
			return "unknown-part-type"
		case KRange, KAmb:
			if p.Hi <= p.Lo {
				return "empty-or-inverted-span"
			}
		}
	}
	return ""
}

// Bounds returns the lowest and highest coordinate mentioned by the parts.
func Bounds(pp []Part) (lo, hi int, ok bool) {
	for i, p := range pp {
		if p.Kind == KNil || p.Kind == KUnknown {
			continue
		}
		if !ok || i == 0 {
			lo, hi, ok = p.Lo, p.Hi, true
			continue
		}
		if p.Lo < lo {
			lo = p.Lo
		}
		if p.Hi > hi {
			hi = p.Hi
		}
	}
	return
}

// SafeString prints a location without panicking on nil parts.
func SafeString(loc gts.Location) (s string) {
	defer func() {
		if r := recover(); r != nil {
			s = fmt.Sprintf("<unprintable: %v>", r)
		}
	}()
	if loc == nil {
		return "<nil>"
	}
	return loc.String()
}
