#!/usr/bin/env python3
"""mkmut.py <name> <file> <old> <new> [occurrence]  -> writes selftest/mutants/<name>.diff (developer tool)"""
import sys, subprocess, os
name, f, old, new = sys.argv[1:5]
occ = int(sys.argv[5]) if len(sys.argv) > 5 else 0
old = old.encode().decode('unicode_escape'); new = new.encode().decode('unicode_escape')
p = os.path.join('/repo', f)
s = open(p).read()
idx = -1
for _ in range(occ + 1):
    idx = s.index(old, idx + 1)
s2 = s[:idx] + new + s[idx + len(old):]
open(p, 'w').write(s2)
d = subprocess.run(['git', '-C', '/repo', 'diff'], capture_output=True, text=True).stdout
open(f'/verif/selftest/mutants/{name}.diff', 'w').write(d)
subprocess.run(['git', '-C', '/repo', 'checkout', '--', '.'])
print(name, len(d.splitlines()), 'lines')
