#!/bin/bash
# selftest/run.sh <patch> <Cnn> [<Cnn>...]   (developer tool, not registered in MANIFEST)
# Applies a mutant patch to a scratch copy of /repo, confirms it compiles and
# passes the repository's tests, then runs the given checks against the copy.
set -u
PATCH="$(readlink -f "$1")"; shift
VERIF="$(cd "$(dirname "${BASH_SOURCE[0]}")/.." && pwd)"
export GOFLAGS=-mod=mod GOPROXY=off GOSUMDB=off GOTOOLCHAIN=local
S=/tmp/vmut-$$
rm -rf "$S"; mkdir -p "$S"
rsync -a --exclude .git /repo/ "$S/"
trap 'rm -rf "$S"' EXIT
if ! (cd "$S" && patch -p1 -s < "$PATCH"); then echo "MUTANT $PATCH: patch does not apply"; exit 2; fi
if ! (cd "$S" && go build ./... && go build -tags verif ./...) >/dev/null 2>&1; then echo "MUTANT $PATCH: does not compile"; exit 2; fi
if ! (cd "$S" && go test -vet=off -count=1 ./... >/dev/null 2>&1); then echo "MUTANT $PATCH: repo tests FAIL (not a valid mutant)"; exit 2; fi
rc=0
for id in "$@"; do
  out=$(cd "$VERIF" && VERIF_REPO="$S" VERIF_TIER="${TIER:-quick}" ./check "$id" 2>&1); code=$?
  nv=$(echo "$out" | grep -c '^VIOLATION')
  echo "MUTANT $(basename "$PATCH") $id: exit=$code violations=$nv $(echo "$out" | grep '^VIOLATION' | head -2 | sed 's/replay=[^ ]*//' | tr '\n' ' ')"
  [ $code -eq 1 ] || rc=1
done
rm -rf "$VERIF/replays"
exit $rc
