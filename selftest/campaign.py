#!/usr/bin/env python3
"""selftest/campaign.py <out.jsonl> [--max N] [--seed S] [--files f1,f2,...]   (developer tool)

A sampled first-order mutation campaign over go-gts/gts: one small syntactic
change per mutant (relational / arithmetic / boolean operator, constant +-1,
swapped break/continue, dropped statement), applied to a scratch copy of /repo
(never to /repo itself). A mutant that still compiles and still passes the
repository's own tests ("survivor") is run against the quick tier of the checks
that observe its file. Every line of <out.jsonl> is one mutant with its fate:
  does-not-compile | killed-by-repo-tests | detected (by which checks) | undetected.
Undetected survivors are not automatically misses (many are equivalent, or
change behaviour no listed property speaks about): they are a reading list."""
import json, os, random, re, shutil, subprocess, sys, tempfile

args = sys.argv[1:]
out = args[0]
MAX = int(args[args.index('--max') + 1]) if '--max' in args else 200
SEED = int(args[args.index('--seed') + 1]) if '--seed' in args else 1
ONLY = args[args.index('--files') + 1].split(',') if '--files' in args else None
ENV = dict(os.environ, GOFLAGS='-mod=mod', GOPROXY='off', GOSUMDB='off', GOTOOLCHAIN='local')

CHECKS = {
    'location.go': ['C06', 'C07', 'C02', 'C03', 'C04', 'C05', 'C10', 'C12', 'C15', 'C08'],
    'locator.go': ['C08', 'C15', 'C07'],
    'modifier.go': ['C08', 'C15', 'C07'],
    'region.go': ['C08', 'C09', 'C15', 'C03'],
    'sequence.go': ['C02', 'C03', 'C04', 'C05', 'C10', 'C11', 'C12', 'C15'],
    'feature.go': ['C19', 'C12', 'C11', 'C15', 'C07'],
    'props.go': ['C11', 'C12', 'C19', 'C01'],
    'nucleotide.go': ['C18', 'C05', 'C11'],
    'molecule.go': ['C07', 'C01'],
    'topology.go': ['C07', 'C01'],
    'seqio/genbank.go': ['C01', 'C07', 'C03', 'C17'],
    'seqio/genbank_subparsers.go': ['C01', 'C07', 'C16'],
    'seqio/insdc.go': ['C01', 'C07', 'C12'],
    'seqio/origin.go': ['C16', 'C01'],
    'seqio/fasta.go': ['C17', 'C07'],
    'seqio/scanner.go': ['C07', 'C01', 'C17'],
    'seqio/date.go': ['C07', 'C01'],
    'seqio/writer.go': ['C01', 'C17'],
    'cmd/cache/file.go': ['C13', 'C14'],
    'cmd/cache/header.go': ['C13', 'C14'],
    'cmd/gts/io.go': ['C14', 'C13', 'C01'],
    'cmd/gts/delete.go': ['C03', 'C15', 'C14', 'C17'], 'cmd/gts/extract.go': ['C03', 'C08', 'C15', 'C14', 'C17'],
    'cmd/gts/split.go': ['C03', 'C04', 'C15', 'C14', 'C17'], 'cmd/gts/rotate.go': ['C04', 'C15', 'C14', 'C17'],
    'cmd/gts/insert.go': ['C02', 'C15', 'C14', 'C17'], 'cmd/gts/infix.go': ['C02', 'C15', 'C14', 'C17'],
    'cmd/gts/reverse.go': ['C05', 'C14', 'C17'], 'cmd/gts/complement.go': ['C05', 'C14', 'C17'],
    'cmd/gts/repair.go': ['C12', 'C14', 'C17'], 'cmd/gts/join.go': ['C12', 'C14', 'C17'],
    'cmd/gts/search.go': ['C18', 'C14', 'C17'], 'cmd/gts/select.go': ['C19', 'C14', 'C17'],
    'cmd/gts/clear.go': ['C17', 'C14', 'C01'], 'cmd/gts/sort.go': ['C14', 'C17'], 'cmd/gts/pick.go': ['C14', 'C17'],
}

OPS = [
    (r' <= ', [' < ']), (r' < ', [' <= ']), (r' >= ', [' > ']), (r' > ', [' >= ']),
    (r' == ', [' != ']), (r' != ', [' == ']),
    (r' && ', [' || ']), (r' \|\| ', [' && ']),
    (r' \+ 1\b', [' ', ' + 2']), (r' - 1\b', [' ', ' - 2']), (r'\+1\b', ['', '+2']), (r'-1\b', ['', '-2']),
    (r' \+ ', [' - ']), (r' - ', [' + ']),
    (r'\btrue\b', ['false']), (r'\bfalse\b', ['true']),
    (r'\bcontinue\b', ['break']), (r'\bbreak\b', ['continue']),
    (r'\+= ', ['-= ']), (r'\[1:\]', ['[0:]']), (r'\[:0\]', ['[:1]']),
]


def candidates(path, text):
    res = []
    lines = text.split('\n')
    infunc = False
    for i, l in enumerate(lines):
        s = l.strip()
        if s.startswith('func '):
            infunc = True
        if not infunc or s.startswith('//') or s.startswith('import') or '"' in s and s.startswith('"'):
            continue
        if 'flags.Register' in l or 'opt.' in l and 'Switch(' in l:
            continue
        code = l.split('//')[0]
        for pat, reps in OPS:
            for m in re.finditer(pat, code):
                # not inside a string literal (rough: even number of quotes before)
                if code[:m.start()].count('"') % 2 == 1 or code[:m.start()].count('`') % 2 == 1:
                    continue
                for rep in reps:
                    nl = code[:m.start()] + rep + code[m.end():] + l[len(code):]
                    res.append((i, l, nl, f'{pat.strip()} -> {rep.strip() or "(dropped)"}'))
        # dropped statement: a simple assignment or call on its own line
        if re.match(r'^\s+[\w\.\[\]]+(\(.*\)| = .*| \+= .*|\+\+)$', code) and not s.startswith('return') and ':=' not in s:
            res.append((i, l, re.match(r'^\s*', l).group(0) + '// (dropped)', 'statement dropped'))
    return res


def sh(cmd, cwd, timeout=900):
    p = subprocess.run(cmd, shell=True, cwd=cwd, env=ENV, capture_output=True, text=True, timeout=timeout)
    return p.returncode, p.stdout + p.stderr


rnd = random.Random(SEED)
pool = []
for rel in sorted(CHECKS):
    if ONLY and rel not in ONLY:
        continue
    p = os.path.join('/repo', rel)
    if not os.path.exists(p):
        continue
    text = open(p).read()
    for c in candidates(rel, text):
        pool.append((rel,) + c)
rnd.shuffle(pool)
pool = pool[:MAX]
print(len(pool), 'mutants sampled')

scratch = tempfile.mkdtemp(prefix='vcamp-', dir='/tmp')
try:
    sh('rsync -a --exclude .git /repo/ ' + scratch + '/', '/')
    with open(out, 'a') as fo:
        for n, (rel, i, old, new, what) in enumerate(pool):
            p = os.path.join(scratch, rel)
            orig = open(os.path.join('/repo', rel)).read()
            lines = orig.split('\n')
            lines[i] = new
            open(p, 'w').write('\n'.join(lines))
            rec = {'file': rel, 'line': i + 1, 'what': what, 'old': old.strip(), 'new': new.strip()}
            try:
                rc, o = sh('go build ./... && go vet ./' + os.path.dirname(rel) + ' 2>/dev/null; go build -tags verif ./...', scratch)
                rc, o = sh('go build ./... && go build -tags verif ./...', scratch)
                if rc != 0:
                    rec['fate'] = 'does-not-compile'
                else:
                    rc, o = sh('go test -vet=off -count=1 -timeout 120s ./...', scratch, timeout=400)
                    if rc != 0:
                        rec['fate'] = 'killed-by-repo-tests'
                    else:
                        det, miss = [], []
                        for chk in CHECKS[rel]:
                            try:
                                pr = subprocess.run(['/verif/check', chk, 'quick'], env=dict(ENV, VERIF_REPO=scratch), capture_output=True, text=True, timeout=1500)
                                code = pr.returncode
                            except subprocess.TimeoutExpired:
                                code = 1
                            (det if code == 1 else miss).append(chk if code in (0, 1) else chk + '?' + str(code))
                            if code == 1 and len(det) >= 2:
                                break
                        rec['fate'] = 'detected' if det else 'undetected'
                        rec['detected_by'] = det
                        rec['not_by'] = miss
            except subprocess.TimeoutExpired:
                rec['fate'] = 'timeout'
            fo.write(json.dumps(rec) + '\n')
            fo.flush()
            print(n + 1, rec['fate'], rel, i + 1, what, rec.get('detected_by', ''))
            open(p, 'w').write(orig)
finally:
    shutil.rmtree(scratch, ignore_errors=True)
    shutil.rmtree('/verif/replays', ignore_errors=True)
