#!/usr/bin/env python3
import json,sys,glob
for pat in sys.argv[1:]:
    for f in sorted(glob.glob(pat)):
        d=json.load(open(f))
        print('==',d['class'],'count',d['count'])
        print(' case:',d['case'][:1500]); print(' exp :',d['expected'][:800]); print(' obs :',d['observed'][:800])
        if d.get('stack'): print(' stack:',d['stack'][:600])
